"""C11 — IP-restricted automation certificates work only from their netblocks.

All with net.IPNet.Contains / IPv4 / CIDRMask / IPMask.Size / IP.To4 executed from the `net` package's own SSA:
 1. round trip: for every prefix length 0..32 and every 4 address bytes (canonical block; 4- and 16-byte IP forms):
    decodeIPV4AddressChoice(encodeIpAddressChoice(n)) = n.
 2. membership: VerifyIPRestrictedX509CertIP(cert, addr) = true  <=>  the peer parsed from addr is IPv4 (or IPv4-mapped) and lies
    inside one of the certificate's IPv4 blocks (<= 2 families x <= 2 blocks, every BitLength 0..32 (+ oversized 33..64), every byte);
    IPv6 / unparsable peers and malformed extensions never yield true, and nothing panics.
 3. the daemon asks the question about the TCP peer: getUsernameIfIPRestricted returns an identity only if the verifier said true for
    (leaf of the first verified chain, r.RemoteAddr), and the identity is that certificate's common name.
 4. refresh: the parameters of a refreshed certificate are (identity admitted by checkAuth, netblocks extracted from the presented leaf),
    and checkAuth for the refresh endpoint admits an IP-restricted identity only through step 3 (gate lemma, required = IP certificate).
"""
import time, z3, re
from symx.check import run_check, term, model_dict
from symx.engine import *
from symx.harness import *
from symx import lib, authmodel as am, gate, issue
from symx.lib import M, KM
from checks.c01 import handler_for

CG = KM + '/lib/certgen'
SV = z3.StringVal
NET_INLINE = re.compile(r'^net\.(IPv4|CIDRMask|networkNumberAndMask|allFF|simpleMaskLength|bytesEqual|isZeros)$|^\(net\.IP\)\.(To4|To16|Mask|Equal)$|^\(net\.IPMask\)\.Size$|^\(\*net\.IPNet\)\.Contains$|^internal/bytealg\.Equal$')


def bv8(n): return z3.BitVecVal(n, 8)


def newH(ir, lb=40, budget=200):
    H = HandlerRun(ir, loop_bound=lb, budget_s=budget)
    H.extra_inline = NET_INLINE
    return H


def bytes_of(ex, st, sl):
    return ex.slice_values(st, sl)


def ob_roundtrip(chk, ir):
    t = time.time(); enc = CG + '.encodeIpAddressChoice'; dec = CG + '.decodeIPV4AddressChoice'
    if enc not in ir.funcs or dec not in ir.funcs: chk.obligation('round-trip', '-', 'inconclusive', 'ANCHOR-LOST encode/decode'); return
    verdict = 'holds'; total = 0; n = 0
    IPNET = ir.typeid('net.IPNet'); BS = ir.typeid('encoding/asn1.BitString')
    prefixes = range(0, 33)
    for ones in prefixes:
        for form in (4, 16):
            H = newH(ir); ex = H.ex
            st = State()
            a = [z3.BitVec(f'ip{i}', 8) for i in range(4)]
            A32 = z3.Concat(*a)
            mask32 = z3.BitVecVal(((0xffffffff << (32 - ones)) & 0xffffffff) if ones else 0, 32)
            st.pc.append(A32 & ~mask32 == 0)         # canonical: host bits are zero (what net.ParseCIDR yields)
            ipb = a if form == 4 else [bv8(0)] * 10 + [bv8(0xff)] * 2 + a
            mb = [z3.Extract(31 - 8 * i, 24 - 8 * i, mask32) for i in range(4)]
            v = []
            for f in ir.fields(IPNET): v.append(ex.mkslice(st, ipb) if f['name'] == 'IP' else ex.mkslice(st, [z3.simplify(x) for x in mb]))
            paths = ex.run(enc, [StructV(v)], st); total += len(paths)
            for p in paths:
                if p.status != 'returned':
                    if p.status == 'panic':
                        if chk.violation('round-trip', 'encodeIpAddressChoice', f'encode panics for /{ones} ({form}-byte IP): {p.result}', None) == 'new': verdict = 'violated'
                        continue
                    chk.absorb(ex, paths); chk.obligation('round-trip', f'/{ones}', 'inconclusive', p.result); return
                bs, err = p.result
                if not (isinstance(err, IfaceV) and err.tid is None):
                    if chk.violation('round-trip', 'encodeIpAddressChoice', f'encode refuses canonical /{ones} ({form}-byte IP)', None) == 'new': verdict = 'violated'
                    continue
                # decode on the same path state
                s2 = p.fork(); s2.status = 'run'; s2.frames = []
                paths2 = ex.run(dec, [clone(bs)], s2); total += len(paths2)
                for q in paths2:
                    if q.status == 'panic':
                        if chk.violation('round-trip', 'decodeIPV4AddressChoice', f'decode panics on encode(/{ones}): {q.result}', None) == 'new': verdict = 'violated'
                        continue
                    if q.status != 'returned': chk.absorb(ex, paths2); chk.obligation('round-trip', f'/{ones}', 'inconclusive', q.result); return
                    nb, err2 = q.result
                    if not (isinstance(err2, IfaceV) and err2.tid is None):
                        if chk.violation('round-trip', 'decodeIPV4AddressChoice', f'decode refuses encode(/{ones})', None) == 'new': verdict = 'violated'
                        continue
                    n += 1
                    ip = ex.getfield(q, nb, IPNET, 'IP'); mk = ex.getfield(q, nb, IPNET, 'Mask')
                    ipv = ex.slice_values(q, ip); mkv = ex.slice_values(q, mk)
                    got_ip = ipv[-4:] if len(ipv) in (4, 16) else None
                    if got_ip is None or len(mkv) != 4:
                        if chk.violation('round-trip', 'decodeIPV4AddressChoice', f'decoded block of /{ones} has IP length {len(ipv)} mask length {len(mkv)}', None) == 'new': verdict = 'violated'
                        continue
                    good = z3.And([got_ip[i] == a[i] for i in range(4)] + [mkv[i] == mb[i] for i in range(4)])
                    r_, m = ex.model(q.pc, z3.Not(good))
                    if r_ == 'unknown': chk.obligation('round-trip', f'/{ones}', 'inconclusive', 'solver unknown'); return
                    if r_ == 'sat':
                        md = {'prefix': ones, 'ip': [m.eval(x, model_completion=True).as_long() for x in a], 'decoded_ip': [m.eval(x, model_completion=True).as_long() for x in got_ip], 'decoded_mask': [m.eval(x, model_completion=True).as_long() for x in mkv]}
                        if chk.violation('round-trip', 'decode(encode(n))', f'netblock read back differs from the one minted (/{ones})', md) == 'new': verdict = 'violated'
            chk.absorb(ex, paths)
    if n == 0: chk.obligation('round-trip', '-', 'inconclusive', 'vacuous'); return
    chk.witnesses += n
    chk.obligation('round-trip: decode(encode(n)) = n', 'every prefix 0..32 x every 4 address bytes (symbolic) x 4/16-byte IP form', verdict, paths=total, t=time.time() - t)
    chk.sample({'obligation': 'round-trip', 'prefixes': '0..32', 'address_bytes': 'symbolic', 'paths': total})


def block_contains(bytes_, L, bitlen, P32):
    """spec: the encoded block (L bytes, BitLength) contains peer P32 -- over the encoded form, independent of net.IPNet"""
    b = list(bytes_) + [bv8(0)] * (4 - L)
    B32 = z3.Concat(*b[:4])
    n = z3.Extract(31, 0, bitlen)
    mask = z3.If(n == 0, z3.BitVecVal(0, 32), z3.BitVecVal(0xffffffff, 32) << (32 - n))
    return z3.And(bitlen >= 0, bitlen <= 32, (P32 & mask) == (B32 & mask))


def ob_membership(chk, ir, nfam, naddr, lens_):
    t = time.time(); name = CG + '.VerifyIPRestrictedX509CertIP'
    if name not in ir.funcs: chk.obligation('membership', '-', 'inconclusive', 'ANCHOR-LOST ' + name); return
    verdict = 'holds'; total = 0; ntrue = 0
    FAM = ir.typeid(CG + '.IpAdressFamily'); BS = ir.typeid('encoding/asn1.BitString'); XT = ir.typeid('crypto/x509.Certificate'); PE = ir.typeid('crypto/x509/pkix.Extension')
    import itertools
    shapes = list(itertools.product(lens_, repeat=nfam * naddr))
    for shape in shapes:
        for peerkind in ('v4', 'v6', 'nil'):
            H = newH(ir, lb=24); ex = H.ex
            st = State()
            peer = [z3.BitVec(f'peer{i}', 8) for i in range(4)]; P32 = z3.Concat(*peer)
            fams = []; spec = []
            k = 0
            for fi in range(nfam):
                isv4 = z3.Bool(f'fam{fi}.isIPv4'); addrs = []
                for ai in range(naddr):
                    L = shape[k]; k += 1
                    bl = z3.BitVec(f'f{fi}a{ai}.BitLength', 64)
                    by = [z3.BitVec(f'f{fi}a{ai}.b{j}', 8) for j in range(L)]
                    st.pc += [bl >= 0, bl <= 64, z3.BitVecVal(L, 64) == (bl + 7) / 8]
                    # encoding/asn1: padding bits of a parsed BIT STRING may be anything; only the invariant on the length is assumed
                    bsv = []
                    for f in ir.fields(BS): bsv.append((ex.mkslice(st, by) if L else NILSLICE()) if f['name'] == 'Bytes' else bl)
                    addrs.append(StructV(bsv))
                    spec.append(z3.And(isv4, block_contains(by, min(L, 4), bl, P32)) if L <= 4 else z3.BoolVal(False))
                fv = []
                for f in ir.fields(FAM): fv.append(Opaque('family', isv4=isv4) if f['name'] == 'AddressFamily' else ex.mkslice(st, addrs))
                fams.append(StructV(fv))
            has_ext = z3.Bool('cert.hasDelegationExtension')
            # stubs
            def oid_equal(ex_, s, a, ins):
                s.counter += 1; return z3.Bool(f'ext{len(s.evs("oid"))}.isDelegation') if not s.ev('oid') else None
            seen = {'n': 0}
            def oid_equal(ex_, s, a, ins):
                i = len(s.evs('oid')); s.ev('oid'); return has_ext if i == 0 else z3.Bool(f'ext{i}.isDelegation')
            H.stub('(encoding/asn1.ObjectIdentifier).Equal', oid_equal)
            def unmarshal(ex_, s, a, ins):
                def ok(s2):
                    ex_.store(s2, a[1].val if isinstance(a[1], IfaceV) else a[1], ex_.mkslice(s2, [clone(f) for f in fams]))
                    return (NILSLICE(), lib.nilerr())
                return lib.fork_results(ex_, s, ins, [(None, lambda s2: (NILSLICE(), lib.mk_error(s2, SV('asn1'), 'asn1.Unmarshal'))), (None, ok)])
            H.stub('encoding/asn1.Unmarshal', unmarshal)
            H.stub('bytes.Equal', lambda ex_, s, a, ins: a[0].isv4 if isinstance(a[0], Opaque) and hasattr(a[0], 'isv4') else z3.Bool(lib.fresh_name(s, 'bytes.Equal')))
            def parse_ip(ex_, s, a, ins):
                if peerkind == 'nil': return NILSLICE()
                if peerkind == 'v4': return ex_.mkslice(s, [bv8(0)] * 10 + [bv8(0xff)] * 2 + peer)
                v6 = [z3.BitVec(f'v6_{i}', 8) for i in range(16)]
                s.pc.append(z3.Not(z3.And([v6[i] == 0 for i in range(10)] + [v6[10] == 0xff, v6[11] == 0xff])))
                return ex_.mkslice(s, v6)
            H.stub('net.ParseIP', parse_ip)
            cert = Ptr(st.alloc(Lazy(XT, '*cert')))
            H.add_hints(lens(r'^len\(\*cert\.Extensions\)$', [1]))
            addr = z3.String('remoteAddr')
            paths = ex.run(name, [cert, addr], st); total += len(paths)
            for p in paths:
                if p.status == 'panic':
                    r_, m = ex.model(p.pc)
                    if chk.violation('membership', 'VerifyIPRestrictedX509CertIP/panic', f'verifier panics: {p.result}', model_dict(m)) == 'new': verdict = 'violated'
                    continue
                if p.status != 'returned': chk.absorb(ex, paths); chk.obligation('membership', str(shape), 'inconclusive', p.result); return
                ok, err = p.result
                errnil = isinstance(err, IfaceV) and err.tid is None
                unm_ok = any(e['k'] == 'stub' for e in ()) or True
                inside = z3.And(has_ext, z3.Or(spec)) if (spec and peerkind == 'v4') else z3.BoolVal(False)
                # soundness: true => inside
                r_, m = ex.model(p.pc, z3.And(ok, z3.Not(inside)))
                if r_ == 'unknown': chk.obligation('membership', str(shape), 'inconclusive', 'solver unknown'); return
                if r_ == 'sat':
                    if chk.violation('membership', 'VerifyIPRestrictedX509CertIP/accepts-outside', f'verifier answers true for a peer outside every IPv4 block (peer kind {peerkind})', model_dict(m)) == 'new': verdict = 'violated'
                if z3.is_true(z3.simplify(ok)) or ex.feasible(p.pc, ok): ntrue += 1
                # completeness: inside, nothing malformed (all BitLength <= 32), parse succeeded => true
                if errnil:
                    wellformed = z3.And([z3.BitVec(f'f{fi}a{ai}.BitLength', 64) <= 32 for fi in range(nfam) for ai in range(naddr)]) if nfam * naddr else z3.BoolVal(True)
                    r_, m = ex.model(p.pc, z3.And(z3.Not(ok), inside, wellformed))
                    if r_ == 'sat':
                        if chk.violation('membership', 'VerifyIPRestrictedX509CertIP/rejects-inside', 'verifier answers false for a peer inside one of the blocks', model_dict(m)) == 'new': verdict = 'violated'
            chk.absorb(ex, paths)
    if ntrue == 0: chk.obligation('membership', '-', 'inconclusive', 'vacuous: verifier never answers true'); return
    chk.witnesses += ntrue
    chk.obligation('membership: verify(cert, addr) <=> IPv4 peer inside one of the blocks; malformed/IPv6/unparsable never true; no panic',
                   f'{nfam} families x {naddr} blocks, bytes-per-block {list(lens_)}, BitLength 0..64, all address bytes, peer v4/v6/unparsable', verdict, paths=total, t=time.time() - t)
    chk.sample({'obligation': 'membership', 'shapes': len(shapes), 'paths': total})


def ob_daemon_asks_about_peer(chk, ir):
    t = time.time(); name = f'(*{M}.RuntimeState).getUsernameIfIPRestricted'
    if name not in ir.funcs: chk.obligation('peer-question', '-', 'inconclusive', 'ANCHOR-LOST ' + name); return
    H = HandlerRun(ir, loop_bound=6, budget_s=120); ex = H.ex
    remote = z3.String('r.RemoteAddr')
    H.add_hints(pin(r'^\*r\.RemoteAddr$', remote))
    def verify(ex_, s, a, ins):
        ok = z3.Bool('verify.inside')
        s.ev('verify', cert=a[0], addr=a[1], result=ok)
        return lib.fork_results(ex_, s, ins, [(None, lambda s2: (z3.BoolVal(False), lib.mk_error(s2, SV('v'), 'verify'))), (None, (ok, lib.nilerr()))])
    H.stub(CG + '.VerifyIPRestrictedX509CertIP', verify)
    H.stub(f'(*{M}.RuntimeState).isAutomationUser', lambda ex_, s, a, ins: (s.ev('automation', user=a[1]), lib.fork_results(ex_, s, ins, [(None, lambda s2: (z3.BoolVal(False), lib.mk_error(s2, SV('x'), 'automation'))), (None, (z3.Bool('isAutomationUser'), lib.nilerr()))]))[1])
    st, state, w, r = H.mkstate()
    XT = ir.typeid('crypto/x509.Certificate')
    leaf = Ptr(st.alloc(Lazy(XT, '*leaf'))); other = Ptr(st.alloc(Lazy(XT, '*other')))
    verdict = 'holds'; n = 0; total = 0
    for shape in ([[leaf]], [[leaf, other]], [[leaf], [other]]):
        s0 = st.fork()
        chains = ex.mkslice(s0, [ex.mkslice(s0, c) for c in shape])
        paths = ex.run(name, [state, chains, r], s0); total += len(paths)
        for p in paths:
            if p.status == 'panic':
                if chk.violation('peer-question', 'getUsernameIfIPRestricted', 'panics: ' + p.result, None) == 'new': verdict = 'violated'
                continue
            if p.status != 'returned': chk.absorb(ex, paths); chk.obligation('peer-question', '-', 'inconclusive', p.result); return
            user, tm, uerr, err = p.result
            if not (isinstance(uerr, IfaceV) and uerr.tid is None and isinstance(err, IfaceV) and err.tid is None): continue
            n += 1
            PN = ir.typeid('crypto/x509/pkix.Name')
            leafv = ex.load(p, leaf); cn = ex.getfield(p, ex.getfield(p, leafv, XT, 'Subject'), PN, 'CommonName')
            vs = [e for e in p.evs('verify') if e['cert'] == leaf]
            good = z3.Or([z3.And(e['result'], e['addr'] == remote) for e in vs]) if vs else z3.BoolVal(False)
            good = z3.And(good, user == cn, z3.Or([z3.And(e['user'] == cn) for e in p.evs('automation')]) if p.evs('automation') else z3.BoolVal(False), z3.Bool('isAutomationUser'))
            r_, m = ex.model(p.pc, z3.Not(good))
            if r_ == 'sat':
                if chk.violation('peer-question', 'getUsernameIfIPRestricted', 'an IP-restricted identity is established without the verifier accepting (leaf certificate, TCP peer address) / for another name', model_dict(m)) == 'new': verdict = 'violated'
        chk.absorb(ex, paths)
    if n == 0: chk.obligation('peer-question', '-', 'inconclusive', 'vacuous'); return
    chk.witnesses += n
    chk.obligation('daemon verifies (leaf of first chain, r.RemoteAddr) and names the leaf CN, an automation user', 'chains 1x1, 1x2, 2x1', verdict, paths=total, t=time.time() - t)


def ob_refresh(chk, ir):
    t = time.time(); name = f'(*{M}.RuntimeState).parseRefreshRoleCertGenParams'
    if name not in ir.funcs: chk.obligation('refresh-params', '-', 'inconclusive', 'ANCHOR-LOST ' + name); return
    H = HandlerRun(ir, loop_bound=6, budget_s=120); ex = H.ex; issue.install(H)
    H.stub(f'(*{M}.RuntimeState).isAutomationUser', lambda ex_, s, a, ins: lib.fork_results(ex_, s, ins, [(None, lambda s2: (z3.BoolVal(False), lib.mk_error(s2, SV('x'), 'automation'))), (None, (z3.Bool('isAutomationUser'), lib.nilerr()))]))
    def extract(ex_, s, a, ins):
        s.ev('extract', cert=a[0])
        def ok(s2):
            sl = SliceV(s2.alloc(LazyArr(ir.typeid('net.IPNet'), 'extracted')), 0, None, None); s2.aux['extracted'] = sl
            return (sl, lib.nilerr())
        return lib.fork_results(ex_, s, ins, [(None, lambda s2: (NILSLICE(), lib.mk_error(s2, SV('x'), 'extract'))), (None, ok)])
    H.stub(CG + '.ExtractIPNetsFromIPRestrictedX509', extract)
    H.stub_pat(r'base64\.Encoding\)\.DecodeString$', lambda ex_, s, a, ins: lib.fork_results(ex_, s, ins, [(None, lambda s2: (NILSLICE(), lib.mk_error(s2, SV('b64'), 'b64'))), (None, (BytesV(z3.Function('b64decode', z3.StringSort(), z3.StringSort())(a[1])), lib.nilerr()))]))
    st, state, w, r = H.mkstate()
    AI = ir.typeid(M + '.authInfo'); user = z3.String('auth.user')
    ai = Ptr(st.alloc(am.authinfo_struct(ex, st, z3.BitVec('auth.bits', 64), user, TimeV(z3.BitVec('auth.exp', lib.TW)), TimeV(z3.BitVec('auth.iat', lib.TW)))))
    H.add_hints(lens(r'^len\(\*r\.(Post)?Form\[', [1]), lens(r'VerifiedChains\)$', [0, 1, 2]), lens(r'VerifiedChains\[\d\]\)$', [1, 2]), nonnil_ptr(r'VerifiedChains\[\d\]\[\d\]$'))
    paths = ex.run(name, [state, ai, r], st); verdict = 'holds'; n = 0
    T = ir.typeid(M + '.roleRequestingCertGenParams')
    for p in paths:
        if p.status == 'panic':
            r_, m = ex.model(p.pc)
            if chk.violation('refresh-params', 'parseRefreshRoleCertGenParams', 'panics: ' + p.result, model_dict(m)) == 'new': verdict = 'violated'
            continue
        if p.status != 'returned': chk.absorb(ex, paths); chk.obligation('refresh-params', '-', 'inconclusive', p.result); return
        prm, uerr, err = p.result
        if not isinstance(prm, Ptr): continue
        n += 1
        v = ex.load(p, prm)
        role = ex.getfield(p, v, T, 'Role'); nets = ex.getfield(p, v, T, 'RequestorNetblocks')
        ext = p.evs('extract')
        leaf_ok = False
        if ext:
            c = ext[-1]['cert']
            vc = p.memo.get('**r.TLS.VerifiedChains')
            try:
                vc = ex.resolve_slice(p, vc); ch0 = ex.resolve_slice(p, ex.cellval(p, vc.obj, vc.off)); leafp = ex.cellval(p, ch0.obj, ch0.off)
                leaf_ok = (c == leafp)
            except Exception as ex_: leaf_ok = False; dbg = repr(ex_)
        same_nets = isinstance(nets, SliceV) and p.aux.get('extracted') is not None and nets.obj == p.aux['extracted'].obj
        if not (leaf_ok and same_nets):
            import os
            if os.environ.get('DBG'): print('DBG', leaf_ok, same_nets, nets, p.aux.get('extracted'), ext and ext[-1]['cert'], p.memo.get('**r.TLS.VerifiedChains'), locals().get('dbg'))
            if chk.violation('refresh-params', 'parseRefreshRoleCertGenParams', 'refreshed netblocks are not the ones extracted from the presented leaf certificate', None) == 'new': verdict = 'violated'
        r_, m = ex.model(p.pc, role != user)
        if r_ == 'sat':
            if chk.violation('refresh-params', 'parseRefreshRoleCertGenParams/identity', 'refreshed certificate is for another identity than the authenticated one', model_dict(m)) == 'new': verdict = 'violated'
    chk.absorb(ex, paths)
    if n == 0: chk.obligation('refresh-params', '-', 'inconclusive', 'vacuous'); return
    chk.witnesses += n
    chk.obligation('refresh: same identity, netblocks read from the presented leaf', 'chains 0..2 x 1..2', verdict, paths=len(paths), t=time.time() - t)


def main(chk):
    ir = chk.load_ir()
    chk.assumptions = ['net.ParseIP yields nil, a 16-byte IPv4-mapped address or a 16-byte non-mapped address (contract)', 'asn1.Unmarshal yields an arbitrary family list subject to len(Bytes) = ceil(BitLength/8)',
                       'net.SplitHostPort contract (lib.net_splithostport)', 'net package functions are executed from their SSA, not stubbed']
    quick = chk.tier == 'quick'
    chk.bounds = {'prefix': '0..32 (each) x symbolic address bytes', 'families x blocks': '1x1 and 1x2' if quick else 'up to 2x2', 'BitLength': '0..64'}
    ob_roundtrip(chk, ir)
    from symx import selfcheck
    selfcheck.obligation(chk, {'net'}, ir)      # encode / decode / net.* kernels: encoding vs native build on concrete blocks
    ob_membership(chk, ir, 1, 1, range(0, 6))
    ob_membership(chk, ir, 1, 2, (0, 2, 4) if quick else range(0, 5))
    if not quick: ob_membership(chk, ir, 2, 1, (0, 1, 3, 4))
    ob_daemon_asks_about_peer(chk, ir)
    # 'only if': the other certificate branch of checkAuth must not admit an address-restricted leaf at all (shared with C06 / C01)
    from checks.c06 import ob_kmsigned
    ob_kmsigned(chk, ir)
    ob_refresh(chk, ir)
    gate.gate_lemma(chk, ir, am.IPCERT, 'required=IPCertificate (refresh endpoint)', cookies=[0, 1], obligation='refresh-gate', interest=am.IPCERT)


if __name__ == '__main__':
    run_check('C11', main)
