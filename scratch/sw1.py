import sys, time; sys.path.insert(0, '/verif')
import z3
from symx import build, sweep
from symx.harness import routes
ir = build.load()
rs = routes(ir)
print(len(rs))
tot=0
for r in rs:
    t=time.time()
    try:
        H, paths, path = sweep.run_route(ir, r, budget_s=60)
    except Exception as e:
        print('EXC', r['path'], r['handler'], type(e).__name__, e); continue
    if paths is None: print('SKIP', r['path'], r['handler']); continue
    stat={}
    for p in paths: stat[p.status]=stat.get(p.status,0)+1
    bad = {}
    for p in paths:
        if p.status in ('unsupported','unwind','panic'): bad[p.result[:150]] = bad.get(p.result[:150],0)+1
    evk = {}
    for p in paths:
        for e in p.events: evk[e['k']] = evk.get(e['k'],0)+1
    print(f"{r['mux']:7} {r['path']:38} {str(r['handler']).split('.')[-1]:36} paths={len(paths):5} {stat} {time.time()-t:.1f}s", {k:v for k,v in evk.items() if k in ('sign','mint','setcookie','save','delete','redirect','template','publish','upsertsigned','go')})
    for b,c in list(bad.items())[:4]: print('        ', c, b)
    tot+=len(paths)
print('total', tot)
