import time, z3, re
from ir import IR
from symx import *
ir = IR('/tmp/spike/ir')
C = 'github.com/Cloud-Foundations/keymaster/lib/certgen'
STR = ir.typeid('string')
def nilerr(): return IfaceV(None, None)
ex = Exec(ir, {}); ex.ignore = re.compile(r'NEVER')
st = State()
dur = z3.BitVec('duration', 64); nowsec = z3.BitVec('nowUnix', 64)
st.pc += [nowsec >= 1577836800, nowsec <= 3976214400]
unixToInternal = (1969 * 365 + 1969 // 4 - 1969 // 100 + 1969 // 400) * 86400
captured = {}
def st_sign(ex, st, args, ins):
    cert = ex.load(st, args[0]); captured['cert'] = cert; st.events.append(('sign', cert)); return nilerr()
def st_makemap(*a): pass
ex.stubs = {
    'golang.org/x/crypto/ssh.ParseAuthorizedKey': lambda ex, st, args, ins: (IfaceV(STR, Opaque('userKey')), z3.StringVal(''), SliceV(None, 0, 0, 0), SliceV(None, 0, 0, 0), nilerr()),
    'time.Now': lambda ex, st, args, ins: StructV([z3.BitVecVal(0, 64), nowsec + unixToInternal, NIL]),
    'math/big.NewInt': lambda ex, st, args, ins: Ptr(st.alloc(Opaque('big'))),
    'crypto/rand.Int': lambda ex, st, args, ins: (Ptr(st.alloc(Opaque('rnd'))), nilerr()),
    '(*math/big.Int).Uint64': lambda ex, st, args, ins: z3.ZeroExt(32, z3.BitVec('rnd32', 32)),
    'golang.org/x/crypto/ssh.Signer.PublicKey': lambda ex, st, args, ins: IfaceV(STR, Opaque('caKey')),
    '(*golang.org/x/crypto/ssh.Certificate).Marshal': lambda ex, st, args, ins: SliceV(None, 0, 0, 0),
    'bytes.NewReader': lambda ex, st, args, ins: Ptr(st.alloc(Opaque('reader'))),
    '(*golang.org/x/crypto/ssh.Certificate).SignCert': st_sign,
    f'{C}.goCertToFileString': lambda ex, st, args, ins: (z3.String('certString'), nilerr()),
}
signer = IfaceV(STR, Opaque('signer'))
t0 = time.time()
try:
    res = ex.run(f'{C}.GenSSHCertFileString', [z3.String('username'), z3.String('userPubKey'), signer, z3.String('hostid'), dur, NIL], st)
except Unsupported as e:
    print('UNSUPPORTED', e); raise SystemExit
print('paths', len(res), {s.status for s in res}, 'wall', round(time.time() - t0, 2))
cert = captured['cert']
T = ir.under(ir.typeid('golang.org/x/crypto/ssh.Certificate'))[1]['fields']
f = {x['name']: cert[i] for i, x in enumerate(T)}
va, vb = f['ValidAfter'], f['ValidBefore']
print('ValidAfter =', z3.simplify(va)); 
H24 = 24 * 3600 * 10**9
s = [x for x in res if x.status == 'returned'][0]
ex.solver.set('timeout', 120000)
def ask(name, extra):
    t = time.time(); r, m = ex.model(s.pc, z3.And(*extra)); 
    print(name, r, round(time.time() - t, 1), 's', ({'duration': m[dur].as_signed_long(), 'now': m[nowsec]} if m is not None else ''))
# spec on mathematical integers: ValidBefore - now <= max(0,duration_seconds) , duration <= 24h (handler cap)
ask('wrap/too-long with duration<=24h', [dur <= H24, z3.UGT(vb, nowsec + 86400)])
ask('same, after the planned repair (duration>=0)', [dur <= H24, dur >= 0, z3.Or(z3.UGT(vb, nowsec + 86400), z3.ULT(vb, va))])
