"""C04 — signed tokens: never accepted outside their purpose (what first-party code decides; signature arithmetic is Contract J).

 1. algorithm list: publicToPreferedJoseSigAlgo over every dynamic key type / curve: a nil error comes only with EdDSA / ES256 / ES384 /
    ES512 / RS256 (never none / HS*).
 2. per consumer, arbitrary token string (verified JSON members symbolic): honoured => signature verified by a keymaster key, kind = the
    consumer's kind, nbf <= now, exp >= now, iss = aud[0] = issuer, (storage: sub = requested user).  Consumers: session decoder + its
    endpoint expiry test, level upgrade, CLI token endpoints (send / verify), signed storage record (GetSigned body: SQL row arbitrary,
    timeout race, cache fallback).  (Authorization code and access token consumers: C12.)
 3. producer x consumer matrix: each producer is executed to its mint event; the minted token (claims as minted, attacker-influenced fields
    symbolic) is presented to every consumer: accepted only by its own kind's consumer.
 4. rejection has no side effect: rejecting paths set no cookie, mint nothing, save nothing.
"""
import time, z3, re
from symx.check import run_check, term, model_dict
from symx.engine import *
from symx.harness import *
from symx import lib, authmodel as am, gate, sweep, jose
from symx.lib import M, nilerr, mk_error, fork_results

SV = z3.StringVal
S = z3.StringSort()
OK_ALGS = {'EdDSA', 'ES256', 'ES384', 'ES512', 'RS256'}


def base(ir, budget=120):
    H = HandlerRun(ir, loop_bound=6, budget_s=budget, max_paths=40000); ex = H.ex; ex.ptr_nilable = False
    jose.install(H)
    issuer = z3.String('issuer')
    H.stub(f'(*{M}.RuntimeState).idpGetIssuer', lambda ex_, st, a, ins: issuer)
    H.stub(f'(*{M}.RuntimeState).getJoseKeymastedVerifierList', lambda ex_, st, a, ins: fork_results(ex_, st, ins, [(None, lambda s: (NILSLICE(), mk_error(s, SV('algs'), 'algs'))), (None, lambda s: (ex_.mkslice(s, [z3.String('alg0')]), nilerr()))]))
    H.stub(f'{M}.publicToPreferedJoseSigAlgo', sweep.st_sig_algo)
    H.stub_pat(r'^crypto\.Signer\.Public$|Signer\)\.Public$', sweep.st_signer_public)
    H.stub(f'(*{M}.RuntimeState).writeFailureResponse', am.st_fail)
    H.add_hints(nonnil_iface(r'^\*state\.Signer$', 'mainSigner'), lens(r'^len\(\*r\.(Post)?Form\[', [1]), lens(r'\.aud\)$', [0, 1, 2]))
    return H, issuer


def mem(tok, n, kind='str'):
    key = f'jwt[{jose.tokid(tok)}].{n}'
    return z3.String(key) if kind == 'str' else z3.BitVec(key, 64)


def claims_ok(s, tok, issuer, kindname, nowsec, with_exp=True, minted=None):
    """the statement's conjunction for session / CLI / storage tokens over the verified JSON members"""
    def m_(n, kind='str'):
        if minted is not None:
            v = minted['claims'].get(n)
            if v is None: return SV('') if kind == 'str' else z3.BitVecVal(0, 64)
            return v
        return mem(tok, n, kind)
    aud0 = None
    if minted is not None:
        a = minted['claims'].get('aud')
        aud0 = a if z3.is_expr(a) else None
    else:
        n_aud = s.memo.get(f'len(jwt[{jose.tokid(tok)}].aud)')
        aud0 = z3.String(f'jwt[{jose.tokid(tok)}].aud[0]') if n_aud else None
    conj = [('verified by a keymaster key', jose.Verifies(tok)), ('kind', m_('token_type') == SV(kindname)), ('issuer', m_('iss') == issuer),
            ('audience', aud0 == issuer if aud0 is not None else z3.BoolVal(False)), ('not before', m_('nbf', 'int') <= nowsec if nowsec is not None else z3.BoolVal(False))]
    if with_exp:
        now = s.aux.get('now')
        # exp >= now, at second granularity (exp >= floor(now)) or - sufficient - at nanosecond granularity (exp*1e9 >= now)
        conj.append(('unexpired', [m_('exp', 'int') >= nowsec, lib.T(m_('exp', 'int')) * lib.T(10**9) >= now] if nowsec is not None else z3.BoolVal(False)))
    return conj


def nowsec_of(s):
    now = s.aux.get('now')
    return z3.Extract(63, 0, lib.floordiv(now, 10**9)) if now is not None else None


def decide(chk, ex, s, conj, obligation, site, what, out):
    for cname, c in conj:
        alts = c if isinstance(c, list) else [c]
        r_, m = 'unknown', None
        for alt in alts:          # alternatives are each sufficient for the stated conjunct: proved if any one is valid on the path
            r1, m1 = ex.model_fresh(s.pc, z3.Not(alt), 20000)
            if r1 == 'unsat': r_, m = 'unsat', None; break
            if r1 == 'sat' and r_ != 'sat': r_, m = 'sat', m1
        if r_ == 'unknown':
            out['unknown'] = True
            if __import__('os').environ.get('DBG'): print('UNKNOWN', site, cname, flush=True)
        if r_ == 'sat':
            r2 = chk.violation(obligation, f'{site}/{cname}', f'{what} although: not ({cname})', model_dict(m))
            if r2 == 'new': out['verdict'] = 'violated'
            elif out['verdict'] == 'holds': out['verdict'] = 'known'


def ob_algs(chk, ir):
    t = time.time(); name = f'{M}.publicToPreferedJoseSigAlgo'
    if name not in ir.funcs: chk.obligation('algorithms', '-', 'inconclusive', 'ANCHOR-LOST ' + name); return
    verdict = 'holds'; total = 0; n = 0
    keys = []
    def tid(s): return ir.typeid(s) if ir.has_type(s) else None
    for label, mk in (('ed25519', lambda st: IfaceV(tid('crypto/ed25519.PublicKey'), NILSLICE())), ('rsa', lambda st: IfaceV(tid('*crypto/rsa.PublicKey'), Ptr(st.alloc(Opaque('rsa'))))),
                      ('ecdsa', None), ('other', lambda st: IfaceV(tid('string'), SV('x'))), ('nil', lambda st: IfaceV(None, None))):
        H = HandlerRun(ir, loop_bound=4, budget_s=60); ex = H.ex
        st = State()
        if label == 'ecdsa':
            T = ir.typeid('crypto/ecdsa.PublicKey'); cv = z3.String('curve.id')
            v = [IfaceV('dyn:curve', Opaque('curve', id=cv)) if f['name'] == 'Curve' else Ptr(st.alloc(Opaque('big'))) for f in ir.fields(T)]
            key = IfaceV(tid('*crypto/ecdsa.PublicKey'), Ptr(st.alloc(StructV(v))))
            for cn in ('P256', 'P384', 'P521', 'P224'):
                H.stub(f'crypto/elliptic.{cn}', lambda ex_, s, a, ins, cn=cn: IfaceV('dyn:curve', Opaque('curve', id=SV(cn))))
            orig = ex.binop
            def binop(s_, ins, x, y):
                if isinstance(x, IfaceV) and isinstance(y, IfaceV) and str(x.tid) == 'dyn:curve' and str(y.tid) == 'dyn:curve':
                    eq = x.val.id == y.val.id
                    return eq if ins['tok'] == '==' else z3.Not(eq)
                return orig(s_, ins, x, y)
            ex.binop = binop
        else:
            if mk is None or (label not in ('nil',) and mk(st).tid is None): continue
            key = mk(st)
        paths = ex.run(name, [key], st); total += len(paths)
        for p in paths:
            if p.status != 'returned': chk.absorb(ex, paths); chk.obligation('algorithms', label, 'inconclusive', p.result); return
            alg, err = p.result
            if isinstance(err, IfaceV) and err.tid is None:
                n += 1
                a = z3.simplify(alg)
                if not (z3.is_string_value(a) and a.as_string() in OK_ALGS):
                    if chk.violation('algorithms', f'publicToPreferedJoseSigAlgo/{label}', f'signature algorithm {term(alg)} offered for a {label} key', None) == 'new': verdict = 'violated'
        chk.absorb(ex, paths)
    if n == 0: chk.obligation('algorithms', '-', 'inconclusive', 'vacuous'); return
    chk.obligation('algorithms: only EdDSA / ES256 / ES384 / ES512 / RS256 are ever selected (never none / HS*)', 'key types ed25519, rsa, ecdsa (any curve), other, nil', verdict, paths=total, t=time.time() - t)


def upgrade_args(ir, state, tok, level):
    """arguments of updateAuthJWTWithNewAuthLevel by parameter type (the token first, further strings = the identity the caller vouches for)"""
    fn = ir.funcs[f'(*{M}.RuntimeState).updateAuthJWTWithNewAuthLevel']; args = [state]; nstr = 0
    for p in fn['params'][1:]:
        if ir.tstr(p['type']) == 'string':
            args.append(tok if nstr == 0 else z3.String('upgrade.' + p['name'])); nstr += 1
        else: args.append(level)
    return args


def sql_model(H, ir):
    """minimal database/sql model for the single-row lookups of GetSigned: a row value is an arbitrary string (the row may have been tampered)"""
    def prepare(ex, st, a, ins):
        return fork_results(ex, st, ins, [(None, lambda s: (NIL, mk_error(s, SV('prepare'), 'sql'))), (None, lambda s: (Ptr(s.alloc(Opaque('stmt', db=repr(a[0])))), nilerr()))])
    H.stub('(*database/sql.DB).Prepare', prepare)
    H.stub('(*database/sql.Stmt).Close', lambda ex, st, a, ins: nilerr())
    H.stub('(*database/sql.Stmt).QueryRow', lambda ex, st, a, ins: Ptr(st.alloc(Opaque('row', args=ex.slice_values(st, a[1]) if isinstance(a[1], SliceV) else []))))
    def scan(ex, st, a, ins):
        dests = ex.slice_values(st, a[1]) if isinstance(a[1], SliceV) else []
        n = len(st.evs('sql.scan')); st.ev('sql.scan')
        def ok(s):
            for d in dests:
                p = d.val if isinstance(d, IfaceV) else d
                ex.store(s, p, z3.String(f'row{n}.jws_data'))
            return nilerr()
        return fork_results(ex, st, ins, [(None, lambda s: mk_error(s, SV('sql: no rows in result set'), 'norows')), (None, lambda s: mk_error(s, SV('driver: bad connection'), 'sqlerr')), (None, ok)])
    H.stub('(*database/sql.Row).Scan', scan)


def ob_consumers(chk, ir):
    t = time.time(); out = {'verdict': 'holds', 'unknown': False}; total = 0; nacc = 0
    # (a) the session / CLI decoder with an arbitrary kind argument
    name = f'(*{M}.RuntimeState).getAuthInfoFromJWT'
    if name not in ir.funcs: chk.obligation('consumers', '-', 'inconclusive', 'ANCHOR-LOST ' + name); return
    for kindname in ('keymaster_auth', 'keymaster_webauth_for_cli_identity'):
        H, issuer = base(ir); ex = H.ex
        st, state, w, r = H.mkstate(); tok = z3.String('token')
        paths = ex.run(name, [state, tok, SV(kindname)], st); total += len(paths)
        for p in paths:
            if p.status == 'panic':
                r_, m = ex.model(p.pc)
                if chk.violation('consumers', f'getAuthInfoFromJWT/panic', 'panics on a token: ' + p.result, model_dict(m)) == 'new': out['verdict'] = 'violated'
                continue
            if p.status != 'returned': chk.absorb(ex, paths); chk.obligation('consumers', name, 'inconclusive', p.result); return
            ai, err = p.result
            if not (isinstance(err, IfaceV) and err.tid is None): continue
            nacc += 1
            conj = claims_ok(p, tok, issuer, kindname, nowsec_of(p), with_exp=False)
            AI = ir.typeid(M + '.authInfo')
            conj += [('identity = token subject', ex.getfield(p, ai, AI, 'Username') == mem(tok, 'sub')), ('level = token level', ex.getfield(p, ai, AI, 'AuthType') == mem(tok, 'auth_type', 'int')),
                     ('expiry handed to the caller = token expiry', ex.getfield(p, ai, AI, 'ExpiresAt').ns == lib.T(mem(tok, 'exp', 'int')) * lib.T(10**9))]
            decide(chk, ex, p, conj, 'consumers', f'getAuthInfoFromJWT({kindname})', 'a token is decoded as valid', out)
        chk.absorb(ex, paths)
    # (b) endpoints that honour a CLI token: expiry is theirs to test
    for hname, label in ((f'(*{M}.RuntimeState).VerifyAuthTokenHandler', 'verify'), (f'(*{M}.RuntimeState).SendAuthDocumentHandler', 'send')):
        if hname not in ir.funcs: continue
        H, issuer = base(ir); ex = H.ex
        H.stub(gate.CHECKAUTH, gate.st_checkauth_any(ir)); H.stub(f'(*{M}.RuntimeState).sendFailureToClientIfLocked', lambda ex_, s, a, ins: z3.BoolVal(False))
        H.stub(f'(*{M}.RuntimeState).getRequiredWebUIAuthLevel', lambda ex_, s, a, ins: z3.BitVec('webui.required', 64))
        H.stub('strconv.ParseUint', lambda ex_, s, a, ins: fork_results(ex_, s, ins, [(None, lambda s2: (z3.BitVecVal(0, 64), mk_error(s2, SV('parse'), 'parse'))), (None, (z3.ZeroExt(48, z3.BitVec('port', 16)), nilerr()))]))
        st, state, w, r = H.mkstate()
        honoured = {'n': 0}
        def honour(ex_, s, what):
            honoured['n'] += 1
            decs = [d for d in s.evs('decode') if 'authInfoJWT' in d['into']]
            if not decs:
                if chk.violation('consumers', f'{label}/no-token', 'CLI endpoint answers OK without decoding a token', None) == 'new': out['verdict'] = 'violated'
                return
            tok = decs[-1]['token']
            conj = claims_ok(s, tok, issuer, 'keymaster_webauth_for_cli_identity', nowsec_of(s))
            if label == 'send':
                adm = s.evs('admitted'); conj.append(('token user = session user', mem(tok, 'sub') == adm[-1]['user'] if adm else z3.BoolVal(False)))
            decide(chk, ex_, s, conj, 'consumers', f'{label}AuthToken', 'the CLI token is honoured', out)
        def w_write(ex_, s, a, ins):
            d = a[1]
            if isinstance(d, BytesV) and z3.is_true(z3.simplify(d.s == SV('OK\n'))): honour(ex_, s, 'OK')
            return lib.w_write(ex_, s, a, ins)
        H.stub_pat(r'ResponseWriter\.Write$|LoggingWriter\)\.Write$', w_write)
        ex.on_mint = lambda ex_, s, e: honour(ex_, s, 'mint')
        paths = ex.run(hname, [state, w, r], st); total += len(paths); nacc += honoured['n']
        bad = [p for p in paths if p.status in ('unsupported', 'unwind')]
        if bad: chk.absorb(ex, paths); chk.obligation('consumers', hname, 'inconclusive', bad[0].result); return
        # rejection has no side effect
        for p in paths:
            if p.status == 'returned' and p.evs('fail') and (p.evs('mint') or p.evs('setcookie') or p.evs('save')):
                if chk.violation('rejection-without-side-effect', label, 'a rejected request mints / sets a cookie / saves', None) == 'new': out['verdict'] = 'violated'
        chk.absorb(ex, paths)
    # (c) level upgrade consumer
    uname = f'(*{M}.RuntimeState).updateAuthJWTWithNewAuthLevel'
    if uname in ir.funcs:
        H, issuer = base(ir); ex = H.ex
        st, state, w, r = H.mkstate(); tok = z3.String('token')
        def on_mint(ex_, s, e):
            nonlocal nacc
            nacc += 1
            conj = claims_ok(s, tok, issuer, 'keymaster_auth', nowsec_of(s), with_exp=False)
            c = e['claims']
            conj += [('re-issued for the same subject', c['sub'] == mem(tok, 'sub')), ('same expiry', c['exp'] == mem(tok, 'exp', 'int')), ('same kind', c['token_type'] == SV('keymaster_auth')),
                     ('new level is the requested one', c['auth_type'] == z3.BitVec('newLevel', 64))]
            decide(chk, ex_, s, conj, 'consumers', 'updateAuthJWTWithNewAuthLevel', 'a session token is re-issued at a new level', out)
        ex.on_mint = on_mint
        paths = ex.run(uname, upgrade_args(ir, state, tok, z3.BitVec('newLevel', 64)), st); total += len(paths)
        bad = [p for p in paths if p.status in ('unsupported', 'unwind')]
        if bad: chk.absorb(ex, paths); chk.obligation('consumers', uname, 'inconclusive', bad[0].result); return
        chk.absorb(ex, paths)
    # (d) signed storage record: GetSigned body
    gname = f'(*{M}.RuntimeState).GetSigned'
    if gname in ir.funcs:
        H, issuer = base(ir, budget=150); ex = H.ex
        sql_model(H, ir)
        ex.go_inline = re.compile(r'GetSigned\$')
        st, state, w, r = H.mkstate(); user = z3.String('requested.user'); dtype = z3.BitVec('requested.type', 64)
        paths = ex.run(gname, [state, user, dtype], st); total += len(paths)
        for p in paths:
            if p.status == 'blocked': continue      # neither the database nor the timer fired: not a returning path
            if p.status == 'panic':
                r_, m = ex.model(p.pc)
                if chk.violation('consumers', 'GetSigned/panic', 'panics: ' + p.result, model_dict(m)) == 'new': out['verdict'] = 'violated'
                continue
            if p.status != 'returned': chk.absorb(ex, paths); chk.obligation('consumers', gname, 'inconclusive', p.result); return
            okv, data, err = p.result
            if not (isinstance(err, IfaceV) and err.tid is None): continue
            if not ex.feasible(p.pc, okv): continue
            decs = [d for d in p.evs('decode') if 'storageStringDataJWT' in d['into']]
            nacc += 1
            if not decs:
                if chk.violation('consumers', 'GetSigned/no-token', 'a stored record is returned without verifying its signature', None) == 'new': out['verdict'] = 'violated'
                continue
            tok = decs[-1]['token']
            conj = claims_ok(p, tok, issuer, 'storage_data', nowsec_of(p))
            conj += [('record is for the requested user', mem(tok, 'sub') == user), ('data returned = signed data', data == mem(tok, 'data'))]
            s2 = p.fork(); s2.pc.append(okv)
            decide(chk, ex, s2, conj, 'consumers', 'GetSigned', 'a signed storage record is honoured', out)
        chk.absorb(ex, paths)
    if out['unknown']: chk.obligation('consumers', '-', 'inconclusive', 'solver unknown'); return
    if nacc == 0: chk.obligation('consumers', '-', 'inconclusive', 'vacuous'); return
    chk.witnesses += nacc
    chk.obligation('consumers: honoured => verified, own kind, nbf <= now, exp >= now, iss = aud[0] = issuer (+ subject binding)', 'session/CLI decoder, CLI endpoints, level upgrade, signed storage record (SQL row arbitrary, timeout race)', out['verdict'], paths=total, witness=f'{nacc} honouring paths', t=time.time() - t)
    chk.sample({'obligation': 'consumers', 'honouring_paths': nacc, 'paths': total})


PRODUCERS = [
    ('session', f'(*{M}.RuntimeState).genNewSerializedAuthJWT', lambda st, state: [state, z3.String('p.user'), z3.BitVec('p.level', 64), z3.BitVec('p.duration', 64)]),
    ('cli', f'(*{M}.RuntimeState).generateAuthJWT', lambda st, state: [state, z3.String('p.user')]),
    ('storage', f'(*{M}.RuntimeState).genNewSerializedStorageStringDataJWT', lambda st, state: [state, z3.String('p.user'), z3.BitVec('p.dtype', 64), z3.String('p.data'), z3.BitVec('p.exp', 64)]),
]
CONSUMERS = [
    ('session', lambda ir, ex, s, state, tok: (f'(*{M}.RuntimeState).getAuthInfoFromJWT', [state, tok, SV('keymaster_auth')]), lambda p: isinstance(p.result[-1], IfaceV) and p.result[-1].tid is None),
    ('cli', lambda ir, ex, s, state, tok: (f'(*{M}.RuntimeState).getAuthInfoFromJWT', [state, tok, SV('keymaster_webauth_for_cli_identity')]), lambda p: isinstance(p.result[-1], IfaceV) and p.result[-1].tid is None),
    ('storage', lambda ir, ex, s, state, tok: (f'(*{M}.RuntimeState).getStorageDataFromStorageStringDataJWT', [state, tok]), lambda p: isinstance(p.result[-1], IfaceV) and p.result[-1].tid is None),
    ('session-upgrade', lambda ir, ex, s, state, tok: (f'(*{M}.RuntimeState).updateAuthJWTWithNewAuthLevel', upgrade_args(ir, state, tok, z3.BitVec('c.level', 64))), lambda p: isinstance(p.result[-1], IfaceV) and p.result[-1].tid is None),
]
OWN = {'session': {'session', 'session-upgrade'}, 'cli': {'cli'}, 'storage': {'storage'}}


def ob_matrix(chk, ir):
    t = time.time(); verdict = 'holds'; total = 0; cells = 0; accepted = []
    for pk, pname, pargs in PRODUCERS:
        if pname not in ir.funcs: chk.obligation('matrix', pk, 'inconclusive', 'ANCHOR-LOST ' + pname); return
        H, issuer = base(ir); ex = H.ex
        st, state, w, r = H.mkstate()
        ps = ex.run(pname, pargs(st, state), st); total += len(ps)
        minted = [p for p in ps if p.status == 'returned' and p.evs('mint')]
        if not minted: chk.obligation('matrix', pk, 'inconclusive', 'producer mints nothing'); return
        p0 = minted[0]; tok = p0.evs('mint')[-1]['token']
        for ck, cmk, accepts in CONSUMERS:
            s2 = p0.fork(); s2.status = 'run'; s2.frames = []; s2.aux.pop('now', None)
            cname, cargs = cmk(ir, ex, s2, state, tok)
            if cname not in ir.funcs: continue
            cs = ex.run(cname, cargs, s2); total += len(cs); cells += 1
            acc = [p for p in cs if p.status == 'returned' and accepts(p)]
            if any(p.status in ('unsupported', 'unwind') for p in cs):
                chk.absorb(ex, cs); chk.obligation('matrix', f'{pk}->{ck}', 'inconclusive', [p.result for p in cs if p.status in ('unsupported', 'unwind')][0]); return
            if acc and ck not in OWN[pk]:
                r_, m = ex.model(acc[0].pc)
                if chk.violation('kind-matrix', f'{pk} token -> {ck} consumer', f'a {pk} token is honoured by the {ck} consumer', model_dict(m)) == 'new': verdict = 'violated'
            if acc: accepted.append(f'{pk}->{ck}')
            if not acc and ck in OWN[pk]:
                chk.notes.append(f'note: {ck} consumer never accepts a freshly minted {pk} token in the model')
        chk.absorb(ex, ps)
    chk.obligation('kind-matrix: a token minted as one kind is honoured only by that kind\'s consumer', f'{len(PRODUCERS)} producers x {len(CONSUMERS)} consumers (codes / access tokens: C12)', verdict, paths=total, witness='accepted pairs: ' + ', '.join(accepted), t=time.time() - t)
    chk.sample({'obligation': 'kind-matrix', 'cells': cells, 'accepted': accepted})


def main(chk):
    ir = chk.load_ir()
    chk.assumptions = ['Contract J: Claims() returns nil only for a token whose signature verifies under a keymaster key with an algorithm of the list; JSON members decode by tag name (missing => zero)',
                       'bit-level tampering, re-signing, alg substitution are decided inside go-jose: outside the encoding', 'SQL rows of the signed-record table are arbitrary strings (tamperable cache)']
    chk.bounds = {'audience list': '0..2', 'producers x consumers': f'{len(PRODUCERS)}x{len(CONSUMERS)}'}
    ob_algs(chk, ir)
    ob_consumers(chk, ir)
    ob_matrix(chk, ir)
    # the two remaining consumers (authorization code at the token endpoint, access token at userinfo) are decided by C12's obligations
    from checks.c12 import ob_token, ob_userinfo
    ob_token(chk, ir); ob_userinfo(chk, ir)


if __name__ == '__main__':
    run_check('C04', main)
