import sys, time; sys.path.insert(0, '/verif')
import z3
from symx import build
from symx.engine import *
from symx.harness import *
from symx import lib
t=time.time(); ir = build.load(); print('load', round(time.time()-t,1), len(ir.funcs))
H = HandlerRun(ir)
bits = z3.BitVec('bits', 64); user = z3.String('authUser')
AI = ir.typeid(M + '.authInfo')
def checkAuth(ex, st, a, ins):
    st.ev('checkAuth', required=a[3])
    def ok(s):
        ai = StructV(Lazy(f['type'], 'auth.'+f['name']) for f in ir.fields(AI))
        return (Ptr(s.alloc(ai)), lib.nilerr())
    return lib.fork_results(ex, st, ins, [(None, lambda s: (NIL, lib.mk_error(s, z3.StringVal('x'), 'auth'))), (None, ok)])
H.stub(f'(*{M}.RuntimeState).checkAuth', checkAuth)
H.stub(f'(*{M}.RuntimeState).writeFailureResponse', lambda ex, st, a, ins: st.ev('fail', code=a[3], msg=a[4]) and None)
H.stub(f'(*{M}.RuntimeState).postAuthSSHCertHandler', lambda ex, st, a, ins: st.ev('sign', kind='ssh', user=a[3], dur=a[4]) and None)
H.stub(f'(*{M}.RuntimeState).postAuthX509CertHandler', lambda ex, st, a, ins: st.ev('sign', kind='x509', user=a[3], dur=a[5]) and None)
H.stub('time.ParseDuration', lambda ex, st, a, ins: lib.fork_results(ex, st, ins, [(None, lambda s: (z3.BitVecVal(0,64), lib.mk_error(s, z3.StringVal('x'), 'dur'))), (None, (z3.BitVec('dur',64), lib.nilerr()))]))
for n in (0,1,2):
    H.ex.hints = [str_list(r'AllowedAuthBackendsForCerts$', n, 'cfg'), lens(r'^len\(\*r\.Form\[', [1])] + H.ex.hints[-4:]
    t=time.time()
    paths = H.run(f'(*{M}.RuntimeState).certGenHandler')
    stat={}
    for p in paths: stat[p.status]=stat.get(p.status,0)+1
    print(n, len(paths), stat, 'q', H.ex.nq, 'solver', round(H.ex.tsolve,2), 'wall', round(time.time()-t,2), H.ex.stats)
    for p in paths:
        if p.status in ('unsupported','panic','unwind'): print('   ', p.status, p.result)
print('havocked', H.ex.havocked)
