"""C19 — the client never sends private keys and installs credentials safely.

The client's own SSA (cmd/keymaster, lib/client/...; exported with CGO_ENABLED=0 and a pure-Go stand-in for the USB HID transport) is
executed symbolically.  Key generation returns abstract key pairs: the private half is a term PRIV.<k>, the public half an independent
term PUB.<k>; serialisers are uninterpreted functions of what they are given.

 1. wire non-interference: setupCerts (key generation, every certificate request, installation) is executed with the authentication
    step summarised; every string that reaches the HTTP layer (URL, header, multipart part, form value) is a term t; z3 decides for each
    t that it does not depend on a private half:  t[PRIV := p1] != t[PRIV := p2]  is unsat.  A private half handed to a callee that is
    not modelled is reported.
 2. private halves at rest: every file write whose data depends on a private half has mode & 0077 = 0 (decided on the mode term), and the
    only other consumer of a private half is the SSH agent's Add.
 3. agent: withAddedKeyUpsertCertIntoAgentConnection from SSA over an abstract agent holding 0..2 keys with symbolic comments: afterwards
    exactly one certificate carries the label, it is the new one, and keys with other labels are untouched.
 4. offered keys are certifiable: for every key preference the SSH public-key line the client sends (type name by the x/crypto/ssh
    naming contract, base64 body) is in the language of the server's accepted pattern (regex constant taken from the SERVER's SSA) and
    the server's strength predicate (from SSA) accepts the generated key class.
"""
import time, z3, re, itertools
from symx.check import run_check, term, model_dict
from symx.engine import *
from symx.harness import *
from symx import lib, build, rx, replay
from symx.lib import KM, nilerr, mk_error, fork_results

SV = z3.StringVal
S = z3.StringSort()
CM = KM + '/cmd/keymaster'
TWOFA = KM + '/lib/client/twofa'
AGENT = KM + '/lib/client/sshagent'
UF = {}


def uf(name):
    if name not in UF: UF[name] = z3.Function(name, S, S)
    return UF[name]


def free_consts(e, acc=None, seen=None):
    acc = set() if acc is None else acc; seen = set() if seen is None else seen
    if e.get_id() in seen: return acc
    seen.add(e.get_id())
    if z3.is_const(e) and e.decl().kind() == z3.Z3_OP_UNINTERPRETED: acc.add(e)
    for c in e.children(): free_consts(c, acc, seen)
    return acc


def terms_in(ex, st, v, depth=0, seen=None):
    """all z3 terms reachable inside a value"""
    seen = set() if seen is None else seen; out = []
    if depth > 6 or v is None: return out
    if z3.is_expr(v): return [v]
    if isinstance(v, BytesV): return [v.s]
    if isinstance(v, IntV): return [v.e]
    if isinstance(v, TimeV): return [v.ns]
    if isinstance(v, IfaceV): return terms_in(ex, st, v.val, depth + 1, seen)
    if isinstance(v, Opaque):
        for k, x in v.__dict__.items():
            if k in ('id', 'what'): continue
            out += terms_in(ex, st, x, depth + 1, seen)
        return out
    if isinstance(v, Ptr):
        if (v.obj, v.path) in seen: return out
        seen.add((v.obj, v.path))
        try: return terms_in(ex, st, ex.load(st, v), depth + 1, seen)
        except Exception: return out
    if isinstance(v, (StructV, ArrayV, list, tuple)):
        for x in v: out += terms_in(ex, st, x, depth + 1, seen)
        return out
    if isinstance(v, SliceV) and v.len is not None and v.obj is not None:
        try:
            for x in ex.slice_values(st, v): out += terms_in(ex, st, x, depth + 1, seen)
        except Exception: pass
    if isinstance(v, dict):
        for x in v.values(): out += terms_in(ex, st, x, depth + 1, seen)
    return out


def is_priv(c): return str(c).startswith('PRIV.')


def tainted(ex, st, v):
    return any(is_priv(c) for t in terms_in(ex, st, v) for c in free_consts(t))


def cat(*ts):
    ts = [t for t in ts if t is not None]
    return z3.Concat(*ts) if len(ts) > 1 else ts[0]


def sterm(ex, st, v):
    """one string term standing for a value (for uninterpreted serialisers)"""
    ts = [t for t in terms_in(ex, st, v) if z3.is_string(t)]
    if not ts: return SV(repr(v)[:40])
    return cat(*ts) if len(ts) > 1 else ts[0]


def client_exec(ir, loop_bound=6, budget_s=200, max_paths=20000):
    ex = Exec(ir, loop_bound=loop_bound, max_paths=max_paths); ex.deadline = time.process_time() + budget_s
    lib.install(ex, *lib.ALL)
    first = re.compile('^\\(?\\*?' + re.escape(KM) + '/')
    ex.inline = lambda name: bool(first.search(name))
    ex.ptr_nilable = False
    ex.hints = [nonnil_iface(r'logger'), nonnil_ptr(r'Duration')]
    def stub(name, fn): ex.stubs[name] = lib.counted(ex, name, fn)
    def stub_pat(pat, fn): ex.stub_pats.insert(0, (re.compile(pat), lib.counted(ex, pat, fn)))
    ex.stub = stub; ex.stub_pat = stub_pat
    return ex


def key_model(ex):
    """key generation and the serialisers"""
    def keypair(kind, curve=None, bits=None):
        def gen(ex_, st, a, ins):
            n = len(st.evs('keygen')); name = f'{kind}{n}'
            st.ev('keygen', kind=kind, curve=curve(ex_, st, a) if curve else None, bits=bits(a) if bits else None, name=name)
            priv = z3.String(f'PRIV.{name}'); pub = z3.String(f'PUB.{name}')
            def ok(s):
                if kind == 'ed25519': return (IfaceV('dyn:edpub', BytesV(pub)) if False else BytesV(pub), BytesV(priv), nilerr())
                return (Ptr(s.alloc(Opaque('privkey', term=priv, pub=pub, kind=kind))), nilerr())
            def bad(s):
                if kind == 'ed25519': return (NILSLICE(), NILSLICE(), mk_error(s, SV('rand'), 'keygen'))
                return (NIL, mk_error(s, SV('rand'), 'keygen'))
            return fork_results(ex_, st, ins, [(None, bad), (None, ok)])
        return gen
    def curve_of(ex_, st, a):
        c = a[0].val if isinstance(a[0], IfaceV) else a[0]
        return getattr(c, 'curve', None)
    ex.stub('crypto/elliptic.P256', lambda ex_, st, a, ins: IfaceV('dyn:curve', Opaque('curve', curve='P-256')))
    ex.stub('crypto/elliptic.P384', lambda ex_, st, a, ins: IfaceV('dyn:curve', Opaque('curve', curve='P-384')))
    ex.stub('crypto/elliptic.P521', lambda ex_, st, a, ins: IfaceV('dyn:curve', Opaque('curve', curve='P-521')))
    ex.stub('crypto/elliptic.P224', lambda ex_, st, a, ins: IfaceV('dyn:curve', Opaque('curve', curve='P-224')))
    ex.stub('crypto/rsa.GenerateKey', keypair('rsa', bits=lambda a: a[1]))
    ex.stub('crypto/ecdsa.GenerateKey', keypair('ecdsa', curve=curve_of))
    ex.stub('crypto/ed25519.GenerateKey', keypair('ed25519'))
    def public(ex_, st, a, ins):
        k = a[0]
        if isinstance(k, BytesV):     # ed25519.PrivateKey is a byte slice
            nm = str(k.s)
            return IfaceV('dyn:pubkey', Opaque('pubkey', term=z3.String('PUB.' + nm[5:]) if nm.startswith('PRIV.') else uf('public')(k.s)))
        o = st.heap.get(k.obj) if isinstance(k, Ptr) else k
        if isinstance(o, Opaque) and o.what == 'privkey': return IfaceV('dyn:pubkey', Opaque('pubkey', term=o.pub))
        return IfaceV('dyn:pubkey', Opaque('pubkey', term=uf('public')(sterm(ex_, st, k))))
    ex.stub_pat(r'^\(\*crypto/(rsa|ecdsa)\.PrivateKey\)\.Public$|^\(crypto/ed25519\.PrivateKey\)\.Public$|crypto\.Signer\.Public$', public)
    def ser(name, nres=2, idx=0):
        def f(ex_, st, a, ins):
            t = uf(name)(sterm(ex_, st, a[idx]))
            st.ev('serialise', fn=name, tainted=tainted(ex_, st, a[idx]))
            if nres == 1: return BytesV(t)
            return fork_results(ex_, st, ins, [(None, lambda s: (NILSLICE(), mk_error(s, SV(name), name))), (None, (BytesV(t), nilerr()))])
        return f
    for n in ('MarshalPKIXPublicKey', 'MarshalPKCS8PrivateKey', 'MarshalPKCS1PrivateKey', 'MarshalECPrivateKey', 'MarshalPKCS1PublicKey'):
        ex.stub('crypto/x509.' + n, ser('x509.' + n, 1 if n.startswith('MarshalPKCS1') else 2))
    def pem_mem(ex_, st, a, ins):
        blk = ex_.load(st, a[0]) if isinstance(a[0], Ptr) else a[0]
        return BytesV(uf('pem')(sterm(ex_, st, blk)))
    ex.stub('encoding/pem.EncodeToMemory', pem_mem)
    def ssh_newpub(ex_, st, a, ins):
        t = sterm(ex_, st, a[0])
        return fork_results(ex_, st, ins, [(None, lambda s: (IfaceV(None, None), mk_error(s, SV('ssh'), 'ssh'))), (None, (IfaceV('dyn:sshpub', Opaque('sshpub', term=uf('ssh.pub')(t))), nilerr()))])
    ex.stub('golang.org/x/crypto/ssh.NewPublicKey', ssh_newpub)
    ex.stub('golang.org/x/crypto/ssh.MarshalAuthorizedKey', lambda ex_, st, a, ins: BytesV(uf('ssh.authorized')(sterm(ex_, st, a[0]))))
    def ssh_marshal_priv(ex_, st, a, ins):
        t = uf('ssh.MarshalPrivateKey')(sterm(ex_, st, a[0]))
        PB = ex_.ir.typeid('encoding/pem.Block')
        def ok(s):
            v = [BytesV(t) if f['name'] == 'Bytes' else (SV('OPENSSH PRIVATE KEY') if f['name'] == 'Type' else ex_.zero(f['type'])) for f in ex_.ir.fields(PB)]
            return (Ptr(s.alloc(StructV(v))), nilerr())
        return fork_results(ex_, st, ins, [(None, lambda s: (NIL, mk_error(s, SV('ssh'), 'ssh'))), (None, ok)])
    ex.stub('golang.org/x/crypto/ssh.MarshalPrivateKey', ssh_marshal_priv)
    def parse_auth(ex_, st, a, ins):
        CT = ex_.ir.typeid('*golang.org/x/crypto/ssh.Certificate')
        def ok(s):
            return (IfaceV(CT, Ptr(s.alloc(Opaque('sshcert', term=uf('ssh.parse')(sterm(ex_, s, a[0])))))), SV(''), NILSLICE(), NILSLICE(), nilerr())
        def notcert(s):
            return (IfaceV('dyn:sshpub', Opaque('sshpub', term=uf('ssh.parse')(sterm(ex_, s, a[0])))), SV(''), NILSLICE(), NILSLICE(), nilerr())
        return fork_results(ex_, st, ins, [(None, lambda s: (IfaceV(None, None), SV(''), NILSLICE(), NILSLICE(), mk_error(s, SV('ssh'), 'ssh'))), (None, notcert), (None, ok)])
    ex.stub('golang.org/x/crypto/ssh.ParseAuthorizedKey', parse_auth)


def net_model(ex):
    """the HTTP layer: everything that goes on the wire leaves a 'wire' event"""
    def wire(st, what, v): st.ev('wire', what=what, value=v)
    def new_writer(ex_, st, a, ins): return Ptr(st.alloc(Opaque('mpwriter', buf=a[0])))
    ex.stub('mime/multipart.NewWriter', new_writer)
    def create_form_file(ex_, st, a, ins):
        wire(st, 'multipart field name', a[1]); wire(st, 'multipart file name', a[2])
        return fork_results(ex_, st, ins, [(None, lambda s: (IfaceV(None, None), mk_error(s, SV('mp'), 'mp'))), (None, (IfaceV('dyn:partwriter', Opaque('partwriter')), nilerr()))])
    ex.stub('(*mime/multipart.Writer).CreateFormFile', create_form_file)
    def write_field(ex_, st, a, ins):
        wire(st, 'multipart field', a[1]); wire(st, 'multipart field', a[2])
        return fork_results(ex_, st, ins, [(None, lambda s: mk_error(s, SV('mp'), 'mp')), (None, nilerr())])
    ex.stub('(*mime/multipart.Writer).WriteField', write_field)
    ex.stub('(*mime/multipart.Writer).FormDataContentType', lambda ex_, st, a, ins: SV('multipart/form-data; boundary=b'))
    ex.stub('(*mime/multipart.Writer).Close', lambda ex_, st, a, ins: nilerr())
    ex.stub('strings.NewReader', lambda ex_, st, a, ins: Ptr(st.alloc(Opaque('reader', data=a[0]))))
    ex.stub('bytes.NewReader', lambda ex_, st, a, ins: Ptr(st.alloc(Opaque('reader', data=a[0]))))
    ex.stub('bytes.NewBuffer', lambda ex_, st, a, ins: Ptr(st.alloc(Opaque('reader', data=a[0]))))
    ex.stub('bytes.NewBufferString', lambda ex_, st, a, ins: Ptr(st.alloc(Opaque('reader', data=a[0]))))
    def io_copy(ex_, st, a, ins):
        dst = a[0].val if isinstance(a[0], IfaceV) else a[0]; src = a[1].val if isinstance(a[1], IfaceV) else a[1]
        so = st.heap.get(src.obj) if isinstance(src, Ptr) else src
        data = getattr(so, 'data', None)
        if isinstance(dst, Opaque) and dst.what == 'partwriter': wire(st, 'multipart file content', data if data is not None else so)
        else: st.ev('copy', dst=dst, data=data)
        return fork_results(ex_, st, ins, [(None, lambda s: (z3.BitVecVal(0, 64), mk_error(s, SV('io'), 'io'))), (None, (z3.BitVec('n', 64), nilerr()))])
    ex.stub('io.Copy', io_copy)
    def new_request(ex_, st, a, ins):
        wire(st, 'method', a[0]); wire(st, 'url', a[1])
        body = a[2].val if isinstance(a[2], IfaceV) else a[2]
        bo = st.heap.get(body.obj) if isinstance(body, Ptr) else body
        if isinstance(bo, Opaque) and getattr(bo, 'data', None) is not None: wire(st, 'body', bo.data)
        elif isinstance(bo, dict) and 'buf' in bo: wire(st, 'body', bo['buf'])
        REQ = ex_.ir.typeid('net/http.Request')
        def ok(s): return (Ptr(s.alloc(Lazy(REQ, f'*req{len(s.evs("wire"))}'))), nilerr())
        return fork_results(ex_, st, ins, [(None, lambda s: (NIL, mk_error(s, SV('http'), 'http'))), (None, ok)])
    ex.stub('net/http.NewRequest', new_request); ex.stub('net/http.NewRequestWithContext', lambda ex_, st, a, ins: new_request(ex_, st, a[1:], ins))
    def hdr_set(ex_, st, a, ins): wire(st, 'header', a[1]); wire(st, 'header', a[2])
    ex.stub('(net/http.Header).Set', hdr_set); ex.stub('(net/http.Header).Add', hdr_set)
    ex.stub('(*net/http.Request).SetBasicAuth', lambda ex_, st, a, ins: (wire(st, 'basic-auth', a[1]), wire(st, 'basic-auth', a[2]), None)[2])
    ex.stub('(*net/http.Request).AddCookie', lambda ex_, st, a, ins: wire(st, 'cookie', a[1]))
    def do(ex_, st, a, ins):
        st.ev('http.do')
        RESP = ex_.ir.typeid('net/http.Response')
        def ok(s):
            n = len(s.evs('http.do')); v = []
            for f in ex_.ir.fields(RESP):
                if f['name'] == 'StatusCode': v.append(z3.BitVec(f'resp{n}.status', 64))
                elif f['name'] == 'Body': v.append(IfaceV('dyn:body', Opaque('respbody', n=n)))
                else: v.append(Lazy(f['type'], f'resp{n}.{f["name"]}'))
            return (Ptr(s.alloc(StructV(v))), nilerr())
        return fork_results(ex_, st, ins, [(None, lambda s: (NIL, mk_error(s, SV('net'), 'net'))), (None, ok)])
    ex.stub('(*net/http.Client).Do', do)
    def post_form(ex_, st, a, ins):
        wire(st, 'url', a[1]); wire(st, 'form', a[2]); return do(ex_, st, a, ins)
    ex.stub('(*net/http.Client).PostForm', post_form)
    ex.stub('(*net/http.Client).Get', lambda ex_, st, a, ins: (wire(st, 'url', a[1]), do(ex_, st, a, ins))[1])
    def read_all(ex_, st, a, ins):
        b = a[0].val if isinstance(a[0], IfaceV) else a[0]
        n = getattr(b, 'n', 0)
        return fork_results(ex_, st, ins, [(None, lambda s: (NILSLICE(), mk_error(s, SV('read'), 'read'))), (None, (BytesV(z3.String(f'resp{n}.body')), nilerr()))])
    ex.stub('io/ioutil.ReadAll', read_all); ex.stub('io.ReadAll', read_all)
    ex.stub_pat(r'\(dyn:body\)\.Close$|io\.ReadCloser\.Close$|io\.Closer\.Close$', lambda ex_, st, a, ins: nilerr())


def fs_model(ex):
    def write_file(ex_, st, a, ins):
        st.ev('file.write', path=a[0], data=a[1], perm=a[2])
        return fork_results(ex_, st, ins, [(None, lambda s: mk_error(s, SV('fs'), 'fs')), (None, nilerr())])
    ex.stub('io/ioutil.WriteFile', write_file); ex.stub('os.WriteFile', write_file)
    def mkdir(ex_, st, a, ins):
        st.ev('mkdir', path=a[0], perm=a[1])
        return fork_results(ex_, st, ins, [(None, lambda s: mk_error(s, SV('fs'), 'fs')), (None, nilerr())])
    ex.stub('os.MkdirAll', mkdir); ex.stub('os.Mkdir', mkdir)
    def open_file(ex_, st, a, ins):
        st.ev('file.open', path=a[0], flag=a[1], perm=a[2])
        return fork_results(ex_, st, ins, [(None, lambda s: (NIL, mk_error(s, SV('fs'), 'fs'))), (None, lambda s: (Ptr(s.alloc(Opaque('file', path=a[0], perm=a[2]))), nilerr()))])
    ex.stub('os.OpenFile', open_file)
    ex.stub('path/filepath.Join', lambda ex_, st, a, ins: uf('filepath.Join')(cat(*[x for x in ex_.slice_values(st, a[0])])) if isinstance(a[0], SliceV) and ex_.slice_values(st, a[0]) else SV(''))
    ex.stub('path/filepath.Split', lambda ex_, st, a, ins: (uf('filepath.dir')(a[0]), uf('filepath.base')(a[0])))


def agent_model(ex, keys=None):
    """golang.org/x/crypto/ssh/agent client over an abstract agent"""
    def dial(ex_, st, a, ins):
        return fork_results(ex_, st, ins, [(None, lambda s: (IfaceV(None, None), mk_error(s, SV('dial'), 'dial'))), (None, (IfaceV('dyn:conn', Opaque('agentconn')), nilerr()))])
    ex.stub('net.Dial', dial); ex.stub(KM.rsplit('/', 1)[0] + '/npipe.Dial', lambda ex_, st, a, ins: dial(ex_, st, a, ins))
    ex.stub_pat(r'\(dyn:conn\)\.Close$|net\.Conn\.Close$', lambda ex_, st, a, ins: nilerr())
    ex.stub('os.Getenv', lambda ex_, st, a, ins: z3.String('env'))
    ex.stub('golang.org/x/crypto/ssh/agent.NewClient', lambda ex_, st, a, ins: IfaceV('dyn:agent', Opaque('agent')))
    def add(ex_, st, a, ins):
        key = a[1]
        st.ev('agent.add', key=key)
        def ok(s):
            s.aux.setdefault('agent', []).append({'comment': ex_.getfield(s, key, ex_.ir.typeid('golang.org/x/crypto/ssh/agent.AddedKey'), 'Comment'), 'cert': True, 'new': True, 'present': z3.BoolVal(True)})
            return nilerr()
        return fork_results(ex_, st, ins, [(None, lambda s: mk_error(s, SV('agent'), 'agent')), (None, ok)])
    ex.stub_pat(r'\(dyn:agent\)\.Add$|agent\.(Extended)?Agent\.Add$', add)
    def lst(ex_, st, a, ins):
        KT = ex_.ir.typeid('*golang.org/x/crypto/ssh/agent.Key')
        def ok(s):
            ptrs = []; KS = ex_.ir.typeid('golang.org/x/crypto/ssh/agent.Key')
            for i, k in enumerate(s.aux.setdefault('agent', [])):
                if not z3.is_true(z3.simplify(k['present'])): continue
                v = [k['comment'] if f['name'] == 'Comment' else BytesV(SV(f'agentkey{i}')) if f['name'] == 'Blob' else SV('fmt') for f in ex_.ir.fields(KS)]
                ptrs.append(Ptr(s.alloc(StructV(v))))
            s.ev('agent.list', n=len(ptrs))
            return (ex_.mkslice(s, ptrs), nilerr())
        return fork_results(ex_, st, ins, [(None, lambda s: (NILSLICE(), mk_error(s, SV('agent'), 'agent'))), (None, ok)])
    ex.stub_pat(r'\(dyn:agent\)\.List$|agent\.(Extended)?Agent\.List$', lst)
    def key_marshal(ex_, st, a, ins):
        return ex_.getfield(st, ex_.load(st, a[0]), ex_.ir.typeid('golang.org/x/crypto/ssh/agent.Key'), 'Blob')
    ex.stub('(*golang.org/x/crypto/ssh/agent.Key).Marshal', key_marshal)
    def parse_pub(ex_, st, a, ins):
        t = z3.simplify(a[0].s) if isinstance(a[0], BytesV) else None
        idx = int(t.as_string()[8:]) if t is not None and z3.is_string_value(t) and t.as_string().startswith('agentkey') else None
        CT = ex_.ir.typeid('*golang.org/x/crypto/ssh.Certificate')
        if idx is None: return (IfaceV('dyn:sshpub', Opaque('sshpub')), nilerr())
        k = st.aux['agent'][idx]
        def ascert(s): return (IfaceV(CT, Ptr(s.alloc(Opaque('sshcert', idx=idx)))), nilerr())
        NONCERT = ex_.ir.typeid('*golang.org/x/crypto/ssh.Signature')      # stands for "some concrete key type that is not *ssh.Certificate"
        def askey(s): return (IfaceV(NONCERT, Ptr(s.alloc(Opaque('sshpub', idx=idx)))), nilerr())
        c = k['cert']
        if c is True: return ascert(st)
        if c is False: return askey(st)
        return fork_results(ex_, st, ins, [(z3.Not(c), lambda s: (IfaceV(None, None), mk_error(s, SV('parse'), 'parse'))), (c, ascert), (z3.Not(c), askey)])
    ex.stub('golang.org/x/crypto/ssh.ParsePublicKey', parse_pub)
    def remove(ex_, st, a, ins):
        k = a[1].val if isinstance(a[1], IfaceV) else a[1]
        o = st.heap.get(k.obj) if isinstance(k, Ptr) else k
        idx = getattr(o, 'idx', None)
        st.ev('agent.remove', idx=idx)
        def ok(s):
            if idx is not None: s.aux['agent'][idx] = dict(s.aux['agent'][idx], present=z3.BoolVal(False))
            return nilerr()
        return fork_results(ex_, st, ins, [(None, lambda s: mk_error(s, SV('agent'), 'agent')), (None, ok)])
    ex.stub_pat(r'\(dyn:agent\)\.Remove$|agent\.(Extended)?Agent\.Remove$', remove)
    # field reads on *agent.Key (Comment)
    return


INSERT = CM + '.insertSSHCertIntoAgentORWriteToFilesystem'


def judge_paths(chk, ex, paths, root, counters):
    """oracles over the events of a set of paths; returns 'holds' | 'violated'"""
    verdict = 'holds'
    for p in paths:
        for e in p.evs('wire'):
            for tm in terms_in(ex, p, e['value']):
                privs = [c for c in free_consts(tm) if is_priv(c)]
                counters['wire'] += 1
                if not privs: continue
                # decide: does the transmitted term depend on the private half?
                sub1 = [(c, z3.String(str(c) + '#1')) for c in privs]; sub2 = [(c, z3.String(str(c) + '#2')) for c in privs]
                q = z3.substitute(tm, *sub1) != z3.substitute(tm, *sub2)
                r_, m = ex.model_fresh(p.pc, q, 30000)
                if r_ != 'unsat':
                    if chk.violation('wire-non-interference', f"{root}/{e['what']}", f"a value sent to the server ({e['what']}) depends on private key material: {term(tm, 160)}", model_dict(m) if m is not None else None) == 'new': verdict = 'violated'
        for e in p.evs('escape'):
            callee = str(e['callee'])
            if re.search(r'Debugf?$|Printf?$|Println$|Debugln$', callee): continue
            if chk.violation('wire-non-interference', f'{root}/escape/{callee.split("/")[-1]}', f'private key material is handed to {callee}, which is outside the model', None) == 'new': verdict = 'violated'
        for e in p.evs('file.write'):
            if not tainted(ex, p, e['data']): continue
            counters['file'] += 1
            perm = lib.tobv(e['perm']) if not z3.is_bv(e['perm']) else e['perm']
            r_, m = ex.model_fresh(p.pc, (perm & z3.BitVecVal(0o077, perm.size())) != 0, 30000)
            if r_ != 'unsat':
                if chk.violation('private-at-rest', f"{root}/file/{term(e['path'], 60)}", f"a file holding private key material is written with a mode that lets group/others in: {term(e['perm'], 40)}", model_dict(m) if m is not None else None) == 'new': verdict = 'violated'
        counters['agent'] += len(p.evs('agent.add'))
    return verdict


def client_env(ir, budget_s=300, max_paths=60000):
    ex = client_exec(ir, budget_s=budget_s, max_paths=max_paths)
    key_model(ex); net_model(ex); fs_model(ex); agent_model(ex)
    ex.go_inline = re.compile(r'signers\)\.compute$')
    ex.stub_pat(r'log\.(Debug)?Logger\.(Fatal|Fatalf|Fatalln)$|\.Fatal$', lambda ex_, st, a, ins: (_ for _ in ()).throw(PathCut('logger.Fatal')))
    # un-modelled callees that are handed a private half are reported
    ohavoc = ex.havoc_call
    def havoc(st, fr, ins, name_, args, reg):
        if any(tainted(ex, st, x) for x in args): st.ev('escape', callee=name_, arg='(private key material)')
        return ohavoc(st, fr, ins, name_, args, reg)
    ex.havoc_call = havoc
    return ex


def ob_wire(chk, ir):
    t = time.time()
    name = CM + '.setupCerts'
    if name not in ir.funcs or INSERT not in ir.funcs: chk.obligation('wire', '-', 'inconclusive', 'ANCHOR-LOST ' + name); return
    # ---- (a) the whole run, with the installation step summarised (it is driven on its own below)
    ex = client_env(ir, budget_s=400, max_paths=100000)
    def auth(ex_, st, a, ins):      # the authentication step receives no key material (its arguments are examined like every other callee's)
        for x in a:
            if tainted(ex_, st, x): st.ev('escape', callee=ins['call'].get('callee'), arg=term(x, 80))
        st.ev('auth')
        return fork_results(ex_, st, ins, [(None, lambda s: (SV(''), mk_error(s, SV('auth'), 'auth'))), (None, (z3.String('base.url'), nilerr()))])
    ex.stub(TWOFA + '.AuthenticateToTargetUrls', auth)
    ex.stub(KM + '/lib/client/webauth.Authenticate', auth)
    ex.stub(KM + '/lib/client/util.GetUserCreds', lambda ex_, st, a, ins: fork_results(ex_, st, ins, [(None, lambda s: (NILSLICE(), mk_error(s, SV('tty'), 'tty'))), (None, (BytesV(z3.String('password')), nilerr()))]))
    ex.stub(CM + '.backgroundConnectToAnyKeymasterServer', lambda ex_, st, a, ins: fork_results(ex_, st, ins, [(None, lambda s: mk_error(s, SV('conn'), 'conn')), (None, nilerr())]))
    def insert_summary(ex_, st, a, ins):
        st.ev('install', signer_private=tainted(ex_, st, a[1]), cert=a[0])
        return fork_results(ex_, st, ins, [(None, lambda s: mk_error(s, SV('install'), 'install')), (None, nilerr())])
    ex.stub(INSERT, insert_summary)
    st = State()
    CFG = ir.typeid(KM + '/lib/client/config.AppConfigFile')
    cfg = ex.materialise(st, Lazy(CFG, 'config'))
    client = Ptr(st.alloc(Opaque('httpclient'))); logger = IfaceV('dyn:logger', Opaque('logger'))
    paths = ex.run(name, [z3.String('userName'), z3.String('homeDir'), cfg, client, logger], st)
    counters = {'wire': 0, 'file': 0, 'agent': 0}; completed = 0; prefs = set()
    for p in paths:
        if p.status in ('unsupported', 'unwind'): chk.absorb(ex, paths); chk.obligation('wire', '-', 'inconclusive', str(p.result)); return
        res = p.result[0] if isinstance(p.result, (list, tuple)) and p.result else p.result
        if p.status == 'returned' and isinstance(res, IfaceV) and res.tid is None:
            completed += 1
            prefs |= {e['kind'] + (':' + str(e['curve']) if e['curve'] else '') for e in p.evs('keygen')}
    verdict = judge_paths(chk, ex, paths, 'setupCerts', counters)
    chk.absorb(ex, paths); total = len(paths)
    if completed == 0: chk.obligation('wire', '-', 'inconclusive', 'vacuous: setupCerts never completes'); return
    want = {'rsa', 'ecdsa:P-256', 'ecdsa:P-384', 'ed25519'}
    if not want <= prefs: chk.obligation('wire', '-', 'inconclusive', f'vacuous: key classes seen on completed paths {sorted(prefs)}'); return
    # ---- (b) the installation step on its own: agent present / absent / failing at every call, then the file fallback
    ninst = 0
    for kind in ('rsa', 'ed25519'):
        ex2 = client_env(ir, budget_s=200)
        st2 = State()
        priv = z3.String(f'PRIV.{kind}'); pub = z3.String(f'PUB.{kind}')
        if kind == 'ed25519': signer = IfaceV(ir.typeid('crypto/ed25519.PrivateKey'), BytesV(priv))
        else: signer = IfaceV(ir.typeid('*crypto/rsa.PrivateKey'), Ptr(st2.alloc(Opaque('privkey', term=priv, pub=pub, kind=kind))))
        logger2 = IfaceV('dyn:logger', Opaque('logger'))
        ps = ex2.run(INSERT, [BytesV(z3.String('cert.text')), signer, z3.String('filePrefix'), z3.String('userName'), z3.String('privateKeyPath'), z3.Bool('confirm'), logger2], st2)
        for p in ps:
            if p.status in ('unsupported', 'unwind'): chk.absorb(ex2, ps); chk.obligation('wire', '-', 'inconclusive', str(p.result)); return
        v2 = judge_paths(chk, ex2, ps, 'insertSSHCert', counters)
        if v2 == 'violated': verdict = 'violated'
        # the private half must end up somewhere when the function reports success: agent or a 0600 file
        for p in ps:
            res = p.result[0] if isinstance(p.result, (list, tuple)) and p.result else p.result
            if p.status == 'returned' and isinstance(res, IfaceV) and res.tid is None:
                ninst += 1
                if not p.evs('agent.add') and not [e for e in p.evs('file.write') if tainted(ex2, p, e['data'])]:
                    if chk.violation('private-at-rest', f'insertSSHCert/{kind}/lost', 'installation reports success but the key reached neither the agent nor a file', None) == 'new': verdict = 'violated'
        chk.absorb(ex2, ps); total += len(ps)
    # ---- (c) the aws-role-cert mode of the client (key pair -> role certificate manager, key written to the TLS key file)
    naws = 0; AWSROOT = CM + '.generateAwsRoleCert'
    if AWSROOT in ir.funcs:
        ex3 = client_env(ir, budget_s=300, max_paths=60000)
        ex3.stub(CM + '.backgroundConnectToAnyKeymasterServer', lambda ex_, st, a, ins: fork_results(ex_, st, ins, [(None, lambda s: mk_error(s, SV('conn'), 'conn')), (None, nilerr())]))
        st3 = State()
        cfg3 = ex3.materialise(st3, Lazy(CFG, 'config'))
        ps3 = ex3.run(AWSROOT, [z3.String('homeDir'), cfg3, Ptr(st3.alloc(Opaque('httpclient'))), IfaceV('dyn:logger', Opaque('logger'))], st3)
        for p in ps3:
            if p.status in ('unsupported', 'unwind'): chk.absorb(ex3, ps3); chk.obligation('wire', '-', 'inconclusive', str(p.result)); return
            res = p.result[0] if isinstance(p.result, (list, tuple)) and p.result else p.result
            if p.status == 'returned' and isinstance(res, IfaceV) and res.tid is None: naws += 1
        if judge_paths(chk, ex3, ps3, 'generateAwsRoleCert', counters) == 'violated': verdict = 'violated'
        chk.absorb(ex3, ps3); total += len(ps3)
        if naws == 0: chk.obligation('wire', '-', 'inconclusive', 'vacuous: generateAwsRoleCert never completes'); return
    chk.witnesses += completed + ninst + naws
    chk.obligation('wire-non-interference / private-at-rest: nothing handed to the HTTP layer depends on a private half; private halves go only to the agent or to files with mode & 0077 = 0',
                   'setupCerts from the client SSA (every key preference x certificate type x every I/O failure; authentication summarised: receives no key material) + the installation step on its own (agent present / absent / failing at every call) + the aws-role-cert mode', verdict, paths=total,
                   witness=f'{completed} completed runs, {ninst} completed installations, {naws} completed aws-role-cert runs, {counters["wire"]} transmitted terms, {counters["file"]} private file writes, {counters["agent"]} agent insertions', t=time.time() - t)
    chk.sample({'obligation': 'wire', 'key_classes': sorted(prefs), 'transmitted_terms': counters['wire'], 'private_file_writes': counters['file']})


SSH_TYPE = {('rsa', None): 'ssh-rsa', ('ecdsa', 'P-256'): 'ecdsa-sha2-nistp256', ('ecdsa', 'P-384'): 'ecdsa-sha2-nistp384', ('ecdsa', 'P-521'): 'ecdsa-sha2-nistp521', ('ed25519', None): 'ssh-ed25519'}
CURVE_BITS = {'P-224': 224, 'P-256': 256, 'P-384': 384, 'P-521': 521}


def offered_keys(ir):
    """(preference, [X.509 key class, SSH main key class, SSH extra key class]) from makeSigners / compute in the client's SSA"""
    out = {}
    for pref, label in ((0, 'rsa'), (1, 'p256'), (2, 'p384')):
        ex = client_env(ir, budget_s=60)
        ps = ex.run(CM + '.makeSigners', [z3.BitVecVal(pref, 64)], State())
        for p in ps:
            if p.status != 'returned': continue
            ks = p.evs('keygen')
            if len(ks) == 3 and all(not isinstance(x, Nil) for x in ks):
                cls = []
                for e in ks:
                    bits = z3.simplify(lib.tobv(e['bits'])).as_long() if e['bits'] is not None and z3.is_bv_value(z3.simplify(lib.tobv(e['bits']))) else None
                    cls.append((e['kind'], e['curve'], bits))
                out[label] = cls
    return out


def ob_offered(chk, cir):
    """every key class the client offers for SSH is certified by the server's SSH issuing handler (server SSA), in every CA configuration"""
    from symx import issue, authmodel as am, sweep
    from symx.lib import M
    t = time.time(); verdict = 'holds'
    offered = offered_keys(cir)
    if set(offered) != {'rsa', 'p256', 'p384'}: chk.obligation('offered-keys-certifiable', '-', 'inconclusive', f'key classes not recovered from makeSigners: {offered}'); return
    sir = build.load('server')
    handler = f'(*{M}.RuntimeState).postAuthSSHCertHandler'
    if handler not in sir.funcs: chk.obligation('offered-keys-certifiable', '-', 'inconclusive', 'ANCHOR-LOST ' + handler); return
    classes = {}
    for pref, cls in offered.items():
        classes.setdefault(cls[1], set()).add(pref + ' (main key)'); classes.setdefault(cls[2], set()).add(pref + ' (additional key)')
    total = 0; nsign = 0
    for (kind, curve, bits), users in sorted(classes.items(), key=str):
        tname = SSH_TYPE.get((kind, curve))
        label = f'{kind}{"/" + curve if curve else ""}{"/" + str(bits) if bits else ""}'
        if tname is None: chk.obligation(f'offered-keys-certifiable {label}', '-', 'inconclusive', 'no SSH type name for this class'); continue
        H = HandlerRun(sir, loop_bound=6, budget_s=200); ex = H.ex
        issue.install(H)
        for k, v in sweep.STORAGE.items(): H.stub(k, v)
        H.stub(f'(*{M}.RuntimeState).writeFailureResponse', am.st_fail)
        H.stub('regexp.MatchString', lib.re_match)
        line = z3.String('req.file[pubkeyfile]'); b64 = z3.String('key.base64')
        # the line the client sends: MarshalAuthorizedKey = type name, space, base64 body, newline (x/crypto/ssh contract)
        ALPHA = z3.Union(z3.Range('a', 'z'), z3.Range('A', 'Z'), z3.Range('0', '9'), z3.Re('+'), z3.Re('/'))
        def parse_ok(ex_, st, a, ins):
            return (IfaceV('dyn:sshpub', Opaque('sshpub', term=SV(label), src=line)), SV(''), NILSLICE(), NILSLICE(), nilerr())
        H.stub('golang.org/x/crypto/ssh.ParseAuthorizedKey', parse_ok)
        H.stub_pat(r'golang\.org/x/crypto/ssh\.(Public|CryptoPublic)Key\.Type$|ssh\.PublicKey\.Type$|\(dyn:sshpub\)\.Type$', lambda ex_, st, a, ins: SV(tname))
        bitlen = z3.BitVecVal(bits or 0, 64); curvebits = z3.BitVecVal(CURVE_BITS.get(curve, 0), 64)
        def crypto_pub(ex_, st, a, ins):
            if kind == 'rsa':
                T = sir.typeid('crypto/rsa.PublicKey'); v = [Ptr(st.alloc(Opaque('bigN'))) if f['name'] == 'N' else z3.BitVecVal(65537, 64) for f in sir.fields(T)]
                return IfaceV(sir.typeid('*crypto/rsa.PublicKey'), Ptr(st.alloc(StructV(v))))
            if kind == 'ecdsa':
                T = sir.typeid('crypto/ecdsa.PublicKey'); v = [IfaceV('dyn:curve', Opaque('curve')) if f['name'] == 'Curve' else Ptr(st.alloc(Opaque('big'))) for f in sir.fields(T)]
                return IfaceV(sir.typeid('*crypto/ecdsa.PublicKey'), Ptr(st.alloc(StructV(v))))
            return IfaceV(sir.typeid('crypto/ed25519.PublicKey'), ex_.mkslice(st, [z3.BitVec(f'ed{i}', 8) for i in range(2)]))
        H.stub_pat(r'ssh\.CryptoPublicKey\.CryptoPublicKey$|\(dyn:sshpub\)\.CryptoPublicKey$', crypto_pub)
        ex.stubs.pop(KM + '/lib/certgen.ValidatePublicKeyStrength', None)      # the real predicate
        H.extra_inline = re.compile(r'^\(net/url\.Values\)\.(Get|Has)$|^\(\*crypto/rsa\.PublicKey\)\.Size$|lib/certgen\.ValidatePublicKeyStrength$')
        H.stub('(*math/big.Int).BitLen', lambda ex_, st, a, ins: bitlen)
        def params(ex_, st, a, ins):
            CP = sir.typeid('crypto/elliptic.CurveParams'); v = [curvebits if f['name'] == 'BitSize' else Lazy(f['type'], 'cp.' + f['name']) for f in sir.fields(CP)]
            return Ptr(st.alloc(StructV(v)))
        H.stub_pat(r'elliptic\.Curve\.Params$|\(dyn:curve\)\.Params$', params)
        H.add_hints(pin(r'^\*\*?r\.Method$', SV('POST')), nonnil_iface(r'^\*state\.Signer$', 'mainSigner'),
                    (re.compile(r'^\*state\.Ed25519Signer$'), lambda ex_, st, tid, name: (_ for _ in ()).throw(Choice(name, [IfaceV(None, None), IfaceV('dyn:edSigner', Opaque('edSigner'))]))))
        def on_sign(ex_, p, e): raise PathCut('sink stop')
        ex.on_sign = on_sign
        st, state, w, r = H.mkstate()
        # length of the SSH wire encoding of the key class (RFC 4253 / 5656 / 8709 framing): the base64 body has exactly 4*ceil(n/3)
        # characters, the last (3 - n mod 3) mod 3 of them '='
        def blob_len():
            if kind == 'ed25519': return [4 + 11 + 4 + 32]
            if kind == 'ecdsa':
                cb = {'P-256': 32, 'P-384': 48, 'P-521': 66}[curve]; idn = {'P-256': 'nistp256', 'P-384': 'nistp384', 'P-521': 'nistp521'}[curve]
                return [4 + len('ecdsa-sha2-' + idn) + 4 + len(idn) + 4 + (1 + 2 * cb)]
            nb = (bits + 7) // 8
            # mpint n: a leading zero byte when the top bit is set (always for an exactly bits-long modulus, bits % 8 == 0); e = 65537 or 3 (1..3 bytes)
            return sorted({4 + 7 + 4 + el + 4 + nb + (1 if bits % 8 == 0 else 0) for el in (1, 3)})
        alts = []
        for n_ in blob_len():
            pad = (3 - n_ % 3) % 3; chars = 4 * ((n_ + 2) // 3)
            body = z3.Loop(ALPHA, chars - pad, chars - pad)      # a bounded loop keeps the query inside the regex solver (a Length constraint does not)
            alts.append(z3.InRe(b64, z3.Concat(body, z3.Re('=' * pad)) if pad else body))
        shape = [line == z3.Concat(SV(tname + ' '), b64, SV('\n')), z3.Or(alts)]
        # the pattern is decided in a solver query of its own (every line of that shape), so that the bounded-loop regex constraint does not
        # sit in the path condition of unrelated branch-feasibility queries
        def match(ex_, s_, a, ins):
            pat = lib.const_pattern(a[0])
            if pat is None or not z3.eq(a[1], line): return lib.re_match(ex_, s_, a, ins)
            R = rx.translate(pat)
            r1, _m = ex_.model_fresh(shape, z3.Not(z3.InRe(line, R)), 60000)
            if r1 == 'unsat': s_.ev('pattern', verdict='every line of this shape matches'); return (z3.BoolVal(True), nilerr())
            r2, _m = ex_.model_fresh(shape, z3.InRe(line, R), 60000)
            if r2 == 'unsat': s_.ev('pattern', verdict='no line of this shape matches'); return (z3.BoolVal(False), nilerr())
            if 'unknown' in (r1, r2): raise Unsupported('solver unknown on the key pattern')
            s_.ev('pattern', verdict='some lines of this shape match'); return (z3.Bool('pattern.matches'), nilerr())
        H.stub('regexp.MatchString', match)
        paths = ex.run(handler, [state, w, r, z3.String('targetUser'), z3.BitVec('duration', 64)], st); total += len(paths)
        signed = 0
        for p in paths:
            if p.status in ('unsupported', 'unwind'): chk.absorb(ex, paths); chk.obligation(f'offered-keys-certifiable {label}', '-', 'inconclusive', str(p.result)); break
            if p.status == 'panic': continue
            if p.evs('sign'): signed += 1; continue
            for e in p.evs('fail'):
                c = z3.simplify(lib.tobv(e['code']))
                if not z3.is_bv_value(c) or not (400 <= c.as_long() < 500): continue
                msg = term(e['msg'], 80)
                if 'Missing public key file' in msg: continue      # the request itself was not delivered (environment)
                ed_nil = st.memo.get('*state.Ed25519Signer') if False else None
                no_ed_ca = isinstance(p.memo.get('*state.Ed25519Signer'), IfaceV) and p.memo.get('*state.Ed25519Signer').tid is None
                if kind == 'ed25519' and no_ed_ca and c.as_long() == 422: continue     # the additional Ed25519 key is optional: refused only when the server has no Ed25519 CA
                r_, m = ex.model_fresh(p.pc, None, 30000) if False else ex.model(p.pc)
                if r_ == 'unsat': continue
                site = f'postAuthSSHCertHandler/{label}'
                confirmed = None; files = None
                if kind == 'ecdsa' and site not in [v['site'] for v in chk.violations]:
                    src = replay.GO_OFFERED_KEY % {'curve': curve.replace('-', '')}
                    okr, txt = replay.go_test('cmd/keymasterd', 'zz_verif_c19_test.go', src, 'TestVerifC19OfferedKeyAccepted')
                    chk.replays += 1; confirmed = (okr is False) if okr is not None else None
                    files = {'zz_verif_c19_test.go': src, 'native_output.txt': txt[-2000:]}
                out = chk.violation('offered-keys-certifiable', site, f'the server refuses (status {c.as_long()}: {msg}) an SSH key of class {label} that the client offers for key preference {sorted(users)}', model_dict(m) if m is not None else None, replay_files=files, confirmed=confirmed)
                if out == 'new': verdict = 'violated'
                elif verdict == 'holds': verdict = 'known'
        else:
            chk.absorb(ex, paths)
            if signed == 0 and not [v for v in chk.violations + chk.known_seen if label in v['site']]:
                chk.obligation(f'offered-keys-certifiable {label}', '-', 'inconclusive', 'vacuous: no signing path for this key class'); continue
            nsign += signed
            continue
        return
    chk.witnesses += nsign
    chk.obligation('offered-keys-certifiable: the SSH key line of every key class the client generates passes the server\'s pattern, parser contract, strength predicate and CA selection (no 4xx); the additional Ed25519 key only needs an Ed25519 CA',
                   f'client key classes from makeSigners (client SSA): {sorted(map(str, classes))}; server postAuthSSHCertHandler from the server SSA, every base64 body of the length the key class serialises to (padding included), with/without Ed25519 CA', verdict, paths=total, witness=f'{nsign} signing paths', t=time.time() - t)
    chk.sample({'obligation': 'offered-keys-certifiable', 'offered': {k: [list(map(str, c)) for c in v] for k, v in offered.items()}})


UPSERT = AGENT + '.withAddedKeyUpsertCertIntoAgentConnection'


def ob_agent(chk, ir):
    """upsert into an abstract agent holding 0..N keys (certificate or plain key, symbolic comments): afterwards exactly one certificate
    carries the label - the new one - and entries with other labels (and plain keys) are untouched"""
    t = time.time(); verdict = 'holds'
    if UPSERT not in ir.funcs: chk.obligation('agent-upsert', '-', 'inconclusive', 'ANCHOR-LOST ' + UPSERT); return
    maxn = 2 if chk.tier == 'quick' else 3
    total = 0; ndone = 0
    AK = ir.typeid('golang.org/x/crypto/ssh/agent.AddedKey')
    for n in range(maxn + 1):
        ex = client_env(ir, budget_s=120)
        st = State()
        label = z3.String('label')
        st.aux['agent'] = [{'comment': z3.String(f'agent.key{i}.comment'), 'cert': z3.Bool(f'agent.key{i}.isCert'), 'new': False, 'present': z3.BoolVal(True)} for i in range(n)]
        v = []
        for f in ir.fields(AK):
            if f['name'] == 'Comment': v.append(label)
            elif f['name'] == 'Certificate': v.append(Ptr(st.alloc(Opaque('sshcert', term=z3.String('new.cert')))))
            elif f['name'] == 'PrivateKey': v.append(IfaceV(ir.typeid('crypto/ed25519.PrivateKey'), BytesV(z3.String('PRIV.k'))))
            else: v.append(ex.materialise(st, Lazy(f['type'], 'added.' + f['name'])))
        conn = IfaceV('dyn:conn', Opaque('agentconn')); logger = IfaceV('dyn:logger', Opaque('logger'))
        paths = ex.run(UPSERT, [StructV(v), conn, logger], st); total += len(paths)
        for p in paths:
            if p.status in ('unsupported', 'unwind'): chk.absorb(ex, paths); chk.obligation('agent-upsert', '-', 'inconclusive', str(p.result)); return
            res = p.result[0] if isinstance(p.result, (list, tuple)) and p.result else p.result
            if p.status != 'returned' or not (isinstance(res, IfaceV) and res.tid is None): continue
            ndone += 1
            ag = p.aux['agent']
            old = ag[:n]; new = [k for k in ag[n:] if k.get('new')]
            claims = [('exactly one new entry was added', z3.BoolVal(len(new) == 1))]
            for i, k in enumerate(old):
                same = z3.And(k['cert'], k['comment'] == label)
                claims.append((f'previous certificate {i} with the same label is gone', z3.Implies(same, z3.Not(k['present']))))
                claims.append((f'entry {i} with another label (or a plain key) is untouched', z3.Implies(z3.Not(same), k['present'])))
            for what, c in claims:
                r_, m = ex.model_fresh(p.pc, z3.Not(c), 30000)
                if r_ == 'unknown': chk.absorb(ex, paths); chk.obligation('agent-upsert', '-', 'inconclusive', 'solver unknown'); return
                if r_ == 'sat':
                    if chk.violation('agent-upsert', f'withAddedKeyUpsertCertIntoAgentConnection/{n} keys/{what.split(" ")[0]} {what.split(" ")[1]}', f'after a successful upsert into an agent holding {n} keys: NOT ({what})', model_dict(m) if m is not None else None) == 'new': verdict = 'violated'
        chk.absorb(ex, paths)
    if ndone == 0: chk.obligation('agent-upsert', '-', 'inconclusive', 'vacuous: no successful upsert'); return
    chk.witnesses += ndone
    chk.obligation('agent-upsert: after a successful upsert exactly one certificate carries the label (the new one); other entries are untouched',
                   f'agent holding 0..{maxn} entries, each a certificate or a plain key with a symbolic comment; every agent call can fail', verdict, paths=total, witness=f'{ndone} successful upserts', t=time.time() - t)


def main(chk):
    ir = build.load('client'); chk.ir = ir
    chk.assumptions = ['serialisers (x509 / pem / ssh marshalling) are uninterpreted functions of exactly what they are given; key generation returns a private half and an independent public half',
                       'net/http, mime/multipart, os file writes and the ssh-agent client are the boundary: what they are handed is what leaves the process']
    chk.bounds = {'agent keys': '0..2', 'requests': 'one run of setupCerts'}
    ob_wire(chk, ir)
    ob_offered(chk, ir)
    ob_agent(chk, ir)


if __name__ == '__main__':
    run_check('C19', main)
