"""External solver portfolio for queries the in-process z3 answers `unknown` on: the query is serialised to SMT-LIB2 and run
one-shot on z3 4.8.12 (/usr/bin/z3), z3 5.1.0 CLI (z3-new) and cvc5 (plain and --solve-bv-as-int=sum) in parallel.
First definite answer wins; any `(error` line makes that solver's answer inconclusive."""
import subprocess, tempfile, os, time, shutil, z3
from . import build


def to_smt2(assertions):
    s = z3.Solver()
    s.add(*assertions)
    txt = s.to_smt2()
    return txt


CONFIGS = [
    ('z3-4.8.12', ['/usr/bin/z3', '-smt2']),
    ('z3-5.1.0', ['z3-new', '-smt2']),
    ('cvc5', ['cvc5', '--lang=smt2', '--strings-exp']),
    ('cvc5-bv-as-int', ['cvc5', '--lang=smt2', '--solve-bv-as-int=sum']),
]


def solve(assertions, timeout_s=120, log=None):
    """returns (verdict, solver_name)"""
    try:
        txt = to_smt2(assertions)
    except Exception as e:
        return 'unknown', f'serialise: {e}'
    d = os.path.join(build.OUT, 'smt'); os.makedirs(d, exist_ok=True)
    f = tempfile.NamedTemporaryFile('w', suffix='.smt2', dir=d, delete=False)
    f.write(txt); f.close()
    procs = []
    for name, cmd in CONFIGS:
        if not shutil.which(cmd[0]): continue
        extra = [f'-T:{int(timeout_s)}'] if 'z3' in cmd[0] else [f'--tlimit={int(timeout_s * 1000)}']
        try:
            p = subprocess.Popen(cmd + extra + [f.name], stdout=subprocess.PIPE, stderr=subprocess.STDOUT, text=True)
            procs.append((name, p))
        except OSError:
            pass
    verdict, who = 'unknown', None
    t0 = time.time()
    pending = list(procs)
    while pending and time.time() - t0 < timeout_s + 5:
        for name, p in list(pending):
            if p.poll() is None: continue
            pending.remove((name, p))
            out = p.stdout.read()
            if '(error' in out: continue
            first = out.strip().splitlines()[0].strip() if out.strip() else ''
            if first in ('sat', 'unsat'):
                verdict, who = first, name; pending = []; break
        time.sleep(0.05)
    for name, p in procs:
        if p.poll() is None:
            p.kill()
    try: os.unlink(f.name)
    except OSError: pass
    return verdict, who


def cross_check(assertions, timeout_s=20):
    """every available external solver's verdict on one query: {name: 'sat'|'unsat'|'unknown'} (used to diff solvers on a sample of the
    queries a check discharged; an `(error` line counts as unknown)"""
    try: txt = to_smt2(assertions)
    except Exception as e: return {}
    d = os.path.join(build.OUT, 'smt'); os.makedirs(d, exist_ok=True)
    f = tempfile.NamedTemporaryFile('w', suffix='.smt2', dir=d, delete=False)
    f.write(txt); f.close()
    out = {}
    procs = []
    for name, cmd in CONFIGS[:3]:
        if not shutil.which(cmd[0]): continue
        extra = [f'-T:{int(timeout_s)}'] if 'z3' in cmd[0] else [f'--tlimit={int(timeout_s * 1000)}']
        try: procs.append((name, subprocess.Popen(cmd + extra + [f.name], stdout=subprocess.PIPE, stderr=subprocess.STDOUT, text=True)))
        except OSError: pass
    for name, p in procs:
        try: o = p.communicate(timeout=timeout_s + 5)[0]
        except subprocess.TimeoutExpired:
            p.kill(); o = ''
        first = o.strip().splitlines()[0].strip() if o.strip() else ''
        out[name] = first if (first in ('sat', 'unsat') and '(error' not in o) else 'unknown'
    try: os.unlink(f.name)
    except OSError: pass
    return out
