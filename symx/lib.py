"""Shared environment model (DESIGN section 3): stubs for library calls.  Every stub used by a run is recorded in
Exec.stub_hits (-> evidence 'stubs'), default-havocked callees in Exec.havocked."""
import z3, re
from .engine import *
from . import rx

M = 'github.com/Cloud-Foundations/keymaster/cmd/keymasterd'
KM = 'github.com/Cloud-Foundations/keymaster'
ZERO_NS = -62135596800 * 10**9   # time.Time{} as nanoseconds relative to the Unix epoch
TW = 96                           # time instants: signed nanoseconds since the Unix epoch as a 96-bit bit-vector (pure BV arithmetic, no Int/BV mixing)


def T(x):
    """to time width: python int, 64-bit duration/seconds (sign-extended) or already TW bits"""
    if isinstance(x, int): return z3.BitVecVal(x, TW)
    if isinstance(x, IntV):
        e = z3.simplify(x.e)
        return z3.BitVecVal(e.as_long(), TW) if z3.is_int_value(e) else z3.Int2BV(e, TW)
    if z3.is_bv(x):
        if x.size() == TW: return x
        if x.size() < TW: return z3.SignExt(TW - x.size(), x)
        return z3.Extract(TW - 1, 0, x)
    raise ValueError(x)


def sat64(x):
    """saturate a TW-bit signed value to int64 (Go's Time.Sub)"""
    lo, hi = -(1 << 63), (1 << 63) - 1
    return z3.Extract(63, 0, z3.If(x < T(lo), T(lo), z3.If(x > T(hi), T(hi), x)))


IGNORE = re.compile(r'log\.DebugLogger\.|log\.Logger\.|^log\.|\(\*log\.Logger\)|prometheus|tricorder|metricLog|\.SetUsername$|'
                    r'\(\*sync\.Once\)|runtime\.|debug\.PrintStack|metricsMutex|\(\*sync\.WaitGroup\)|os\.Std|'
                    r'Cloud-Foundations/golib/pkg/log|Cloud-Foundations/Dominator/lib/log|\(\*bufio\.Writer\)\.Flush')


def nilerr(): return IfaceV(None, None)


def install(ex, *groups):
    ex.ignore = IGNORE
    ex.stub_hits = {}
    for g in groups:
        for k, v in g.items():
            if isinstance(k, str): ex.stubs[k] = counted(ex, k, v)
            else: ex.stub_pats.append((k, counted(ex, k.pattern, v)))


def counted(ex, name, fn):
    def w(ex_, st, args, ins):
        ex.stub_hits[name] = ex.stub_hits.get(name, 0) + 1
        return fn(ex_, st, args, ins)
    return w


def setreg(st, ins, v):
    r = ins.get('reg')
    if r is not None and ins['op'] == 'Call': st.frames[-1].regs[r] = v


def fork_results(ex, st, ins, alts):
    """alts: [(cond|None, value|callable(state)->value)] -> list of feasible states with the call's register set"""
    out = []
    live = []
    for c, v in alts:
        if c is None or ex.feasible(st.pc, c): live.append((c, v))
    for i, (c, v) in enumerate(live):
        s2 = st if i == len(live) - 1 else st.fork()
        if c is not None: s2.pc.append(c)
        setreg(s2, ins, v(s2) if callable(v) else v)
        out.append(s2)
    if not live: st.status = 'infeasible'
    return out


def rk(st, key):
    """request-scoped memo key (multi-request harnesses bump st.aux['reqid'])"""
    n = st.aux.get('reqid', 0)
    if n and st.aux.get('injected') is not None and not any(getattr(f, 'tag', None) for f in st.frames): n = st.aux.get('reqid_a', 0)   # injected request finished: back in request A
    return key if not n else f'#{n}:{key}'


def gostr(x):
    return x if (z3.is_expr(x) and z3.is_string(x)) else None


def tobv(x, w=64):
    if isinstance(x, IntV):
        e = z3.simplify(x.e)
        return z3.BitVecVal(e.as_long(), w) if z3.is_int_value(e) else z3.Int2BV(e, w)
    return x


# ---------------------------------------------------------------------------------------------- time (integer model)
def dur_int(d):
    return T(d)


def t_now(ex, st, args, ins):
    n = st.aux.get('now')
    if n is None:
        n = z3.BitVec('now', TW); st.aux['now'] = n
        st.pc.append(n >= T(1577836800 * 10**9)); st.pc.append(n <= T(3976214400 * 10**9))
    st.ev('now')
    return TimeV(n)


def t_sub(ex, st, args, ins):
    return sat64(args[0].ns - args[1].ns)


TIME = {
    'time.Now': t_now,
    '(time.Time).Add': lambda ex, st, a, ins: TimeV(a[0].ns + dur_int(a[1])),
    '(time.Time).Sub': t_sub,
    'time.Since': lambda ex, st, a, ins: t_sub(ex, st, [t_now(ex, st, [], ins), a[0]], ins),
    'time.Until': lambda ex, st, a, ins: t_sub(ex, st, [a[0], t_now(ex, st, [], ins)], ins),
    '(time.Time).Before': lambda ex, st, a, ins: a[0].ns < a[1].ns,
    '(time.Time).After': lambda ex, st, a, ins: a[0].ns > a[1].ns,
    '(time.Time).Equal': lambda ex, st, a, ins: a[0].ns == a[1].ns,
    '(time.Time).IsZero': lambda ex, st, a, ins: a[0].ns == T(ZERO_NS),
    '(time.Time).Unix': lambda ex, st, a, ins: z3.Extract(63, 0, floordiv(a[0].ns, 10**9)),
    '(time.Time).UnixNano': lambda ex, st, a, ins: z3.Extract(63, 0, a[0].ns),
    '(time.Time).UTC': lambda ex, st, a, ins: a[0],
    '(time.Time).Local': lambda ex, st, a, ins: a[0],
    '(time.Time).Round': lambda ex, st, a, ins: a[0],
    '(time.Time).Truncate': lambda ex, st, a, ins: a[0],
    'time.Unix': lambda ex, st, a, ins: TimeV(T(a[0]) * T(10**9) + T(a[1])),
    '(time.Duration).Seconds': lambda ex, st, a, ins: z3.fpSignedToFP(z3.RNE(), tobv(a[0]), z3.Float64()) / z3.FPVal(1e9, z3.Float64()),
    'time.Sleep': lambda ex, st, a, ins: None,
    'time.After': lambda ex, st, a, ins: Ptr(st.alloc({'chan': [], 'room': None, 'tick': z3.Bool(fresh_name(st, 'timer.fires.first'))})),
    re.compile(r'^\(time\.(Time|Duration)\)\.(String|Format|GoString|MarshalJSON)$'): lambda ex, st, a, ins: fresh_str(st, 'timefmt'),
}


def floordiv(a, b):
    # floor division of a signed TW-bit value by a positive constant
    q = a / T(b); r = z3.SRem(a, T(b))
    return z3.If(z3.And(r != 0, a < 0), q - 1, q)


def fresh_str(st, what):
    st.counter += 1
    return z3.String(f'{what}!{st.counter}')


# ---------------------------------------------------------------------------------------------- strings / fmt / errors
def s_tolower(ex, st, a, ins):
    f = z3.Function('ToLower', z3.StringSort(), z3.StringSort())
    return f(a[0])


def s_toupper(ex, st, a, ins):
    f = z3.Function('ToUpper', z3.StringSort(), z3.StringSort())
    return f(a[0])


def sprintf(ex, st, a, ins, event=None):
    fmt = a[0]
    vals = ex.slice_values(st, a[1]) if isinstance(a[1], SliceV) else []
    fs = z3.simplify(fmt)
    if not z3.is_string_value(fs): return fresh_str(st, 'sprintf')
    f = fs.as_string()
    # decode z3 escapes \u{..}
    f = re.sub(r'\\u\{([0-9a-fA-F]+)\}', lambda m: chr(int(m.group(1), 16)), f)
    parts = []; i = 0; vi = 0; lit = ''
    while i < len(f):
        c = f[i]
        if c != '%': lit += c; i += 1; continue
        j = i + 1
        while j < len(f) and f[j] in '+-# 0123456789.': j += 1
        if j >= len(f): lit += f[i:]; break
        verb = f[j]
        if verb == '%': lit += '%'; i = j + 1; continue
        if lit: parts.append(z3.StringVal(lit)); lit = ''
        if vi >= len(vals):
            parts.append(z3.StringVal('%!' + verb + '(MISSING)')); vi += 1; i = j + 1; continue      # fmt: too few operands
        v = vals[vi]; vi += 1
        parts.append(fmt_value(ex, st, v, verb, f[i + 1:j]))
        i = j + 1
    if lit: parts.append(z3.StringVal(lit))
    if vi < len(vals):
        # fmt: operands left over are reported as %!(EXTRA type=value, ...)
        ex_parts = [z3.StringVal('%!(EXTRA ')]
        for k, v in enumerate(vals[vi:]):
            inner = v.val if isinstance(v, IfaceV) else v
            if isinstance(inner, Lazy): inner = ex.materialise(st, inner)
            if k: ex_parts.append(z3.StringVal(', '))
            if z3.is_expr(inner) and z3.is_string(inner): ex_parts += [z3.StringVal('string='), inner]
            elif z3.is_expr(inner) and z3.is_bv(inner): ex_parts += [z3.StringVal('int='), z3.IntToStr(z3.BV2Int(inner, False))]
            else: ex_parts.append(fresh_str(st, 'fmt.extra'))
        parts += ex_parts + [z3.StringVal(')')]
    if not parts: return z3.StringVal('')
    return z3.Concat(*parts) if len(parts) > 1 else parts[0]


def fmt_value(ex, st, v, verb, flags=''):
    if isinstance(v, IfaceV):
        inner = v.val
        if isinstance(inner, Lazy): inner = ex.materialise(st, inner)
        if verb in 'sv' and z3.is_expr(inner) and z3.is_string(inner) and flags == '': return inner
        if verb in 'sv' and isinstance(inner, Opaque) and getattr(inner, 'msg', None) is not None: return inner.msg
        if verb in 'dv' and z3.is_expr(inner) and z3.is_bv(inner) and flags == '':
            return z3.IntToStr(z3.BV2Int(inner, False)) if True else None
    return fresh_str(st, 'fmt%' + verb)


def mk_error(st, msg, what='error'):
    st.counter += 1
    return IfaceV('dyn:err!' + what + f'!{st.counter}', Opaque('err:' + what, msg=msg))


def e_new(ex, st, a, ins):
    return mk_error(st, a[0], 'errors.New')


def e_errorf(ex, st, a, ins):
    return mk_error(st, sprintf(ex, st, a, ins), 'fmt.Errorf')


def e_error_method(ex, st, a, ins):
    v = a[0]
    inner = v.val if isinstance(v, IfaceV) else v
    if isinstance(inner, Opaque) and getattr(inner, 'msg', None) is not None: return inner.msg
    return fresh_str(st, 'err.Error()')


def s_index(ex, st, a, ins):
    return IntV(z3.IndexOf(a[0], a[1], 0))


def s_split(ex, st, a, ins):
    """strings.Split(s, sep): over-approximated as an input slice of strings whose Join(sep) == s is not asserted (bounded length)"""
    st.counter += 1
    return SliceV(st.alloc(LazyArr(ex.ir.typeid('string'), f'split!{st.counter}')), 0, None, None)


STRINGS = {
    'strings.HasPrefix': lambda ex, st, a, ins: z3.PrefixOf(a[1], a[0]),
    'strings.HasSuffix': lambda ex, st, a, ins: z3.SuffixOf(a[1], a[0]),
    'strings.Contains': lambda ex, st, a, ins: z3.Contains(a[0], a[1]),
    'strings.ContainsRune': lambda ex, st, a, ins: z3.Contains(a[0], z3.StrFromCode(z3.BV2Int(a[1], False))),
    'strings.ToLower': s_tolower,
    'strings.ToUpper': s_toupper,
    'strings.Index': s_index,
    'strings.IndexByte': lambda ex, st, a, ins: IntV(z3.IndexOf(a[0], z3.StrFromCode(z3.BV2Int(a[1], False)), 0)),
    'strings.TrimSpace': lambda ex, st, a, ins: z3.Function('TrimSpace', z3.StringSort(), z3.StringSort())(a[0]),
    'strings.Split': s_split,
    'strings.Replace': lambda ex, st, a, ins: fresh_str(st, 'replace'),
    'strings.ReplaceAll': lambda ex, st, a, ins: z3.Function('ReplaceAll', z3.StringSort(), z3.StringSort(), z3.StringSort(), z3.StringSort())(a[0], a[1], a[2]),
    'strings.Join': lambda ex, st, a, ins: fresh_str(st, 'join'),
    'strings.EqualFold': lambda ex, st, a, ins: s_tolower(ex, st, [a[0]], ins) == s_tolower(ex, st, [a[1]], ins),
    'strings.Compare': lambda ex, st, a, ins: z3.If(a[0] == a[1], z3.BitVecVal(0, 64), z3.If(a[0] < a[1], z3.BitVecVal(-1, 64), z3.BitVecVal(1, 64))),
    'fmt.Sprintf': sprintf,
    'fmt.Sprint': lambda ex, st, a, ins: fresh_str(st, 'sprint'),
    'fmt.Errorf': e_errorf,
    'errors.New': e_new,
    re.compile(r'^error\.Error$|\)\.Error$'): e_error_method,
    'strconv.Itoa': lambda ex, st, a, ins: z3.IntToStr(as_int(a[0])),
    'bytes.Equal': lambda ex, st, a, ins: bytes_eq(ex, st, a[0], a[1]),
    'net/http.StatusText': lambda ex, st, a, ins: z3.Function('StatusText', z3.BitVecSort(64), z3.StringSort())(tobv(a[0])),
}


def bytes_eq(ex, st, a, b):
    if isinstance(a, BytesV) and isinstance(b, BytesV): return a.s == b.s
    st.counter += 1
    return z3.Bool(f'bytes.Equal!{st.counter}')


def re_match(ex, st, a, ins):
    pat = z3.simplify(a[0])
    if not z3.is_string_value(pat):
        # configured (operator-supplied) pattern: its verdict is a symbolic predicate of (pattern, subject)
        b = z3.Function('regexp.MatchString', z3.StringSort(), z3.StringSort(), z3.BoolSort())(a[0], a[1])
        return fork_results(ex, st, ins, [(None, lambda s: (z3.BoolVal(False), mk_error(s, z3.StringVal('regexp'), 'regexp'))), (None, (b, nilerr()))])
    p = re.sub(r'\\u\{([0-9a-fA-F]+)\}', lambda m: chr(int(m.group(1), 16)), pat.as_string())
    try:
        r = rx.translate(p)
    except Exception as e:
        raise Unsupported(f'regexp {p!r}: {e}')
    st.ev('regexp', pattern=p, subject=a[1])
    return (z3.InRe(a[1], r), nilerr())


def const_pattern(x):
    pat = z3.simplify(x)
    if not z3.is_string_value(pat): return None
    return re.sub(r'\\u\{([0-9a-fA-F]+)\}', lambda m: chr(int(m.group(1), 16)), pat.as_string())


def re_compile(ex, st, a, ins):
    p = const_pattern(a[0])
    if p is None: raise Unsupported('regexp.MustCompile of non-constant pattern')
    o = Ptr(st.alloc(Opaque('regexp', pattern=p)))
    if ins.get('call', {}).get('callee', '').endswith('.Compile'): return (o, nilerr())
    return o


def re_of(ex, st, p):
    v = st.heap.get(p.obj) if isinstance(p, Ptr) else None
    if isinstance(v, Opaque) and v.what == 'regexp': return v.pattern
    return None


def re_method_match(ex, st, a, ins):
    p = re_of(ex, st, a[0])
    if p is None: return z3.Bool(fresh_name(st, 'regexp.match'))
    subj = a[1].s if isinstance(a[1], BytesV) else a[1]
    try: return z3.InRe(subj, rx.translate(p))
    except Exception as e: raise Unsupported(f'regexp {p!r}: {e}')


def fresh_name(st, what):
    st.counter += 1
    return f'{what}!{st.counter}'


def re_find_submatch(ex, st, a, ins):
    """FindStringSubmatch: nil when there is no match, else 1+ngroups strings (group contents over-approximated as arbitrary)"""
    p = re_of(ex, st, a[0]); subj = a[1]
    if p is None:
        st.counter += 1
        return SliceV(st.alloc(LazyArr(ex.ir.typeid('string'), f'submatch!{st.counter}')), 0, None, None)
    try:
        import re._parser as sp
    except ImportError:
        import sre_parse as sp
    ng = sp.parse(p).state.groups
    try: R = rx.translate(p)
    except Exception as e: raise Unsupported(f'regexp {p!r}: {e}')
    def hit(s2):
        s2.counter += 1
        vals = [subj if (p.startswith('^') and p.endswith('$')) else z3.String(f'match0!{s2.counter}')] + [z3.String(f'group{i}!{s2.counter}') for i in range(1, ng)]
        for v in vals[1:]: s2.pc.append(z3.Contains(subj, v))
        return ex.mkslice(s2, vals)
    return fork_results(ex, st, ins, [(z3.Not(z3.InRe(subj, R)), NILSLICE()), (z3.InRe(subj, R), hit)])


REGEXP = {'regexp.MatchString': re_match, 'regexp.MustCompile': re_compile, 'regexp.Compile': re_compile,
          '(*regexp.Regexp).MatchString': re_method_match, '(*regexp.Regexp).Match': re_method_match,
          '(*regexp.Regexp).FindStringSubmatch': re_find_submatch}


# ---------------------------------------------------------------------------------------------- sync
def mu_name(ex, st, p):
    return repr(p)


def _who(st):
    who = 'A'
    for f in st.frames:
        if getattr(f, 'tag', None) is not None: who = f.tag
    return who


def mu_lock(ex, st, a, ins):
    n = mu_name(ex, st, a[0])
    own = st.aux.setdefault('lock_owner', {}); who = _who(st)
    if own.get(n) not in (None, who):
        # an injected request needs a mutex the interrupted request holds: it would block here, so this schedule does not exist
        # (the schedule in which it runs after the release is explored from that release)
        st.status = 'infeasible'; return None
    st.ev('lock', mu=n)
    st.aux.setdefault('locks', []).append(n); own[n] = who


def mu_unlock(ex, st, a, ins):
    n = mu_name(ex, st, a[0])
    l = st.aux.setdefault('locks', [])
    if n in l: l.remove(n)
    if n not in l: st.aux.setdefault('lock_owner', {}).pop(n, None)
    st.ev('unlock', mu=n)


SYNC = {
    '(*sync.Mutex).Lock': mu_lock, '(*sync.Mutex).Unlock': mu_unlock,
    '(*sync.RWMutex).Lock': mu_lock, '(*sync.RWMutex).Unlock': mu_unlock,
    '(*sync.RWMutex).RLock': mu_lock, '(*sync.RWMutex).RUnlock': mu_unlock,
}


# ---------------------------------------------------------------------------------------------- net/http
def http_error(ex, st, a, ins):
    st.ev('resp.status', code=a[2], via='http.Error'); st.ev('resp.write', data=a[1], via='http.Error')


def http_redirect(ex, st, a, ins):
    st.ev('redirect', url=a[2], code=a[3]); st.ev('resp.status', code=a[3], via='redirect')


def http_setcookie(ex, st, a, ins):
    c = ex.load(st, a[1])
    T = ex.ir.typeid('net/http.Cookie')
    st.ev('setcookie', name=ex.getfield(st, c, T, 'Name'), value=ex.getfield(st, c, T, 'Value'), cookie=c)


def w_header(ex, st, a, ins):
    return Opaque('resp.Header')


def hdr_set(ex, st, a, ins):
    if isinstance(a[0], Opaque) and a[0].what == 'resp.Header': st.ev('resp.header', key=a[1], val=a[2])
    return None


def hdr_get(ex, st, a, ins):
    h = a[0]
    if isinstance(h, Opaque) and h.what == 'resp.Header': return fresh_str(st, 'resp.hdr')
    k = z3.simplify(a[1])
    key = rk(st, 'req.Header[' + (k.as_string().lower() if z3.is_string_value(k) else k.sexpr()) + ']')
    if key not in st.memo:
        for pat, fn in ex.hints:
            if pat.search(key):
                r = fn(ex, st, None, key)
                if r is not NotImplemented: st.memo[key] = r; break
        else: st.memo[key] = z3.String(key)
    return st.memo[key]


def w_writeheader(ex, st, a, ins):
    st.ev('resp.status', code=a[1], via='WriteHeader')


def w_write(ex, st, a, ins):
    st.ev('resp.write', data=a[1], via='Write')
    st.counter += 1
    return (z3.BitVec(f'n!{st.counter}', 64), nilerr())


def fprintf(ex, st, a, ins):
    s = sprintf(ex, st, a[1:], ins)
    st.ev('resp.write', data=s, via='Fprintf', w=a[0])
    st.counter += 1
    return (z3.BitVec(f'n!{st.counter}', 64), nilerr())


def req_cookies(ex, st, a, ins):
    """r.Cookies(): bounded symbolic list of cookies (count chosen per path; hint 'req.ncookies')"""
    key = rk(st, 'req.ncookies')
    if key not in st.memo:
        lens = [0, 1, 2]
        for pat, fn in ex.hints:
            if pat.search(key):
                r = fn(ex, st, None, key)
                if r is not NotImplemented: lens = r; break
        if len(lens) > 1: raise Choice(key, list(lens))
        st.memo[key] = lens[0]
    n = st.memo[key]
    ck = rk(st, 'req.cookies')
    if ck not in st.memo:
        T = ex.ir.typeid('net/http.Cookie'); ptrs = []
        pre = rk(st, 'cookie')
        for i in range(n):
            c = StructV(Lazy(f['type'], f'{pre}{i}.{f["name"]}') for f in ex.ir.fields(T))
            ptrs.append(Ptr(st.alloc(c)))
        st.memo[ck] = ptrs
    return ex.mkslice(st, st.memo[ck])


def req_cookie(ex, st, a, ins):
    """r.Cookie(name): first cookie with that name, else http.ErrNoCookie"""
    sl = req_cookies(ex, st, a, ins)
    ptrs = st.memo[rk(st, 'req.cookies')]; T = ex.ir.typeid('net/http.Cookie'); ni = ex.ir.field_index(T, 'Name')
    alts = []; prev = []
    for p in ptrs:
        nm = ex.field(st, st.heap[p.obj], ni)
        alts.append((z3.And(prev + [nm == a[1]]), (p, nilerr())))
        prev.append(nm != a[1])
    alts.append((z3.And(prev) if prev else None, lambda s: (NIL, mk_error(s, z3.StringVal('http: named cookie not present'), 'ErrNoCookie'))))
    return fork_results(ex, st, ins, alts)


def req_basicauth(ex, st, a, ins):
    return (z3.String(rk(st, 'basic.user')), z3.String(rk(st, 'basic.pass')), z3.Bool(rk(st, 'basic.ok')))


def req_parseform(ex, st, a, ins):
    st.ev('parseform')
    return fork_results(ex, st, ins, [(None, lambda s: mk_error(s, fresh_str(s, 'parseerr'), 'ParseForm')), (None, nilerr())])


def req_formvalue(ex, st, a, ins):
    k = z3.simplify(a[1]); key = rk(st, 'req.FormValue[' + (k.as_string() if z3.is_string_value(k) else k.sexpr()) + ']')
    if key not in st.memo: st.memo[key] = z3.String(key)
    return st.memo[key]


def req_formfile(ex, st, a, ins):
    k = z3.simplify(a[1]); ks = k.as_string() if z3.is_string_value(k) else k.sexpr()
    def ok(s):
        f = IfaceV('dyn:formfile', Opaque('formfile', name=ks))
        return (f, Ptr(s.alloc(Opaque('fileheader'))), nilerr())
    return fork_results(ex, st, ins, [(None, lambda s: (IfaceV(None, None), NIL, mk_error(s, z3.StringVal('http: no such file'), 'FormFile'))), (None, ok)])


def buf_readfrom(ex, st, a, ins):
    """(*bytes.Buffer).ReadFrom(formfile): the buffer now holds the uploaded bytes (a symbolic string per form file)"""
    src = a[1]
    name = getattr(src.val, 'name', None) if isinstance(src, IfaceV) else None
    key = rk(st, f'req.file[{name}]')
    if key not in st.memo: st.memo[key] = z3.String(key)
    st.heap[a[0].obj] = {'buf': st.memo[key]}
    st.counter += 1
    return (z3.BitVec(f'n!{st.counter}', 64), nilerr())


def buf_string(ex, st, a, ins):
    c = st.heap[a[0].obj]
    if isinstance(c, dict) and 'buf' in c: return c['buf']
    return fresh_str(st, 'buf')


def buf_bytes(ex, st, a, ins):
    c = st.heap[a[0].obj]
    if isinstance(c, dict) and 'buf' in c: return BytesV(c['buf'])
    return BytesV(fresh_str(st, 'buf'))


def req_referer(ex, st, a, ins):
    return hdr_get(ex, st, [None, z3.StringVal('Referer')], ins)


def req_useragent(ex, st, a, ins):
    return hdr_get(ex, st, [None, z3.StringVal('User-Agent')], ins)


def url_parse(ex, st, a, ins):
    """url.Parse over-approximated: any *url.URL (fields arbitrary, named after the argument term) or an error"""
    s = a[0]; tag = 'urlparse(' + z3.simplify(s).sexpr()[:80] + ')'
    U = ex.ir.typeid('net/url.URL')
    def ok(s2):
        key = tag
        if key not in s2.memo:
            s2.memo[key] = Ptr(s2.alloc(StructV(Lazy(f['type'], f'{tag}.{f["name"]}') for f in ex.ir.fields(U))))
        return (s2.memo[key], nilerr())
    st.ev('url.Parse', arg=s)
    return fork_results(ex, st, ins, [(None, lambda s2: (NIL, mk_error(s2, fresh_str(s2, 'urlerr'), 'url.Parse'))), (None, ok)])


def net_splithostport(ex, st, a, ins):
    hp = a[0]
    def ok(s2):
        s2.counter += 1; n = s2.counter
        h = z3.String(f'shp.host!{n}'); p = z3.String(f'shp.port!{n}')
        # contract (net.SplitHostPort): hostport = host ":" port (unbracketed form) or "[" host "]:" port; port has no ':'
        s2.pc.append(z3.Or(hp == z3.Concat(h, z3.StringVal(':'), p), hp == z3.Concat(z3.StringVal('['), h, z3.StringVal(']:'), p)))
        s2.pc.append(z3.Not(z3.Contains(p, z3.StringVal(':'))))
        return (h, p, nilerr())
    return fork_results(ex, st, ins, [(None, lambda s2: (z3.StringVal(''), z3.StringVal(''), mk_error(s2, fresh_str(s2, 'shperr'), 'SplitHostPort'))), (None, ok)])


def tmpl_exec(ex, st, a, ins):
    name = a[2] if len(a) > 3 else None
    data = a[3] if len(a) > 3 else a[2]
    st.ev('template', name=name, data=data, w=a[1])
    return fork_results(ex, st, ins, [(None, lambda s: mk_error(s, fresh_str(s, 'tmplerr'), 'template')), (None, nilerr())])


def values_get(ex, st, a, ins):
    """(url.Values).Get(key) on an untouched symbolic input map: one term  ite(present, first value, "")  instead of a fork per lookup
    (names coincide with the lazily materialised map entries, so direct r.Form[key] lookups stay consistent)"""
    m, key = a[0], a[1]
    cell = st.heap.get(m.obj) if isinstance(m, MapV) else None
    if isinstance(cell, dict) and cell.get('base') is not None and not cell['writes']:
        ks = z3.simplify(key).sexpr() if z3.is_expr(key) else repr(key)
        nm = f"{cell['base']}[{ks}]"
        if ks not in cell['lazy']:
            return z3.If(z3.Bool(nm + '.present'), z3.String(nm + '[0]'), z3.StringVal(''))
    if isinstance(m, Nil): return z3.StringVal('')
    f2 = Frame(ex.ir.funcs['(net/url.Values).Get'], a); f2.ret = ins.get('reg')
    st.frames.append(f2)
    return None


HTTP = {
    '(net/url.Values).Get': values_get,
    'net/http.Error': http_error,
    'net/http.Redirect': http_redirect,
    'net/http.SetCookie': http_setcookie,
    re.compile(r'ResponseWriter\.Header$|LoggingWriter\)\.Header$'): w_header,
    re.compile(r'ResponseWriter\.WriteHeader$|LoggingWriter\)\.WriteHeader$'): w_writeheader,
    re.compile(r'ResponseWriter\.Write$|LoggingWriter\)\.Write$'): w_write,
    '(net/http.Header).Set': hdr_set, '(net/http.Header).Add': hdr_set,
    '(net/http.Header).Get': hdr_get,
    '(net/http.Header).Del': lambda ex, st, a, ins: None,
    'fmt.Fprintf': fprintf,
    'fmt.Fprint': lambda ex, st, a, ins: (st.ev('resp.write', data=a[1], via='Fprint', w=a[0]), (z3.BitVecVal(0, 64), nilerr()))[1],
    'fmt.Fprintln': lambda ex, st, a, ins: (st.ev('resp.write', data=a[1], via='Fprintln', w=a[0]), (z3.BitVecVal(0, 64), nilerr()))[1],
    'io.WriteString': lambda ex, st, a, ins: (st.ev('resp.write', data=a[1], via='WriteString', w=a[0]), (z3.BitVecVal(0, 64), nilerr()))[1],
    '(*net/http.Request).Cookies': req_cookies,
    '(*net/http.Request).Cookie': req_cookie,
    '(*net/http.Request).BasicAuth': req_basicauth,
    '(*net/http.Request).ParseForm': req_parseform,
    '(*net/http.Request).ParseMultipartForm': req_parseform,
    '(*net/http.Request).FormValue': req_formvalue,
    '(*net/http.Request).FormFile': req_formfile,
    '(*net/http.Request).Referer': req_referer,
    '(*net/http.Request).UserAgent': req_useragent,
    '(*bytes.Buffer).ReadFrom': buf_readfrom,
    '(*bytes.Buffer).String': buf_string,
    '(*bytes.Buffer).Bytes': buf_bytes,
    'net/url.Parse': url_parse,
    '(*net/url.URL).Hostname': lambda ex, st, a, ins: z3.Function('url.URL.Hostname', z3.StringSort(), z3.StringSort())(ex.getfield(st, ex.load(st, a[0]), ex.ir.typeid('net/url.URL'), 'Host')),
    '(*net/url.URL).Port': lambda ex, st, a, ins: z3.Function('url.URL.Port', z3.StringSort(), z3.StringSort())(ex.getfield(st, ex.load(st, a[0]), ex.ir.typeid('net/url.URL'), 'Host')),
    'net.SplitHostPort': net_splithostport,
    '(*html/template.Template).ExecuteTemplate': tmpl_exec,
    '(*text/template.Template).ExecuteTemplate': tmpl_exec,
    '(*html/template.Template).Execute': tmpl_exec,
    re.compile(r'mime/multipart\.File\.Close$|io\.(Read)?Closer\.Close$|\.Close$'): lambda ex, st, a, ins: nilerr(),
}

ALL = (TIME, STRINGS, REGEXP, SYNC, HTTP)
