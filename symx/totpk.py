"""TOTP kernel harness shared by C05 (one-time use), C14 (spacing / lock-out), C15 (outage) and C16 (double spend):
validateUserTOTP executed from SSA from an arbitrary pre-state (profile counter, device list, per-user rate-limit record), with
totp.Validate as its contract: a code is valid at instant t iff it is the HOTP value of the secret for step floor(t/30)+d, d in {-1,0,1}."""
import z3, re
from .engine import *
from .harness import *
from . import lib, sweep
from .lib import M, nilerr, mk_error, fork_results

S = z3.StringSort()
HOTP = z3.Function('hotp', S, z3.BitVecSort(64), S)       # code for (secret, step counter)
NAME = f'(*{M}.RuntimeState).validateUserTOTP'


def clock_vars(idx):
    """(seconds, 30 s step) of call idx as variables tied to the nanosecond instant by linear constraints (no division in the queries)"""
    return z3.BitVec(f'call{idx}.unix', 64), z3.BitVec(f'call{idx}.step', 64)


def clock_constraints(t_ns, idx):
    sec, step = clock_vars(idx)
    S9 = lib.T(10**9)
    return [lib.T(sec) * S9 <= t_ns, t_ns < lib.T(sec) * S9 + S9, z3.UGE(sec, 1500000000), z3.ULE(sec, 4000000000),
            z3.ULE(step * 30, sec), z3.ULT(sec, step * 30 + 30), z3.ULE(step, 140000000)]


def step_of_call(idx):
    return clock_vars(idx)[1]


def hotp_is_first(st, c):
    """hotp.ValidateCustom is tried for the period of the request, then the previous and the next one: is c the first of its triple?"""
    c = z3.simplify(lib.tobv(c)); firsts = st.aux.setdefault('hotp_first', [])
    for f in firsts:
        d = z3.simplify(c - f)
        if z3.is_bv_value(d):
            if d.as_long() == 0: return True
            if d.as_long() in (1, 2**64 - 1): return False
    firsts.append(c); return True


def setup(ir, ndev=1, budget=400):
    H = HandlerRun(ir, loop_bound=8, budget_s=budget); ex = H.ex; ex.ptr_nilable = False
    for k, v in sweep.STORAGE.items(): H.stub(k, v)
    secret = z3.String('totp.secret')
    H.stub(f'(*{M}.RuntimeState).decryptWithPublicKeys', lambda ex_, st, a, ins: fork_results(ex_, st, ins, [(None, lambda s: (NILSLICE(), mk_error(s, z3.StringVal('dec'), 'decrypt'))), (None, (BytesV(secret), nilerr()))]))
    def validate(ex_, st, a, ins):
        code = a[0]
        c = step_of_call(st.aux.get('call', 0))
        ok = z3.Or([code == HOTP(a[1], c + d) for d in (-1, 0, 1)])
        st.ev('totp.validate', code=code, step=c, ok=ok)
        return ok
    H.stub('github.com/pquerna/otp/totp.Validate', validate)
    def hotp_validate(ex_, st, a, ins):
        # hotp.ValidateCustom(passcode, counter, secret, opts): the value is valid for exactly that counter (contract)
        c = lib.tobv(a[1]); okb = a[0] == HOTP(a[2], c)
        st.ev('totp.validate', code=a[0], step=c, ok=okb)
        return (okb, nilerr())
    H.stub('github.com/pquerna/otp/hotp.ValidateCustom', hotp_validate)
    # int64(math.Floor(float64(x) / 30.0)) is computed exactly as integer floor division: float64 holds every |x| < 2^53 exactly and the
    # rounding error of the quotient (< 1e-7 for epoch seconds) cannot cross an integer boundary (fractions are multiples of 1/30).
    class FInt:
        def __init__(self, bv, div=1, floored=False): self.bv, self.div, self.floored = bv, div, floored
    oconv = ex.convert
    def convert(st_, ins, x):
        ft = ex.ir.under(ins['xtype'])[1]; tt = ex.ir.under(ins['type'])[1]
        if isinstance(x, FInt):
            if tt.get('bkind') in INTBITS:
                if x.div == 30 and getattr(x, 'stepvar', None) is not None: return x.stepvar
                q = x.bv / z3.BitVecVal(x.div, 64)      # signed division; operands are non-negative here (epoch seconds)
                return q
            return x
        if ft.get('bkind') in INTBITS and tt.get('bkind') == FLOAT64 and z3.is_bv(x) and x.size() == 64 and not z3.is_bv_value(z3.simplify(x)):
            f = FInt(x)
            nm = str(x)
            if nm.startswith('call') and nm.endswith('.unix'): f.stepvar = z3.BitVec(nm[:-5] + '.step', 64)
            return f
        return oconv(st_, ins, x)
    ex.convert = convert
    obin = ex.binop
    def binop(st_, ins, x, y):
        if isinstance(x, FInt) and ins['tok'] == '/' and not isinstance(y, FInt):
            yv = z3.simplify(y)
            if z3.is_fp_value(yv):
                import fractions
                f = float(str(yv)) if False else None
                d = int(round(float(eval(str(z3.simplify(z3.fpToReal(yv))).replace('/', '/')))))
                f2 = FInt(x.bv, x.div * d); f2.stepvar = getattr(x, 'stepvar', None); return f2
        return obin(st_, ins, x, y)
    ex.binop = binop
    def floor(ex_, st, a, ins):
        if isinstance(a[0], FInt):
            f = FInt(a[0].bv, a[0].div, True); f.stepvar = getattr(a[0], 'stepvar', None); return f
        return z3.fpRoundToIntegral(z3.RTN(), a[0])
    H.stub('math.Floor', floor)
    def unix(ex_, st, a, ins):
        now = st.aux.get('now')
        if now is not None and z3.is_true(z3.simplify(a[0].ns == now)): return clock_vars(st.aux.get('call', 0))[0]
        return z3.Extract(63, 0, lib.floordiv(a[0].ns, 10**9))
    H.stub('(time.Time).Unix', unix)
    H.add_hints(lens(r'^range\(.*TOTPAuthData\)$', [ndev]), lens(r'^range\(', [0, 1]))
    return H, secret


def call(H, st, state, user, code, t_ns, idx):
    """one call of validateUserTOTP at instant t_ns (all clock reads of the call return it: A-clock)"""
    st.status = 'run'; st.frames = []
    st.aux['now'] = t_ns; st.aux['call'] = idx
    st.pc += clock_constraints(t_ns, idx)
    otp = z3.BitVec(f'otp{idx}', 64)
    # the handler formats the integer with %06d: the code string is a function of the integer
    H.stub('fmt.Sprintf', lambda ex_, s, a, ins: code if z3.is_string_value(z3.simplify(a[0])) and '%06d' in z3.simplify(a[0]).as_string() else lib.sprintf(ex_, s, a, ins))
    return H.ex.run(NAME, [state, user, otp, TimeV(t_ns)], st)
