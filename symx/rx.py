"""Go RE2 pattern (the subset keymaster uses) -> z3 regular expression, via Python's sre parser.
Unsupported constructs raise ValueError (the caller treats the obligation as inconclusive, never as passed)."""
import z3
try:
    import re._parser as sre_parse
    import re._constants as C
except ImportError:  # py < 3.11
    import sre_parse
    import sre_constants as C


def ch(c):
    return z3.Re(z3.StringVal(chr(c)))


ANY_NO_NL = z3.Union(z3.Range(z3.StringVal('\x00'), z3.StringVal('\x09')), z3.Range(z3.StringVal('\x0b'), z3.StringVal('\xff')))
ANY = z3.Range(z3.StringVal('\x00'), z3.StringVal('\xff'))


def category(cat):
    if cat == C.CATEGORY_DIGIT: return z3.Range('0', '9')
    if cat == C.CATEGORY_WORD: return z3.Union(z3.Range('0', '9'), z3.Range('a', 'z'), z3.Range('A', 'Z'), z3.Re('_'))
    if cat == C.CATEGORY_SPACE: return z3.Union(*[z3.Re(x) for x in ' \t\n\r\f\v'])
    raise ValueError(f'category {cat}')


def in_set(items):
    neg = False; alts = []
    for op, av in items:
        if op == C.NEGATE: neg = True
        elif op == C.LITERAL: alts.append(ch(av))
        elif op == C.RANGE: alts.append(z3.Range(z3.StringVal(chr(av[0])), z3.StringVal(chr(av[1]))))
        elif op == C.CATEGORY: alts.append(category(av))
        else: raise ValueError(f'set item {op}')
    r = alts[0] if len(alts) == 1 else z3.Union(*alts)
    if neg: r = z3.Intersect(ANY, z3.Complement(r))
    return r


def seq(items):
    parts = [node(op, av) for op, av in items]
    parts = [p for p in parts if p is not None]
    if not parts: return z3.Re(z3.StringVal(''))
    return parts[0] if len(parts) == 1 else z3.Concat(*parts)


def node(op, av):
    if op == C.LITERAL: return ch(av)
    if op == C.NOT_LITERAL: return z3.Intersect(ANY, z3.Complement(ch(av)))
    if op == C.ANY: return ANY_NO_NL
    if op == C.IN: return in_set(av)
    if op == C.BRANCH: return z3.Union(*[seq(a) for a in av[1]])
    if op == C.SUBPATTERN: return seq(av[3])
    if op in (C.MAX_REPEAT, C.MIN_REPEAT):
        lo, hi, sub = av; r = seq(sub)
        if hi == C.MAXREPEAT:
            if lo == 0: return z3.Star(r)
            if lo == 1: return z3.Plus(r)
            return z3.Concat(z3.Loop(r, lo, lo), z3.Star(r))
        return z3.Loop(r, lo, hi)
    if op == C.AT:
        return None  # anchors handled by the caller
    raise ValueError(f'regex op {op}')


def translate(pattern):
    """returns z3 regex R such that Go's regexp.MatchString(pattern, s) <=> InRe(s, R) (unanchored ends are padded with .*)"""
    p = sre_parse.parse(pattern)
    items = list(p)
    start = end = False
    if items and items[0][0] == C.AT and items[0][1] in (C.AT_BEGINNING, C.AT_BEGINNING_STRING): start = True; items = items[1:]
    if items and items[-1][0] == C.AT and items[-1][1] in (C.AT_END, C.AT_END_STRING): end = True; items = items[:-1]
    for op, av in items:
        if op == C.AT: raise ValueError('inner anchor')
    r = seq(items)
    allr = z3.Star(ANY)
    if not start: r = z3.Concat(allr, r)
    if not end: r = z3.Concat(r, allr)
    return r
