"""Route sweep: every handler registered in main() (route table extracted from the SSA at check time) is executed symbolically with
the shared environment: checkAuth = gate stub (admits an arbitrary identity for the mask the handler passes), storage at the
function boundary (load/save/delete events), go-jose by Contract J, everything else by the default stubs.  Checks attach oracles to the
events (sign / mint / setcookie / save / redirect / template / publish ...)."""
import z3, re, time
from .engine import *
from .harness import *
from . import lib, authmodel as am, gate, issue, jose
from .lib import M, KM, nilerr, mk_error, fork_results

SV = z3.StringVal


def st_load_profile(ex, st, a, ins):
    user = a[1]
    UP = ex.ir.typeid(M + '.userProfile')
    n = len(st.evs('load'))
    fromcache = z3.Bool(lib.rk(st, f'load{n}.fromCache')); okb = z3.Bool(lib.rk(st, f'load{n}.found'))
    def ok(s):
        p = Ptr(s.alloc(Lazy(UP, lib.rk(s, f'*profile{n}'))))
        s.ev('load', user=user, profile=p, fromCache=fromcache, found=okb)
        return (p, okb, fromcache, nilerr())
    def bad(s):
        s.ev('load', user=user, profile=None, fromCache=z3.BoolVal(False), found=z3.BoolVal(False), err=True)
        return (NIL, z3.BoolVal(False), z3.BoolVal(False), mk_error(s, SV('db'), 'LoadUserProfile'))
    return fork_results(ex, st, ins, [(None, bad), (None, ok)])


def snapshot_profile(ex, st, p):
    try:
        v = ex.load(st, p)
        return clone(v)
    except Exception:
        return None


def st_save_profile(ex, st, a, ins):
    e = st.ev('save', user=a[1], profile=a[2], snapshot=snapshot_profile(ex, st, a[2]) if isinstance(a[2], Ptr) else None)
    if getattr(ex, 'on_effect', None): ex.on_effect(ex, st, e)
    return fork_results(ex, st, ins, [(None, lambda s: mk_error(s, SV('db'), 'SaveUserProfile')), (None, nilerr())])


def st_delete_profile(ex, st, a, ins):
    e = st.ev('delete', user=a[1])
    if getattr(ex, 'on_effect', None): ex.on_effect(ex, st, e)
    return fork_results(ex, st, ins, [(None, lambda s: mk_error(s, SV('db'), 'DeleteUserProfile')), (None, nilerr())])


def st_get_users(ex, st, a, ins):
    e = st.ev('getusers')
    if getattr(ex, 'on_effect', None): ex.on_effect(ex, st, e)
    def ok(s):
        s.counter += 1
        return (SliceV(s.alloc(LazyArr(ex.ir.typeid('string'), f'users!{s.counter}')), 0, None, None), z3.Bool(f'users.fromCache!{s.counter}'), nilerr())
    return fork_results(ex, st, ins, [(None, lambda s: (NILSLICE(), z3.BoolVal(False), mk_error(s, SV('db'), 'GetUsers'))), (None, ok)])


def st_upsert_signed(ex, st, a, ins):
    e = st.ev('upsertsigned', user=a[1], dtype=a[2], exp=a[3], data=a[4])
    if getattr(ex, 'on_effect', None): ex.on_effect(ex, st, e)
    return fork_results(ex, st, ins, [(None, lambda s: mk_error(s, SV('db'), 'UpsertSigned')), (None, nilerr())])


def st_delete_signed(ex, st, a, ins):
    e = st.ev('deletesigned', user=a[1], dtype=a[2])
    if getattr(ex, 'on_effect', None): ex.on_effect(ex, st, e)
    return fork_results(ex, st, ins, [(None, lambda s: mk_error(s, SV('db'), 'DeleteSigned')), (None, nilerr())])


def st_get_signed(ex, st, a, ins):
    n = len(st.evs('getsigned'))
    st.ev('getsigned', user=a[1], dtype=a[2])
    return fork_results(ex, st, ins, [(None, lambda s: (z3.BoolVal(False), SV(''), mk_error(s, SV('db'), 'GetSigned'))),
                                      (None, (z3.Bool(f'signed{n}.found'), z3.String(f'signed{n}.data'), nilerr()))])


STORAGE = {
    f'(*{M}.RuntimeState).LoadUserProfile': st_load_profile,
    f'(*{M}.RuntimeState).SaveUserProfile': st_save_profile,
    f'(*{M}.RuntimeState).DeleteUserProfile': st_delete_profile,
    f'(*{M}.RuntimeState).GetUsers': st_get_users,
    f'(*{M}.RuntimeState).UpsertSigned': st_upsert_signed,
    f'(*{M}.RuntimeState).DeleteSigned': st_delete_signed,
    f'(*{M}.RuntimeState).GetSigned': st_get_signed,
}


def st_rand_string(ex, st, a, ins):
    def ok(s):
        s.counter += 1
        return (z3.String(f'random!{s.counter}'), nilerr())
    return fork_results(ex, st, ins, [(None, lambda s: (SV(''), mk_error(s, SV('rand'), 'rand'))), (None, ok)])


def st_sig_algo(ex, st, a, ins):
    k = a[0]
    if isinstance(k, IfaceV) and k.tid is None:
        return fork_results(ex, st, ins, [(None, lambda s: (SV('HS256'), mk_error(s, SV('invalid pub key'), 'alg')))])
    return fork_results(ex, st, ins, [(None, lambda s: (SV('HS256'), mk_error(s, SV('invalid pub key'), 'alg'))), (None, (z3.String('sig.alg'), nilerr()))])


def st_signer_public(ex, st, a, ins):
    s0 = a[0]
    return IfaceV('dyn:pub', Opaque('pub', of=s0))


def st_is_admin(ex, st, a, ins):
    u = a[1]
    f = z3.Function('adm', z3.StringSort(), z3.BoolSort())
    st.ev('isadmin', user=u)
    return f(u)


def _choice_nil(ex, st, tid, name):
    u = ex.ir.under(tid)[1]
    raise Choice(name, [NIL, lambda s: Ptr(s.alloc(Lazy(u['elem'], '*' + name)))])


def st_publish_any(ex, st, a, ins):
    name = ins['call'].get('callee', '') if ins.get('call') else ''
    kind = name.rsplit('.Publish', 1)[-1]
    st.ev('publish', kind={'SSH': 'ssh', 'X509': 'x509'}.get(kind, kind), data=a[-1], args=a[1:])


def st_filtered_destination(ex, st, a, ins):
    """contract of the login-destination filter (discharged by C17's kernel obligation): a fresh string; C17 adds the SAFE constraint"""
    st.counter += 1; d = z3.String(f'filtered.destination!{st.counter}')
    st.ev('filtered', dest=d)
    return d


def mkrun(ir, route, sealed=False, budget_s=120, loop_bound=6, max_paths=6000, checkauth='stub', extra=None):
    H = HandlerRun(ir, loop_bound=loop_bound, budget_s=budget_s, max_paths=max_paths)
    issue.install(H)
    jose.install(H)
    for k, v in STORAGE.items(): H.stub(k, v)
    if checkauth == 'stub': H.stub(gate.CHECKAUTH, gate.st_checkauth_any(ir))
    else: H.ex.stubs.pop(f'(*{M}.RuntimeState).getAuthInfoFromAuthJWT', None)
    H.stub(f'{M}.genRandomString', st_rand_string)
    H.stub(f'{M}.publicToPreferedJoseSigAlgo', st_sig_algo)
    H.stub_pat(r'^crypto\.Signer\.Public$|\(dyn:mainSigner\)\.Public$|Signer\)\.Public$', st_signer_public)
    H.stub(f'(*{M}.RuntimeState).IsAdminUser', st_is_admin)
    H.stub('regexp.MatchString', lib.re_match)
    H.stub(f'{M}.getLoginDestination', st_filtered_destination)
    H.stub_pat(r'eventnotifier\.EventNotifier\)\.Publish(\w+)$', st_publish_any)
    H.stub(f'(*{M}.RuntimeState).sendBootstrapOtpEmail', lambda ex, st, a, ins: fork_results(ex, st, ins, [(None, lambda s: mk_error(s, SV('smtp'), 'email')), (None, nilerr())]))
    H.ex.ptr_nilable = False      # pointers reachable from the state / profiles are non-nil by construction; the nil-able ones are listed below
    path = z3.String('url.path')
    hints = [(re.compile(r'^\*r\.TLS$'), lambda ex, st, tid, name: _choice_nil(ex, st, tid, name)), pin(r'^\*state\.oktaUsernameFilterRE$', NIL),
             pin(r'^\*\*r\.URL\.Path$', path), lens(r'^len\(\*r\.(Post)?Form\[', [1]), lens(r'^req\.ncookies$', [0, 1]),
             lens(r'^len\(\*state\.caCertDer\)$', [1]), lens(r'KeymasterPublicKeys\)$', [1]), lens(r'OpenIDConnectIDP\.Client\)$', [0, 1])]
    if sealed:
        hints += [pin(r'^\*state\.(Signer|Ed25519Signer)$', IfaceV(None, None)), lens(r'^len\(\*state\.caCertDer\)$', [0]), lens(r'KeymasterPublicKeys\)$', [0])]
    else:
        hints += [nonnil_iface(r'^\*state\.Signer$', 'mainSigner')]
    H.add_hints(*hints)
    # cloud-role issuer wiring (config.go: aws_identity_cert.New(Params{CertificateGenerator: state.generateRoleCert, ...}))
    gen = f'(*{M}.RuntimeState).generateRoleCert'
    H.stub('verif.failureWriter', lambda ex, s, a, ins: s.ev('fail', code=a[3], msg=a[2]) and None)
    H.stub('verif.accountOK', lambda ex, s, a, ins: z3.Bool('accountAllowed'))
    def caller_identity(ex, s, a, ins):
        def ok(s2):
            s2.ev('aws.identity'); return (ex.fresh(s2, ex.ir.under(ins['type'])[1]['elems'][0], 'arn'), nilerr())
        return fork_results(ex, s, ins, [(None, lambda s2: (ex.zero(ins['type'])[0], mk_error(s2, SV('sts'), 'sts'))), (None, ok)])
    H.stub(KM + '/lib/server/aws_identity_cert.getCallerIdentity', caller_identity)
    H.stub_pat(r'^io/ioutil\.ReadAll$|^io\.ReadAll$', lambda ex, s, a, ins: fork_results(ex, s, ins, [(None, lambda s2: (NILSLICE(), mk_error(s2, SV('read'), 'read'))), (None, (BytesV(z3.String(lib.rk(s, 'req.body'))), nilerr()))]))
    def pem_encode(ex, s, a, ins):
        s.ev('resp.write', data=BytesV(z3.Function('pem.Encode', z3.StringSort(), z3.StringSort())(issue.pem_bytes(ex, s, a[1]))), via='pem.Encode', w=a[0]); return nilerr()
    H.stub('encoding/pem.Encode', pem_encode)
    H.add_hints(nonnil_iface(r'awsCertIssuer\.params\.Logger$'), nonnil_iface(r'^\*r\.Body$'),
                pin(r'awsCertIssuer\.params\.FailureWriter$', FuncV('verif.failureWriter')), pin(r'awsCertIssuer\.params\.AccountIdValidator$', FuncV('verif.accountOK')),
                pin(r'awsCertIssuer\.params\.CertificateGenerator$', lambda ex, st, tid, name: FuncV(gen + '$bound', [st.aux['stateptr']])))
    if extra: extra(H)
    st, state, w, r = H.mkstate()
    st.aux['stateptr'] = state
    if route.get('path') and route['path'].endswith('/') and len(route['path']) > 1:
        st.pc.append(z3.PrefixOf(SV(route['path']), path))
    elif route.get('path'):
        st.pc.append(path == SV(route['path']) if route['path'] != '/' else z3.PrefixOf(SV('/'), path))
    return H, st, state, w, r, path


def run_route(ir, route, **kw):
    H, st, state, w, r, path = mkrun(ir, route, **kw)
    h = route['handler']
    if not isinstance(h, str) or h not in ir.funcs: return H, None, path
    fn = ir.funcs[h]
    np = len(fn['params'] or [])
    args = [state, w, r] if np == 3 else ([w, r] if np == 2 else None)
    if args is None: return H, None, path
    paths = H.run(h, st, args)
    return H, paths, path


def parallel(fn, items, nproc=None):
    """run fn(item) -> picklable result for every item in forked worker processes (route sweeps are independent per route)"""
    import multiprocessing as mp, os
    nproc = nproc or max(2, min(14, (os.cpu_count() or 4) - 2))
    if len(items) <= 1 or os.environ.get('SYMX_SERIAL'): return [fn(x) for x in items]
    ctx = mp.get_context('fork')
    with ctx.Pool(nproc) as pool:
        return pool.map(fn, items, chunksize=1)
