import sys; sys.path.insert(0,'/verif')
from checks.c04 import *
from symx.check import Check
import traceback
chk = Check('C04','quick'); ir = chk.load_ir()
H, issuer = base(ir, budget=150); ex = H.ex
sql_model(H, ir)
ex.go_inline = re.compile(r'GetSigned\$')
st, state, w, r = H.mkstate(); user = z3.String('requested.user'); dtype = z3.BitVec('requested.type', 64)
import symx.engine as E
orig = E.Exec.run
st.frames.append(E.Frame(ir.funcs[f'(*{M}.RuntimeState).GetSigned'], [state, user, dtype]))
work=[st]
try:
    while work:
        s = work.pop()
        try:
            more = ex.step_until_fork(s); work.extend(more)
        except (E.Panic, E.PathCut, E.Unsupported) as e: pass
except KeyError:
    traceback.print_exc()
