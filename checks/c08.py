"""C08 — users manage only themselves; administration needs admin rights (+ U2F).

 1. route sweep (route table from main's SSA), checkAuth = gate stub admitting an arbitrary (actor, level); adm(.) = uninterpreted predicate
    standing for the directory/name lookup.  At every profile save / delete / load-for-display / user listing the solver decides:
      target != actor  =>  adm(actor)                                   (all routes)
      ... and level has the U2F bit                                     (token management / registration routes)
      list / add / delete user, bootstrap OTP                =>  adm(actor)
      automation certificate signed  =>  (adm(actor) or actor in AutomationAdmins) and isAutomationUser(role)
 2. admin-cache lemma: IsAdminUser + admincache get/put/isValid from SSA, two consecutive calls at arbitrary instants t1 <= t2 from an
    arbitrary cache entry: a verdict older than five minutes is never returned without consulting the directory, and the directory's answer
    (when it answers) is what is returned.
"""
import time, z3, re
from symx.check import run_check, term, model_dict
from symx.engine import *
from symx.harness import *
from symx import lib, authmodel as am, gate, sweep, issue
from symx.lib import M, KM, nilerr, mk_error, fork_results

SV = z3.StringVal
S = z3.StringSort()
ADM = z3.Function('adm', S, z3.BoolSort())
AUTOMATION = z3.Function('isAutomationUser', S, z3.BoolSort())
TOKEN_ROUTES = ('/api/v0/manageU2FToken', '/api/v0/manageTOTPToken', '/u2f/RegisterRequest/', '/u2f/RegisterResponse/', '/webauthn/RegisterRequest/', '/webauthn/RegisterFinish/',
                '/totp/GenerateNew/', '/totp/ValidateNew/', '/api/v0/VerifyTOTP')
ADMIN_ROUTES = ('/users/', '/admin/addUser', '/admin/deleteUser', '/admin/newBoostrapOTP')
SELF_ROUTES = ('/profile/',) + TOKEN_ROUTES
SUMMARIES = ['userHasU2FTokens', 'userBootstrapOtpHash', 'getRequiredWebUIAuthLevel', 'idpOpenIDCGenericIsCorsOriginAllowed', 'CorsOriginAllowed', 'CanRedirectToURL']
_IR = None


def route_worker(rt):
    ir = _IR
    out = {'path': rt['path'], 'viol': [], 'paths': 0, 'effects': 0, 'inconclusive': None, 'wall': 0, 'transitions': 0, 'queries': 0, 'solver_s': 0, 'functions': []}
    def extra(H):
        H.no_inline = re.compile('|'.join(re.escape(x) + '$' for x in SUMMARIES) + r'|/lib/authutil\.')
        H.stub(f'(*{M}.RuntimeState).writeFailureResponse', am.st_fail)
        H.stub(f'(*{M}.RuntimeState).writeHTMLLoginPage', lambda ex, st, a, ins: st.ev('page', kind='login') and None)
        H.stub(f'(*{M}.RuntimeState).writeHTML2FAAuthPage', lambda ex, st, a, ins: (st.ev('page', kind='2fa'), nilerr())[1])
        H.add_hints(lens(r'AllowedAuthBackendsFor(Certs|WebUI)\)$', [0]), lens(r'^len\(\*r\.Header\[', [1]), lens(r'^range\(', [0, 1]), lens(r'AutomationAdmins\)$', [0, 1]), lens(r'^len\(', [0, 1]))
        H.stub(f'(*{M}.RuntimeState).IsAdminUser', lambda ex, st, a, ins: (st.ev('isadmin', user=a[1]), ADM(a[1]))[1])
        H.stub(f'(*{M}.RuntimeState).isAutomationUser', lambda ex, st, a, ins: (st.ev('automation', user=a[1]), fork_results(ex, st, ins, [(None, lambda s2: (z3.BoolVal(False), mk_error(s2, SV('x'), 'automation'))), (None, (AUTOMATION(a[1]), nilerr()))]))[1])
        H.stub('regexp.MatchString', lib.re_match)
        def decide(ex, st, what, cond_bad, site):
            r_, m = ex.model_fresh(st.pc, cond_bad, 20000)
            if r_ == 'sat': out['viol'].append((site, what, model_dict(m)))
            elif r_ == 'unknown': out['inconclusive'] = 'solver unknown'
        def effect(ex, st, e):
            adm = st.evs('admitted')
            if not adm: return           # C06's subject
            actor = adm[-1]['user']; bits = adm[-1]['bits']
            k = e['k']; out['effects'] += 1
            if k in ('save', 'delete', 'load'):
                target = e['user']
                if not (z3.is_expr(target) and z3.is_string(target)): return
                need = ADM(actor)
                if rt['path'] in TOKEN_ROUTES and k != 'load': need = z3.And(need, bits & am.U2F != 0)
                if k == 'load' and rt['path'] not in SELF_ROUTES + ADMIN_ROUTES: return
                decide(ex, st, f'{k} of another user\'s profile without administrator rights' + (' + hardware-token factor' if rt['path'] in TOKEN_ROUTES and k != 'load' else ''), z3.And(target != actor, z3.Not(need)), f'{rt["path"]}/{k}')
                if rt['path'] in ADMIN_ROUTES and k in ('save', 'delete'):
                    decide(ex, st, f'user administration ({k}) without administrator rights', z3.Not(ADM(actor)), f'{rt["path"]}/{k}/admin')
            elif k == 'getusers':
                decide(ex, st, 'user listing without administrator rights', z3.Not(ADM(actor)), f'{rt["path"]}/getusers')
            if k in ('save', 'delete', 'getusers'): raise PathCut('sink stop')
        H.ex.on_effect = effect
        # loads are effects too (viewing another user's profile)
        orig_load = sweep.st_load_profile
        def load(ex, st, a, ins):
            r = orig_load(ex, st, a, ins)
            for s in (r if type(r) is list else [st]):
                evs = s.evs('load')
                if evs and not evs[-1].get('err'): effect(ex, s, evs[-1])
            return r
        H.stub(f'(*{M}.RuntimeState).LoadUserProfile', load)
        def on_sign(ex, st, e):
            adm = st.evs('admitted')
            if not adm or rt['path'] != '/v1/getRoleRequestingCert': raise PathCut('sink')
            actor = adm[-1]['user']
            t = e['template']; PN = ex.ir.typeid('crypto/x509/pkix.Name'); role = ex.getfield(st, t['Subject'], PN, 'CommonName')
            admins = [z3.String(f'*state.Config.Base.AutomationAdmins[{i}]') for i in range(st.memo.get('len(*state.Config.Base.AutomationAdmins)', 0))]
            ok = z3.And(z3.Or([ADM(actor)] + [actor == x for x in admins]), AUTOMATION(role))
            out['effects'] += 1
            decide(ex, st, 'automation certificate minted without (automation) administrator rights or for a non-automation identity', z3.Not(ok), f'{rt["path"]}/sign')
            raise PathCut('sink')
        H.ex.on_sign = on_sign
    try:
        H, paths, path = sweep.run_route(ir, rt, budget_s=600, extra=extra, max_paths=60000)
    except Unsupported as e:
        out['inconclusive'] = str(e); return out
    if paths is None: out['inconclusive'] = 'no handler body'; return out
    out['paths'] = len(paths); out['wall'] = round(H.wall, 1); out['transitions'] = sum(p.decisions for p in paths) + len(paths)
    out['queries'] = H.ex.nq; out['solver_s'] = H.ex.tsolve; out['functions'] = sorted(H.ex.encoded)
    bad = [p for p in paths if p.status in ('unsupported', 'unwind')]
    if bad: out['inconclusive'] = bad[0].result
    return out


def ob_routes(chk, ir):
    global _IR
    _IR = ir
    t = time.time(); verdict = 'holds'; total = 0; neff = 0; nroutes = 0
    want = set(SELF_ROUTES + ADMIN_ROUTES + ('/v1/getRoleRequestingCert',))
    todo = [rt for rt in routes(ir) if rt['mux'] == 'service' and isinstance(rt['handler'], str) and rt['handler'] in ir.funcs and rt['path'] in want]
    missing = want - {rt['path'] for rt in todo}
    if missing: chk.notes.append('routes of the property not registered in this tree: ' + ', '.join(sorted(missing)))
    for rt, out in zip(todo, sweep.parallel(route_worker, todo)):
        if out['inconclusive']: chk.obligation(f'route {rt["path"]}', '-', 'inconclusive', out['inconclusive']); continue
        nroutes += 1; total += out['paths']; neff += out['effects']
        chk.states += out['paths']; chk.transitions += out['transitions']; chk.queries += out['queries']; chk.solver_s += out['solver_s']; chk.functions |= set(out['functions'])
        for site, what, md in out['viol']:
            if chk.violation('manage-only-yourself', site, what, md) == 'new': verdict = 'violated'
    if neff == 0: chk.obligation('manage-only-yourself', '-', 'inconclusive', 'vacuous'); return
    chk.witnesses += neff
    chk.obligation('manage-only-yourself: other users\' profiles/tokens need adm(actor) (+U2F for token routes); user administration needs adm(actor); automation certificates need (automation) admin + automation identity',
                   f'{nroutes} routes, all (actor, level, target, operation, index) combinations', verdict, paths=total, witness=f'{neff} effects examined', t=time.time() - t)
    chk.sample({'obligation': 'manage-only-yourself', 'routes': [rt['path'] for rt in todo], 'effects': neff})


def ob_cache(chk, ir):
    t = time.time(); name = f'(*{M}.RuntimeState).IsAdminUser'
    if name not in ir.funcs: chk.obligation('admin-cache', '-', 'inconclusive', 'ANCHOR-LOST ' + name); return
    AC = KM + '/keymasterd/admincache'
    CT = ir.typeid(AC + '.Cache'); ET = ir.typeid(AC + '.cacheEntry')
    FIVE = 5 * 60 * 10**9
    verdict = 'holds'; total = 0; n = 0
    for pre in ('entry', 'empty'):
        H = HandlerRun(ir, loop_bound=6, budget_s=100); ex = H.ex; ex.ptr_nilable = False
        H.extra_inline = re.compile(r'admincache\.')
        t1 = z3.BitVec('t1', lib.TW); t2 = z3.BitVec('t2', lib.TW); s0 = z3.BitVec('entry.Ts', lib.TW); v0 = z3.Bool('entry.IsAdmin')
        def clock_now(ex_, st, a, ins): return TimeV([t1, t2][min(st.aux.get('call', 0), 1)])
        H.stub_pat(r'admincache\.clock\.Now$|\(dyn:clock\)\.Now$', clock_now)
        def lookup(ex_, st, a, ins):
            i = st.aux.get('call', 0); v = z3.Bool(f'directory.answer{i + 1}'); st.ev('lookup', call=i, user=a[1], verdict=v)
            def ok(s): s.events[-1] = dict(s.events[-1], answered=True); return (v, nilerr())
            return fork_results(ex_, st, ins, [(None, lambda s: (z3.BoolVal(False), mk_error(s, SV('ldap'), 'lookup'))), (None, ok)])
        H.stub(f'(*{M}.RuntimeState)._IsAdminUser', lookup)
        st, state, w, r = H.mkstate()
        base = 1577836800 * 10**9
        st.pc += [t1 >= lib.T(base), t1 <= t2, t2 <= lib.T(3976214400 * 10**9), s0 <= t1, s0 >= lib.T(base - 10**18)]
        user = SV('alice')
        mapf = [f for f in ir.fields(CT) if f['name'] == 'data'][0]; mu = ir.under(mapf['type'])[1]
        mcell = {'base': None, 'elem': mu['elem'], 'key': mu['key'], 'writes': [], 'lazy': {}}
        if pre == 'entry':
            ev = [v0 if f['name'] == 'IsAdmin' else TimeV(s0) for f in ir.fields(ET)]
            mcell['writes'].append(['set', user, StructV(ev)])
        cv = []
        for f in ir.fields(CT):
            if f['name'] == 'data': cv.append(MapV(st.alloc(mcell)))
            elif f['name'] == 'clock': cv.append(IfaceV('dyn:clock', Opaque('clock')))
            elif f['name'] == 'maxDuration': cv.append(z3.BitVecVal(FIVE, 64))
            else: cv.append(Lazy(f['type'], 'cache.' + f['name']))
        cache = Ptr(st.alloc(StructV(cv)))
        H.add_hints(pin(r'^\*state\.isAdminCache$', cache))
        # call 1
        st.aux['call'] = 0
        ps1 = ex.run(name, [state, user], st); total += len(ps1)
        for p1 in ps1:
            if p1.status != 'returned': chk.absorb(ex, ps1); chk.obligation('admin-cache', pre, 'inconclusive', p1.result); return
            s2 = p1.fork(); s2.status = 'run'; s2.frames = []; s2.aux['call'] = 1
            ps2 = ex.run(name, [state, user], s2); total += len(ps2)
            for p2 in ps2:
                if p2.status != 'returned': chk.absorb(ex, ps2); chk.obligation('admin-cache', pre, 'inconclusive', p2.result); return
                n += 1
                r2 = p2.result[0]
                lk1 = [e for e in p2.evs('lookup') if e['call'] == 0]; lk2 = [e for e in p2.evs('lookup') if e['call'] == 1]
                last_attempt = t1 if lk1 else (s0 if pre == 'entry' else None)
                expired = (t2 - last_attempt >= lib.T(FIVE)) if last_attempt is not None else z3.BoolVal(True)
                if pre == 'entry' and not lk1: expired = z3.Or(expired, s0 == lib.T(lib.ZERO_NS))
                if not lk2:
                    r_, m = ex.model(p2.pc, expired)
                    if r_ == 'sat':
                        if chk.violation('admin-cache', 'IsAdminUser/stale', 'a cached administrator verdict older than five minutes is returned without consulting the directory', model_dict(m)) == 'new': verdict = 'violated'
                else:
                    if lk2[-1].get('answered'):
                        r_, m = ex.model(p2.pc, r2 != lk2[-1]['verdict'])
                        if r_ == 'sat':
                            if chk.violation('admin-cache', 'IsAdminUser/answer', 'the directory answered but another verdict is returned', model_dict(m)) == 'new': verdict = 'violated'
                # a fresh verdict (younger than five minutes, produced by an answering lookup in call 1) is what call 2 returns when it does not look up
                if lk1 and lk1[-1].get('answered') and not lk2:
                    r_, m = ex.model(p2.pc, r2 != lk1[-1]['verdict'])
                    if r_ == 'sat':
                        if chk.violation('admin-cache', 'IsAdminUser/cached', 'the cached verdict returned differs from the directory\'s last answer', model_dict(m)) == 'new': verdict = 'violated'
        chk.absorb(ex)
    if n == 0: chk.obligation('admin-cache', '-', 'inconclusive', 'vacuous'); return
    chk.witnesses += n
    chk.obligation('admin-cache: a verdict is re-evaluated once older than five minutes; the directory\'s answer is what is returned', 'two calls at arbitrary instants t1 <= t2, arbitrary / empty cache entry', verdict, paths=total, witness=f'{n} two-call histories', t=time.time() - t)


def main(chk):
    ir = chk.load_ir()
    chk.assumptions = ['adm(.) / isAutomationUser(.) are uninterpreted predicates for the directory lookups (_IsAdminUser, isAutomationUser)', 'checkAuth admits an arbitrary (actor, level) (C06)',
                       'cache pre-state invariant: entry.Ts is the instant of the last lookup attempt for that user']
    chk.bounds = {'routes': list(SELF_ROUTES + ADMIN_ROUTES) + ['/v1/getRoleRequestingCert'], 'calls': 2, 'AutomationAdmins': '0..1'}
    ob_routes(chk, ir)
    ob_cache(chk, ir)


if __name__ == '__main__':
    run_check('C08', main)
