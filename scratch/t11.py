import sys; sys.path.insert(0,'/verif')
from symx import build
from symx.engine import *
ir = build.load()
fn = ir.funcs['net.init']
import json
for b in fn['blocks']:
    for ins in b['instrs']:
        s = json.dumps(ins)
        if 'v4InV6Prefix' in s: print(b['index'], s[:400])
ex = Exec(ir); st = State()
ex.partial_init(st, 'net')
g = st.aux['G']; print('v4InV6Prefix' , [k for k in g if 'v4InV6' in k])
p = Ptr(g['net.v4InV6Prefix']); v = ex.load(st, p); print(v, st.heap.get(v.obj) if isinstance(v, SliceV) else None)
regs={}
for b in fn['blocks']:
    for ins in b['instrs']:
        if ins.get('reg') in ('t200','t199','t198','t197','t196','t195'): print(json.dumps(ins)[:300])
