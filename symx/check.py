"""Per-property check driver: obligations, verdicts, known findings, evidence, exit codes (DESIGN section 6)."""
import json, os, sys, time, hashlib, traceback, z3
from . import build

VERIF = build.VERIF
EVID = os.environ.get('VERIF_EVIDENCE') or os.path.join(VERIF, 'evidence')
KNOWN = os.path.join(VERIF, 'known_findings.json')


def term(x, limit=300):
    try:
        s = z3.simplify(x).sexpr() if z3.is_expr(x) else repr(x)
    except Exception:
        s = repr(x)
    s = ' '.join(s.split())
    return s if len(s) <= limit else s[:limit] + '…'


def model_dict(m, limit=40):
    out = {}
    if m is None: return out
    for d in m.decls()[:400]:
        n = d.name()
        if '!' in n and not n.startswith(('cookie', 'basic', 'dur', 'now')) and len(out) > limit: continue
        try:
            v = m[d]
            out[n] = v.as_long() if z3.is_int_value(v) or z3.is_bv_value(v) else (v.as_string() if z3.is_string_value(v) else str(v))
        except Exception:
            out[n] = str(m[d])
    return out


class Inconclusive(Exception): pass


class Check:
    def __init__(self, pid, tier=None, seed=None):
        self.pid = pid
        self.tier = tier or os.environ.get('VERIF_TIER') or 'quick'
        if self.tier not in ('quick', 'thorough'): self.tier = 'quick'
        try: self.seed = int(seed if seed is not None else os.environ.get('VERIF_SEED', '0'))
        except ValueError: self.seed = 0
        self.t0 = time.time()
        self.obligations = []      # dicts: name, bound, verdict, paths, queries, time, witness
        self.violations = []       # new (unlisted) violations: dict(obligation, what, model, replay)
        self.known_seen = []
        self.inconclusive = []
        self.notes = []
        self.states = 0; self.transitions = 0; self.replays = 0; self.queries = 0; self.solver_s = 0.0
        self.functions = set(); self.stubs = {}; self.havocked = {}; self.cuts = []; self.witnesses = 0
        self.assumptions = []
        self.bounds = {}
        self.samples = []
        self.cross_solver = {}; self.xpool = []
        try:
            self.known = json.load(open(KNOWN))
        except Exception:
            self.known = {'findings': [], 'fixed': []}
        self.ir = None
        import shutil
        shutil.rmtree(os.path.join(build.OUT, 'replay', self.pid), ignore_errors=True)

    # ------------------------------------------------------------ IR
    def load_ir(self, kind='server'):
        t = time.time()
        self.ir = build.load(kind)
        self.ir_s = round(time.time() - t, 2)
        return self.ir

    # ------------------------------------------------------------ bookkeeping
    def absorb(self, ex, paths=None):
        """account an executor run into the coverage counters"""
        if paths is not None:
            self.states += len(paths)
            self.transitions += sum(p.decisions for p in paths) + len(paths)
        self.queries += ex.nq; self.solver_s += ex.tsolve
        ex.nq = 0; ex.tsolve = 0.0
        self.functions |= set(ex.encoded)
        for k, v in getattr(ex, 'stub_hits', {}).items(): self.stubs[k] = self.stubs.get(k, 0) + v
        for k, v in ex.havocked.items(): self.havocked[k] = self.havocked.get(k, 0) + v
        if ex.unknowns:
            self.notes.append(f'{ex.unknowns} feasibility queries returned unknown (path kept)'); ex.unknowns = 0
        xs = getattr(ex, 'xsample', None)
        if xs:
            self.xpool += xs[:]; ex.xsample = []

    def known_for(self, obligation):
        return [f for f in self.known.get('findings', []) if f.get('property') == self.pid and f.get('obligation') == obligation]

    def obligation(self, name, bound, verdict, detail=None, paths=0, witness=None, t=None):
        """verdict: 'holds' | 'violated' | 'known' | 'inconclusive'"""
        o = {'obligation': name, 'bound': bound, 'verdict': verdict}
        if detail: o['detail'] = detail
        if paths: o['paths'] = paths
        if witness is not None: o['witness'] = witness
        if t is not None: o['time_s'] = round(t, 2)
        self.obligations.append(o)
        if verdict == 'inconclusive': self.inconclusive.append(name + ': ' + str(detail))
        return o

    def violation(self, obligation, site, what, model=None, replay_files=None, confirmed=None):
        """a counterexample; matched against known findings by (obligation, site)"""
        for f in self.known_for(obligation):
            if f.get('site') == site or f.get('site') == '*' or (f.get('site', '').endswith('*') and site.startswith(f['site'][:-1])):
                if site not in [k['site'] for k in self.known_seen if k['obligation'] == obligation]:
                    self.known_seen.append({'obligation': obligation, 'site': site, 'what': f.get('what', what)})
                return 'known'
        for v in self.violations:
            if v['obligation'] == obligation and v['site'] == site:
                v['count'] = v.get('count', 1) + 1
                return 'new'
        d = os.path.join(build.OUT, 'replay', self.pid, f'{len(self.violations):02d}-' + ''.join(c if c.isalnum() else '_' for c in obligation)[:40])
        os.makedirs(d, exist_ok=True)
        json.dump({'property': self.pid, 'obligation': obligation, 'site': site, 'what': what, 'model': model, 'confirmed_natively': confirmed},
                  open(os.path.join(d, 'counterexample.json'), 'w'), indent=1, default=str)
        for fn, content in (replay_files or {}).items():
            open(os.path.join(d, fn), 'w').write(content)
        # replay.sh: the native test when the check generated one (exit 1 = the violation reproduces on the real code), else the check itself
        tests = [fn for fn in (replay_files or {}) if fn.endswith('_test.go')]
        sh = '#!/bin/sh\n# replay of ' + self.pid + ' / ' + obligation + ' @ ' + site + '\n'
        if tests:
            import re as _re
            src = (replay_files or {})[tests[0]]; m_ = _re.search(r'^func (Test\w+)\(', src, _re.M); pk = _re.search(r'^package (\w+)', src, _re.M)
            pkgdir = {'main': 'cmd/keymasterd', 'certgen': 'lib/certgen', 'eventrecorder': 'eventmon/eventrecorder', 'ldap': 'lib/pwauth/ldap'}.get(pk.group(1) if pk else 'main', 'cmd/keymasterd')
            ovj = os.path.join(d, 'overlay.json')
            rep = {os.path.join(build.REPO, pkgdir, tests[0]): os.path.join(d, tests[0])}
            if 'zzVerifSaveHook' in src:
                from . import replay as _rp
                for virt, content in (_rp.storage_with_save_hook() or {}).items():
                    rp_ = os.path.join(d, 'overlay_' + os.path.basename(virt)); open(rp_, 'w').write(content); rep[virt] = rp_
            json.dump({'Replace': rep}, open(ovj, 'w'))
            sh += f"# exit status 1 (test FAIL) = the violation reproduces on the real code\ncd {build.REPO} && GOFLAGS=-mod=mod GOPROXY=off go test -vet=off -count=1 -overlay {ovj} -run '^{m_.group(1) if m_ else 'Test'}$' ./{pkgdir}/\n"
        else:
            sh += f"# no native test for this obligation: re-run the check (exit 1 + VIOLATION line = still violated)\ncd {VERIF} && ./run {self.pid} {self.tier}\n"
        open(os.path.join(d, 'replay.sh'), 'w').write(sh); os.chmod(os.path.join(d, 'replay.sh'), 0o755)
        self.violations.append({'obligation': obligation, 'site': site, 'what': what, 'model': model, 'replay': d, 'confirmed': confirmed})
        return 'new'

    def sample(self, s):
        if len(self.samples) < 12: self.samples.append(s)

    # ------------------------------------------------------------ finish
    def cross_solver_diff(self):
        """a sample of the oracle queries this run decided is re-decided by the other solver binaries (z3 4.8.12, z3 5.1.0 CLI, cvc5)"""
        import random
        from . import portfolio
        if not self.xpool: return
        rnd = random.Random(self.seed or 1); pool = self.xpool[:]; rnd.shuffle(pool)
        k = 6 if self.tier == 'quick' else 30
        res = {'sampled': 0, 'agree': 0, 'unknown_elsewhere': 0, 'disagree': 0, 'solvers': set()}
        t0 = time.time()
        for pc, extra, verdict in pool[:k]:
            if time.time() - t0 > (60 if self.tier == 'quick' else 400): break
            outs = portfolio.cross_check(list(pc) + ([extra] if extra is not None else []), timeout_s=15)
            if not outs: continue
            res['sampled'] += 1; res['solvers'] |= set(outs)
            vs = [v for v in outs.values() if v != 'unknown']
            if any(v != verdict for v in vs):
                res['disagree'] += 1
                # the other solvers outvote the in-process verdict => nothing this run says is believed; a single dissenter is recorded
                if sum(1 for v in vs if v != verdict) * 2 > len(vs): self.obligation('cross-solver', '-', 'inconclusive', f'solvers disagree on a query this run decided {verdict}: {outs}')
                else: self.notes.append(f'cross-solver: one solver dissents on a query decided {verdict}: {outs}')
            elif vs: res['agree'] += 1
            else: res['unknown_elsewhere'] += 1
        res['solvers'] = sorted(res['solvers'])
        self.cross_solver = res

    def finish(self):
        try: self.cross_solver_diff()
        except Exception as e: self.notes.append(f'cross-solver diff skipped: {type(e).__name__}: {e}')
        wall = time.time() - self.t0
        nviol = len(self.violations)
        files = {}
        if self.ir is not None:
            for fn in sorted(self.functions):
                f = self.ir.funcs.get(fn)
                if f and f.get('pos'):
                    p = f['pos'].rsplit(':', 1)[0]
                    rel = os.path.relpath(p, build.REPO) if p.startswith(build.REPO) else p
                    files[fn] = self.ir.files.get(rel, 'stdlib/dep')[:16]
        discharged = sum(1 for o in self.obligations if o['verdict'] in ('holds', 'known'))
        cov = {
            'states': max(self.states, 0), 'transitions': max(self.transitions, 0),
            'traces_validated_against_impl': self.replays,
            'samples': self.samples or [o for o in self.obligations[:6]],
            'obligations': len(self.obligations), 'discharged': discharged,
            'obligation_list': self.obligations,
            'queries': self.queries, 'solver_s': round(self.solver_s, 2),
            'functions_encoded': files, 'bounds': self.bounds,
            'stubs': self.stubs, 'havocked_callees': self.havocked, 'cuts': self.cuts,
            'reachability_witnesses': self.witnesses,
            'known_findings_seen': self.known_seen, 'notes': self.notes,
            'tree_hash': getattr(self.ir, 'tree_hash', None), 'cross_solver': self.cross_solver,
            'inconclusive': self.inconclusive,
            'explanation': 'bounded symbolic execution of the real go/ssa of /repo with z3; states = symbolic paths, transitions = branch decisions + path ends',
        }
        ev = {'property_id': self.pid, 'tier': self.tier, 'seed': self.seed, 'level': 'model_checking', 'coverage': cov,
              'assumptions': self.assumptions, 'wall_s': round(wall, 2), 'violations': nviol}
        os.makedirs(EVID, exist_ok=True)
        tmp = os.path.join(EVID, f'.{self.pid}.json.tmp')
        json.dump(ev, open(tmp, 'w'), indent=1, default=str)
        os.replace(tmp, os.path.join(EVID, f'{self.pid}.json'))
        for k in self.known_seen:
            print(f"KNOWN-FINDING: property={self.pid} {k['obligation']} @ {k['site']}: {k['what']}")
        for o in self.obligations:
            print(f"  [{o['verdict']:>12}] {o['obligation']}  ({o['bound']})" + (f" — {o.get('detail')}" if o.get('detail') and o['verdict'] != 'holds' else ''))
        print(f'{self.pid} {self.tier}: obligations={len(self.obligations)} discharged={discharged} paths={self.states} queries={self.queries} solver={self.solver_s:.1f}s wall={wall:.1f}s')
        if nviol:
            for v in self.violations:
                print(f"  violation: {v['obligation']} @ {v['site']}: {v['what']}")
                print(f"VIOLATION property={self.pid} replay={v['replay']}")
            sys.exit(1)
        if self.inconclusive:
            for i in self.inconclusive: print('INCONCLUSIVE', i)
            sys.exit(2)
        sys.exit(0)


def run_check(pid, fn):
    """entry point used by checks/*.py: fn(chk) performs the obligations"""
    tier = sys.argv[1] if len(sys.argv) > 1 else None
    chk = Check(pid, tier)
    try:
        fn(chk)
    except SystemExit:
        raise
    except Exception as e:
        traceback.print_exc()
        chk.obligation('driver', '-', 'inconclusive', f'{type(e).__name__}: {e}')
    chk.finish()
