"""C15 — profiles survive storage round trips; the offline cache mirrors the primary.

 1. synchronisation (copyDBIntoSQLite from SSA over the database/sql model of symx/sqlmodel.py): the cache's previous content is
    ARBITRARY (z3 arrays), the primary holds 0..2 users and 0..2 signed records with symbolic keys, contents and expiry; every SQL call
    can fail (a fork per call) and a crash is considered after every call.  Claims: (a) a completed synchronisation leaves the cache
    equal to the primary's users and unexpired signed records (additions, changes AND deletions); (b) at every point of every run
    - completed, failed or interrupted - the cache's committed content is its previous content or the new content, never a mixture.
 2. outage: every route executed with the storage boundary answering from the cache (fromCache symbolic): no profile save / delete /
    signed-record write happens on a path on which a load of that request was served from the cache; logins and second-factor checks
    have accepting paths under fromCache (reachability witnesses).
 3. round trip: SaveUserProfile / LoadUserProfile executed from SSA over the same SQL model with gob as its contract (decode(encode(x)) = x
    for gob-encodable x): the bytes written for user u are the bytes handed to the decoder on the next load of u, from the primary and,
    after a completed synchronisation, from the cache.  That userProfile is gob-encodable is decided structurally from the SSA types
    (every field exported or covered by a Binary/Gob marshaller, no func/chan/unregistered-interface component).
"""
import time, z3, re, itertools
from symx.check import run_check, term, model_dict
from symx.engine import *
from symx.harness import *
from symx import lib, authmodel as am, gate, sweep, sqlmodel as sq, replay
from symx.lib import M, nilerr, mk_error, fork_results

SV = z3.StringVal
COPY = f'{M}.copyDBIntoSQLite'
_IR = None


def source_rows(nu, ns):
    users = [(z3.String(f'src.user{i}'), z3.String(f'src.profile{i}')) for i in range(nu)]
    signed = [(z3.String(f'src.signed{i}.user'), z3.BitVec(f'src.signed{i}.type', 64), z3.String(f'src.signed{i}.jws'), z3.BitVec(f'src.signed{i}.exp', 64), z3.BitVec(f'src.signed{i}.upd', 64)) for i in range(ns)]
    distinct = [users[i][0] != users[j][0] for i in range(nu) for j in range(i)]
    distinct += [z3.Or(signed[i][0] != signed[j][0], signed[i][1] != signed[j][1]) for i in range(ns) for j in range(i)]
    return users, signed, distinct


def sync_worker(item):
    ir = _IR; nu, ns = item
    out = {'shape': item, 'viol': [], 'inconclusive': None, 'paths': 0, 'queries': 0, 'solver_s': 0.0, 'functions': [], 'transitions': 0, 'completed': 0, 'crash_points': 0}
    H = HandlerRun(ir, loop_bound=max(nu, ns) + 4, budget_s=200); ex = H.ex; ex.ptr_nilable = False
    users, signed, distinct = source_rows(nu, ns)
    old = sq.arbitrary_tables('cache.old')
    mk = sq.install(H, {'src': sq.DB('src', sq.tables_from_rows(users, signed), {'users': users, 'signed': signed}), 'dst': sq.DB('dst', old)})
    st, state, w, r = H.mkstate(); ptrs = mk(st); st.pc += distinct
    paths = ex.run(COPY, [ptrs['src'], ptrs['dst'], SV('sqlite')], st)
    k1, k2 = z3.String('witness.user1'), z3.String('witness.user2')
    u1, u2 = z3.String('witness.suser1'), z3.String('witness.suser2'); t1, t2 = z3.BitVec('witness.stype1', 64), z3.BitVec('witness.stype2', 64)
    for p in paths:
        if p.status in ('unsupported', 'unwind'): out['inconclusive'] = str(p.result); continue
        if p.status == 'panic': out['viol'].append(('copyDBIntoSQLite/panic', 'the synchronisation panics: ' + str(p.result), None)); continue
        if p.status != 'returned': continue
        args = p.aux.get('sqlargs') or []
        theta = args[0][0] if args and args[0] else None
        if theta is None: theta = z3.BitVec('theta.unused', 64)
        new = sq.empty_tables()
        for u, d in users: new = sq.put_user(new, u, d)
        for (u, ty, j, e, up) in signed:
            kept = sq.put_signed(new, u, ty, j, e, up)
            new = {k: z3.If(e > theta, kept[k], new[k]) for k in new}
        def differs(c, other, k, u, ty, what):
            parts = []
            if what in ('users', 'both'): parts.append(sq.users_differ(c, other, k))
            if what in ('signed', 'both'): parts.append(sq.signed_differ(c, other, u, ty, theta))
            return z3.Or(parts)
        evs = p.evs('sql'); final = {n: d['tables'] for n, d in p.aux['sql'].items()}
        ok_run = isinstance(p.result, IfaceV) and p.result.tid is None or (isinstance(p.result, (list, tuple)) and isinstance(p.result[0], IfaceV) and p.result[0].tid is None)
        # (b) old-or-new at every crash point (after every SQL call) and at the end
        points = [(e['op'] + ' ' + e.get('text', ''), e['committed']['dst']) for e in evs] + [('return', final['dst'])]
        seen = set()
        for label, c in points:
            key = tuple(c[k].get_id() for k in sorted(c))
            if key in seen: continue
            seen.add(key); out['crash_points'] += 1
            cond = z3.And(differs(c, old, k1, u1, t1, 'both'), differs(c, new, k2, u2, t2, 'both'))
            res, m = ex.model_fresh(p.pc, cond, 60000)
            if res == 'unknown': out['inconclusive'] = 'solver unknown (old-or-new)'
            if res == 'sat':
                out['viol'].append((f'copyDBIntoSQLite/mixture/after {label.strip()[:40]}', f'after "{label.strip()}" the cache holds neither its previous nor the new content (a crash or failure here leaves a mixture)', model_dict(m) if m is not None else None))
        # (a) completed synchronisation mirrors the primary
        if ok_run:
            out['completed'] += 1
            for what in ('users', 'signed'):
                res, m = ex.model_fresh(p.pc, differs(final['dst'], new, k1, u1, t1, what), 60000)
                if res == 'unknown': out['inconclusive'] = 'solver unknown (mirror)'
                if res == 'sat':
                    steps = [e['op'] for e in evs]
                    out['viol'].append((f'copyDBIntoSQLite/completed/{what}', f'a completed synchronisation leaves the cache\'s {what} different from the primary\'s (a row of the previous cache content survives or a primary row is missing)', {'model': model_dict(m) if m is not None else None, 'sql_steps': steps}))
    out['paths'] = len(paths); out['transitions'] = sum(p.decisions for p in paths) + len(paths)
    out['queries'] = ex.nq; out['solver_s'] = ex.tsolve; out['functions'] = sorted(ex.encoded)
    return out


def ob_sync(chk, ir):
    global _IR
    _IR = ir
    t = time.time(); verdict = 'holds'
    if COPY not in ir.funcs: chk.obligation('sync', '-', 'inconclusive', 'ANCHOR-LOST ' + COPY); return
    maxn = 2 if chk.tier == 'quick' else 3
    shapes = [(a, b) for a in range(maxn + 1) for b in range(maxn + 1)]
    res = sweep.parallel(sync_worker, shapes)
    npaths = ncomp = ncrash = 0; done = set()
    for shape, out in zip(shapes, res):
        if out['inconclusive']: chk.obligation(f'sync shape {shape}', '-', 'inconclusive', out['inconclusive']); continue
        if out['completed'] == 0: chk.obligation(f'sync shape {shape}', '-', 'inconclusive', 'vacuous: no run of the synchronisation completes for this primary content'); continue
        npaths += out['paths']; ncomp += out['completed']; ncrash += out['crash_points']
        chk.states += out['paths']; chk.transitions += out['transitions']; chk.queries += out['queries']; chk.solver_s += out['solver_s']; chk.functions |= set(out['functions'])
        for site, what, md in out['viol']:
            confirmed = None; files = None
            if '/completed/' in site and 'native' not in done:
                done.add('native')
                okr, txt = replay.go_test('cmd/keymasterd', 'zz_verif_c15_test.go', replay.GO_SYNC_DELETIONS, 'TestVerifC15SyncMirrorsDeletions')
                chk.replays += 1; confirmed = (okr is False) if okr is not None else None
                files = {'zz_verif_c15_test.go': replay.GO_SYNC_DELETIONS, 'native_output.txt': txt[-3000:]}
            r_ = chk.violation('sync', site, what, md, replay_files=files, confirmed=confirmed)
            if r_ == 'new': verdict = 'violated'
            elif verdict == 'holds': verdict = 'known'
    if ncomp == 0: chk.obligation('sync', '-', 'inconclusive', 'vacuous: no completed synchronisation'); return
    chk.witnesses += ncomp
    chk.obligation('sync: a completed synchronisation makes the cache equal to the primary (users; unexpired signed records) and at every point of every run - failure injected at every SQL call, crash after every call - the cache holds its previous or the new content',
                   f'primary with 0..{maxn} users x 0..{maxn} signed records (symbolic keys/contents/expiry), cache pre-state arbitrary (arrays), a fault at every SQL call', verdict, paths=npaths, witness=f'{ncomp} completed runs, {ncrash} distinct crash points', t=time.time() - t)
    chk.sample({'obligation': 'sync', 'shapes': shapes, 'completed': ncomp, 'crash_points': ncrash})


SAVE = f'(*{M}.RuntimeState).SaveUserProfile'
LOGIN = f'(*{M}.RuntimeState).loginHandler'
TRYSELF = f'(*{M}.RuntimeState).trySelfServiceGenerateBootstrapOTP'
DELETE = f'(*{M}.RuntimeState).DeleteUserProfile'
SUMMARIES = ['userHasU2FTokens', 'getPreferredAcceptType', 'setSecurityHeaders', 'getRequiredWebUIAuthLevel', 'getClientType', 'metricLogAuthOperation', 'profileURI', 'idpOpenIDCGenericIsCorsOriginAllowed', 'CorsOriginAllowed', 'CanRedirectToURL']


def outage_worker(rt):
    ir = _IR
    out = {'root': rt['path'], 'viol': [], 'inconclusive': None, 'paths': 0, 'queries': 0, 'solver_s': 0.0, 'functions': [], 'transitions': 0, 'effects': 0, 'cache_accepts': 0}
    def extra(H):
        H.stub(f'(*{M}.RuntimeState).writeFailureResponse', am.st_fail)
        H.add_hints(lens(r'^len\(split!', [3, 4]), lens(r'^range\(', [0, 1]), lens(r'OpenIDConnectIDP\.Client\)$', [0]))
        H.no_inline = re.compile('|'.join(re.escape(x) + '$' for x in SUMMARIES) + r'|/lib/authutil\.')
        H.ex.go_inline = re.compile(r'SaveUserProfile$')
        H.stub(f'(*{M}.RuntimeState).writeHTMLLoginPage', lambda ex, st, a, ins: st.ev('page', kind='login') and None)
        H.stub(f'(*{M}.RuntimeState).writeHTML2FAAuthPage', lambda ex, st, a, ins: (st.ev('page', kind='2fa'), nilerr())[1])
        H.stub(f'{M}.getLoginDestination', sweep.st_filtered_destination)
        H.stub('crypto/sha512.Sum512', lambda ex, st, a, ins: ex.zero(ins['type']))
        def on_effect(ex, st, e):
            if e['k'] not in ('save', 'delete'): return
            out['effects'] += 1
            for l in st.evs('load'):
                if l.get('err'): continue
                cond = z3.And(l['fromCache'], l['user'] == e['user'])
                res, m = ex.model_fresh(st.pc, cond, 30000)
                if res == 'unknown': out['inconclusive'] = 'solver unknown (outage)'
                if res == 'sat':
                    out['viol'].append((f"{rt['path']}/{e['k']}-after-cached-load/{ex.where(st).split(' ')[0].split('.')[-1].strip(')')}", f"the profile is {'saved' if e['k'] == 'save' else 'deleted'} although it was served from the offline cache (primary unreachable): a stale cached copy can overwrite the primary", model_dict(m) if m is not None else None))
        H.ex.on_effect = on_effect
        if rt['handler'] == LOGIN and SAVE not in ir.reachable([LOGIN], within=lambda f: f != TRYSELF):
            # the only profile write of the login endpoint is inside trySelfServiceGenerateBootstrapOTP (call graph): paths are ended at the
            # statement that follows that call (the rest of the handler only builds the response)
            def past(ex, st, args):
                if st.frames and st.frames[-1].fn['name'] == LOGIN: raise PathCut('login: past its only profile write')
            H.ex.on_call[f'(*{M}.RuntimeState).userBootstrapOtpHash'] = past
    try:
        H, paths, path = sweep.run_route(ir, rt, budget_s=600, extra=extra, max_paths=40000, loop_bound=5)
    except Unsupported as e:
        out['inconclusive'] = str(e); return out
    if paths is None: out['inconclusive'] = 'no handler body'; return out
    ex = H.ex; ex.deadline = None
    for p in paths:
        if p.status in ('unsupported', 'unwind'): out['inconclusive'] = out['inconclusive'] or str(p.result)
        # witness: a session is granted / raised while every load of the path came from the cache
        if p.status in ('returned', 'cut') and (p.evs('mint') or p.evs('setcookie')) and p.evs('load'):
            lds = [l for l in p.evs('load') if not l.get('err')]
            if lds and ex.feasible(p.pc, z3.And([l['fromCache'] for l in lds])): out['cache_accepts'] += 1
    out['paths'] = len(paths); out['transitions'] = sum(p.decisions for p in paths) + len(paths)
    out['queries'] = ex.nq; out['solver_s'] = ex.tsolve; out['functions'] = sorted(ex.encoded)
    return out


def ob_outage(chk, ir):
    global _IR
    _IR = ir
    t = time.time(); verdict = 'holds'
    todo = []
    for rt in routes(ir):
        h = rt['handler']
        if not (isinstance(h, str) and h in ir.funcs): continue
        reach = ir.reachable([h])
        if SAVE in reach or DELETE in reach: todo.append(rt)
    res = sweep.parallel(outage_worker, todo)
    npaths = neff = nacc = 0; accepting = []
    for rt, out in zip(todo, res):
        if out['inconclusive']: chk.obligation(f'outage route {rt["path"]}', '-', 'inconclusive', out['inconclusive']); continue
        npaths += out['paths']; neff += out['effects']; nacc += out['cache_accepts']
        if out['cache_accepts']: accepting.append(rt['path'])
        chk.states += out['paths']; chk.transitions += out['transitions']; chk.queries += out['queries']; chk.solver_s += out['solver_s']; chk.functions |= set(out['functions'])
        seen = set()
        for site, what, md in out['viol']:
            if site in seen: continue
            seen.add(site)
            r_ = chk.violation('outage-no-profile-change', site, what, md)
            if r_ == 'new': verdict = 'violated'
            elif verdict == 'holds': verdict = 'known'
    if neff == 0: chk.obligation('outage-no-profile-change', '-', 'inconclusive', 'vacuous: no profile write examined'); return
    chk.witnesses += neff
    chk.obligation('outage-no-profile-change: no profile is saved or deleted on a path on which that profile was served from the offline cache',
                   f'{len(todo)} routes that can reach a profile write, fromCache symbolic per load', verdict, paths=npaths, witness=f'{neff} profile writes examined', t=time.time() - t)
    want = {'/api/v0/login', '/api/v0/TOTPAuth', '/u2f/SignResponse', '/webauthn/AuthFinish/'} & {rt['path'] for rt in todo}
    miss = sorted(want - set(accepting))
    chk.obligation('outage-logins-continue: password login and second-factor checks have accepting paths while every profile load is answered from the cache',
                   'reachability witnesses per route', 'holds' if not miss else 'inconclusive', paths=npaths, witness=f'accepting under fromCache: {sorted(accepting)}', **({'detail': 'no accepting cached path found for ' + ', '.join(miss)} if miss else {}))
    chk.sample({'obligation': 'outage', 'routes': [rt['path'] for rt in todo], 'accepting_from_cache': sorted(accepting)})


LOADP = f'(*{M}.RuntimeState).LoadUserProfile'


def gob_contract(H):
    """encoding/gob as its contract: Encode(x) writes a term g naming the value; Decode of g yields a copy of that value; Decode of other
    bytes yields an error or an arbitrary profile.  Every Decode leaves an event with the bytes it was handed."""
    from symx import store
    ex = H.ex
    H.stub('encoding/gob.NewEncoder', lambda ex_, st, a, ins: Ptr(st.alloc(Opaque('gobenc', target=a[0].val if isinstance(a[0], IfaceV) else a[0]))))
    def encode(ex_, st, a, ins):
        enc = st.heap[a[0].obj]; v = a[1].val if isinstance(a[1], IfaceV) else a[1]
        def ok(s):
            n = len(s.aux.setdefault('gob', {})); g = z3.String(f'gob.encoding{n}')
            s.aux['gob'][str(g)] = store.deep_copy(ex_, s, ex_.load(s, v)) if isinstance(v, Ptr) else v
            s.heap[enc.target.obj] = {'buf': g}; s.ev('gob.encode', data=g); return nilerr()
        return fork_results(ex_, st, ins, [(None, lambda s: mk_error(s, SV('gob: encode'), 'gob')), (None, ok)])
    H.stub('(*encoding/gob.Encoder).Encode', encode)
    H.stub('bytes.NewReader', lambda ex_, st, a, ins: Ptr(st.alloc(Opaque('reader', data=a[0]))))
    H.stub('encoding/gob.NewDecoder', lambda ex_, st, a, ins: Ptr(st.alloc(Opaque('gobdec', src=a[0].val if isinstance(a[0], IfaceV) else a[0]))))
    def decode(ex_, st, a, ins):
        dec = st.heap[a[0].obj]; rd = st.heap[dec.src.obj]; data = rd.data.s if isinstance(rd.data, BytesV) else rd.data
        tgt = a[1].val if isinstance(a[1], IfaceV) else a[1]
        st.ev('gob.decode', data=data)
        alts = [(None, lambda s: mk_error(s, SV('gob: decode'), 'gob'))]
        for name, snap in (st.aux.get('gob') or {}).items():
            g = z3.String(name)
            def hit(s, snap=snap):
                ex_.store(s, tgt, store.deep_copy(ex_, s, snap)); return nilerr()
            alts.append((data == g, hit))
        others = z3.And([data != z3.String(n) for n in (st.aux.get('gob') or {})] + [z3.BoolVal(True)])
        def other(s):
            s.counter += 1; UP = ex_.ir.typeid(M + '.userProfile'); ex_.store(s, tgt, ex_.materialise(s, Lazy(UP, f'decoded!{s.counter}'))); return nilerr()
        alts.append((others, other))
        return fork_results(ex_, st, ins, alts)
    H.stub('(*encoding/gob.Decoder).Decode', decode)


def roundtrip_worker(item):
    ir = _IR; dbtype, leg, shape = item
    out = {'item': item, 'viol': [], 'inconclusive': None, 'paths': 0, 'queries': 0, 'solver_s': 0.0, 'functions': [], 'transitions': 0, 'readbacks': 0}
    H = HandlerRun(ir, loop_bound=6, budget_s=200); ex = H.ex; ex.ptr_nilable = False
    gob_contract(H)
    ex.go_inline = re.compile(r'LoadUserProfile\$')
    user = z3.String('u'); other = z3.String('other.user')
    rows = None
    if leg == 'cache':
        users = {'empty': [], 'other': [(other, z3.String('other.data'))], 'same': [(user, z3.String('previous.data'))]}[shape]
        rows = {'users': users, 'signed': []}
    prim = sq.tables_from_rows(rows['users'], []) if rows is not None else sq.arbitrary_tables('primary')
    mk = sq.install(H, {'db': sq.DB('db', prim, rows), 'cache': sq.DB('cache', sq.arbitrary_tables('cache.old'))})
    holder = {}
    H.add_hints(pin(r'^\*state\.db$', lambda ex_, st, tid, name: holder['ptrs']['db']), pin(r'^\*state\.cacheDB$', lambda ex_, st, tid, name: holder['ptrs']['cache']),
                pin(r'^\*state\.dbType$', SV(dbtype)))
    st, state, w, r = H.mkstate(); holder['ptrs'] = mk(st); st.pc.append(other != user)
    UP = ir.typeid(M + '.userProfile')
    prof = Ptr(st.alloc(Lazy(UP, '*saved.profile')))
    saves = ex.run(SAVE, [state, user, prof], st)
    allp = list(saves)
    def bad(p): return p.status in ('unsupported', 'unwind', 'panic')
    for s1 in saves:
        if bad(s1): out['inconclusive'] = str(s1.result); continue
        if s1.status != 'returned' or not (isinstance(s1.result[0] if isinstance(s1.result, (list, tuple)) else s1.result, IfaceV) and (s1.result[0] if isinstance(s1.result, (list, tuple)) else s1.result).tid is None): continue
        enc = s1.evs('gob.encode')
        if not enc: out['viol'].append(('SaveUserProfile/no-encoding', 'SaveUserProfile reports success without encoding the profile', None)); continue
        g = enc[-1]['data']
        mids = [s1]
        if leg == 'cache':
            mids = []
            s2 = s1.fork(); s2.status = 'run'; s2.frames = []
            for c in ex.run(COPY, [holder['ptrs']['db'], holder['ptrs']['cache'], SV('sqlite')], s2):
                allp.append(c)
                if bad(c): out['inconclusive'] = str(c.result); continue
                res = c.result[0] if isinstance(c.result, (list, tuple)) else c.result
                if c.status == 'returned' and isinstance(res, IfaceV) and res.tid is None: mids.append(c)
        for m_ in mids:
            s3 = m_.fork(); s3.status = 'run'; s3.frames = []; nload = len(s3.evs('gob.decode'))
            for l in ex.run(LOADP, [state, user], s3):
                allp.append(l)
                if l.status == 'blocked': continue
                if bad(l): out['inconclusive'] = str(l.result); continue
                if l.status != 'returned': continue
                profile, ok, fromcache, err = l.result
                if not (isinstance(err, IfaceV) and err.tid is None): continue      # storage errors are reported, not silent
                want_cache = leg == 'cache'
                if not ex.feasible(l.pc, fromcache if want_cache else z3.Not(fromcache)): continue
                l2 = l.fork(); l2.pc.append(fromcache if want_cache else z3.Not(fromcache))
                out['readbacks'] += 1
                site = f'{leg}/{dbtype}/{shape}'
                if ex.feasible(l2.pc, z3.Not(ok)):
                    out['viol'].append((f'roundtrip/{site}/not-found', f'a profile saved successfully is reported absent when read back ({leg})', None)); continue
                decs = l2.evs('gob.decode')[nload:]
                if not decs: out['viol'].append((f'roundtrip/{site}/no-decode', 'the profile returned was not decoded from stored bytes', None)); continue
                res, mm = ex.model_fresh(l2.pc, decs[-1]['data'] != g, 30000)
                if res == 'unknown': out['inconclusive'] = 'solver unknown (roundtrip)'
                if res == 'sat': out['viol'].append((f'roundtrip/{site}/other-bytes', f'the bytes decoded on read-back ({leg}) are not the bytes SaveUserProfile wrote for that user', model_dict(mm) if mm is not None else None))
    out['paths'] = len(allp); out['transitions'] = sum(p.decisions for p in allp) + len(allp)
    out['queries'] = ex.nq; out['solver_s'] = ex.tsolve; out['functions'] = sorted(ex.encoded)
    return out


def gob_encodable(ir, tid, seen, path, problems):
    """structural: can encoding/gob carry every value of this type faithfully?  (exported fields only are transmitted; func / chan are
    refused; interface values need registration; types with Binary/Gob marshallers carry themselves)"""
    if tid in seen: return
    seen.add(tid)
    t0 = ir.types[tid]; ms = set(t0.get('mset') or [])
    if {'MarshalBinary', 'GobEncode'} & ms or {'UnmarshalBinary', 'GobDecode'} & ms: return
    k, t = ir.under(tid)[1]['kind'], ir.under(tid)[1]
    if k in ('chan', 'func', 'signature'): problems.append(f'{path}: {k}-typed field is silently dropped by gob')
    elif k == 'interface': problems.append(f'NOTE {path}: interface-typed component: gob carries registered dynamic types only and otherwise fails with an explicit error (no silent loss)')
    elif k == 'struct':
        for f in ir.fields(tid):
            if not f['name'][:1].isupper(): problems.append(f'{path}.{f["name"]}: unexported field is silently dropped by gob'); continue
            gob_encodable(ir, f['type'], seen, path + '.' + f['name'], problems)
    elif k in ('pointer', 'slice', 'array'): gob_encodable(ir, t['elem'], seen, path, problems)
    elif k == 'map': gob_encodable(ir, t['key'], seen, path + '[key]', problems); gob_encodable(ir, t['elem'], seen, path + '[]', problems)


def ob_roundtrip(chk, ir):
    global _IR
    _IR = ir
    t = time.time(); verdict = 'holds'
    items = [(d, 'primary', '-') for d in ('sqlite', 'postgres')] + [('sqlite', 'cache', s) for s in ('empty', 'other', 'same')]
    res = sweep.parallel(roundtrip_worker, items)
    npaths = nrb = 0
    for item, out in zip(items, res):
        if out['inconclusive']: chk.obligation(f'roundtrip {item}', '-', 'inconclusive', out['inconclusive']); continue
        if out['readbacks'] == 0: chk.obligation(f'roundtrip {item}', '-', 'inconclusive', 'vacuous: no successful read-back path'); continue
        npaths += out['paths']; nrb += out['readbacks']
        chk.states += out['paths']; chk.transitions += out['transitions']; chk.queries += out['queries']; chk.solver_s += out['solver_s']; chk.functions |= set(out['functions'])
        for site, what, md in out['viol']:
            r_ = chk.violation('roundtrip', site, what, md)
            if r_ == 'new': verdict = 'violated'
            elif verdict == 'holds': verdict = 'known'
    problems = []
    gob_encodable(ir, ir.typeid(M + '.userProfile'), set(), 'userProfile', problems)
    for pr in [x for x in problems if x.startswith('NOTE ')]: chk.notes.append('roundtrip: ' + pr[5:])
    for pr in [x for x in problems if not x.startswith('NOTE ')]:
        r_ = chk.violation('roundtrip', 'gob-structure/' + pr.split(':')[0], 'userProfile is not faithfully gob-encodable: ' + pr, None)
        if r_ == 'new': verdict = 'violated'
        elif verdict == 'holds': verdict = 'known'
    if nrb == 0: return
    chk.witnesses += nrb
    chk.obligation('roundtrip: the bytes decoded when a user is read back are the bytes SaveUserProfile wrote for that user - from the primary (sqlite, postgres statements) and, after a completed synchronisation, from the cache; userProfile is structurally gob-encodable',
                   'SaveUserProfile ; [copyDBIntoSQLite ;] LoadUserProfile from SSA (goroutine, channel, select/timer race, SQL model), primary pre-state arbitrary (primary leg) / empty, other user, same user (cache leg)', verdict, paths=npaths, witness=f'{nrb} read-back paths', t=time.time() - t)
    chk.sample({'obligation': 'roundtrip', 'legs': [list(i) for i in items], 'readbacks': nrb})


def main(chk):
    ir = chk.load_ir()
    chk.assumptions = ['database/sql by the model in symx/sqlmodel.py: statements recognised from their constant text; a transaction works on a copy taken at its first statement and publishes it at Commit; db.Query with a non-SELECT statement may or may not execute it (driver dependent: both explored); every call can fail',
                       'gob: decode(encode(x)) = x for gob-encodable x (library contract)']
    chk.bounds = {'primary rows': '0..2 users x 0..2 signed records (quick), 0..3 (thorough)', 'cache pre-state': 'arbitrary', 'faults': 'one failing call per run at every position (a failing call ends the function)'}
    ob_sync(chk, ir)
    ob_outage(chk, ir)
    ob_roundtrip(chk, ir)


if __name__ == '__main__':
    run_check('C15', main)
