import time, z3, re
from ir import IR
from symx import *
ir = IR('/tmp/spike/ir')
M = 'github.com/Cloud-Foundations/keymaster/cmd/keymasterd'
RS = ir.typeid(M + '.RuntimeState'); REQ = ir.typeid('net/http.Request'); AI = ir.typeid(M + '.authInfo'); STR = ir.typeid('string')
IGN = re.compile(r'log\.DebugLogger\.|SetUsername|\(\*sync\.Mutex\)|metricLog')
def default_stub(ex, st, name, args, ins):
    if IGN.search(name): return None
    raise Unsupported('no model for callee ' + name)
def run(ncfg):
    ex = Exec(ir, {}, max_paths=50000); ex.default_stub = default_stub; ex.ignore = IGN
    st = State()
    state = Ptr(st.alloc(Lazy(RS, 'state'))); r = Ptr(st.alloc(Lazy(REQ, 'r')))
    w = IfaceV(ir.typeid('*github.com/Cloud-Foundations/keymaster/lib/instrumentedwriter.LoggingWriter'), Ptr(st.alloc(Opaque('w'))))
    cfg = [z3.String(f'cfg{i}') for i in range(ncfg)]
    bits = z3.BitVec('bits', 64); user = z3.String('authUser'); path = z3.String('urlPath'); signerNil = z3.Bool('signerNil')
    def h_cfg(ex, st, tid, name): return SliceV(st.alloc(ArrayV(cfg)), 0, ncfg, ncfg)
    def h_signer(ex, st, tid, name): return IfaceV(None, None)  # overwritten per run below
    def h_form(ex, st, tid, name):
        v = z3.String(name+'!v'); return SliceV(st.alloc(ArrayV([v])), 0, 1, 1)
    ex.hints = [(r'AllowedAuthBackendsForCerts$', h_cfg), (r'URL\.Path$', lambda *a: path), (r'Form\[', h_form)]
    events = []
    def checkAuth(ex, st, args, ins):
        ai = Ptr(st.alloc(StructV([bits, Opaque('exp'), Opaque('iat'), user])))
        st.events.append(('checkAuth', args[3]))
        # fork: error or success
        s2 = st.fork(); s2.frames[-1].regs[ins['reg']] = (NIL, IfaceV(STR, Opaque('err'))); s2.events.append(('auth-fail',))
        st.frames[-1].regs[ins['reg']] = (ai, IfaceV(None, None))
        return [s2, st]
    def wfr(ex, st, args, ins):
        st.events.append(('fail', args[3])); return None
    def sink(kind):
        def f(ex, st, args, ins): st.events.append(('sign', kind)); return None
        return f
    ex.stubs = {
        f'(*{M}.RuntimeState).checkAuth': checkAuth,
        f'(*{M}.RuntimeState).writeFailureResponse': wfr,
        f'(*{M}.RuntimeState).postAuthSSHCertHandler': sink('ssh'),
        f'(*{M}.RuntimeState).postAuthX509CertHandler': sink('x509'),
        '(*net/http.Request).ParseMultipartForm': lambda ex, st, args, ins: IfaceV(None, None),
        'time.ParseDuration': lambda ex, st, args, ins: (z3.BitVec('dur', 64), IfaceV(None, None)),
        'time.Until': lambda ex, st, args, ins: z3.BitVec('until', 64),
        '(time.Time).Add': lambda ex, st, args, ins: Opaque('t'),
        '(time.Duration).Seconds': lambda ex, st, args, ins: z3.FP('secs', z3.Float64()),
    }
    # signer: two runs (nil / non-nil)
    res = []
    for sn in (True, False):
        st1 = st.fork()
        ex.hints = ex.hints[:3] + [(r'state\.Signer$', (lambda *a: IfaceV(None, None)) if sn else (lambda *a: IfaceV(STR, Opaque('signer'))))]
        res += [(sn, s) for s in ex.run(f'(*{M}.RuntimeState).certGenHandler', [state, w, r], st1)]
    return ex, res, cfg, bits
for n in (0, 1, 2, 3):
    t = time.time()
    try:
        ex, res, cfg, bits = run(n)
    except Unsupported as e:
        print('UNSUPPORTED', e); break
    sign = [s for sn, s in res if any(e[0] == 'sign' for e in s.events)]
    # oracle
    def ok(bits):
        names = {'U2F': 8, 'TOTP': 64, 'SymantecVIP': 16, 'IPCertificate': 32, 'Okta2FA': 128, 'WebauthForCLI': 1024}
        alts = [bits & 8 == 8]
        for c in cfg:
            alts.append(c == 'password')
            for k, m in names.items(): alts.append(z3.And(c == k, bits & m == m))
        return z3.Or(alts)
    viol = 0
    for sn, s in res:
        if any(e[0] == 'sign' for e in s.events):
            if sn: viol += 1
            elif ex.feasible(s.pc, z3.Not(ok(bits))): viol += 1
    stat = {}
    for sn, s in res: stat[s.status] = stat.get(s.status, 0) + 1
    print(f'cfg len {n}: paths={len(res)} {stat} signing paths={len(sign)} violations={viol} queries={ex.nq} solver={ex.tsolve:.2f}s wall={time.time()-t:.2f}s instrs={ex.stats["instr"]}')
