import sys; sys.path.insert(0,'/verif')
from checks.c11 import *
from symx.check import Check
chk = Check('C11','quick'); ir = chk.load_ir()
H = newH(ir); ex = H.ex
st = State()
BS = ir.typeid('encoding/asn1.BitString')
bsv = []
for f in ir.fields(BS): bsv.append(NILSLICE() if f['name']=='Bytes' else z3.BitVecVal(0,64))
paths = ex.run(CG+'.decodeIPV4AddressChoice', [StructV(bsv)], st)
for p in paths:
    print(p.status, p.result)
    nb, err = p.result
    IPNET = ir.typeid('net.IPNet')
    print('IP', [term(x) for x in ex.slice_values(p, ex.getfield(p, nb, IPNET, 'IP'))])
    print('Mask', ex.getfield(p, nb, IPNET, 'Mask'))
print('havoc', ex.havocked)
