"""C17 — post-login redirects never leave the keymaster origin.

 1. kernel: getLoginDestination executed from SSA for every destination string up to N bytes (byte loops unrolled, unwinding checked)
    and unbounded for the prefix tests: result = profile path or SAFE(result), SAFE(s) := s[0]='/' and s[1] not in {'/','\\'} and no
    control characters (0x00-0x1f, 0x7f).
 2. sites: every route of the service mux is executed (route sweep); at every http.Redirect the Location term must be, under the path
    condition: a safe constant, or SAFE (z3-valid), or a first-party URL with a constant same-origin prefix ("/?user=", "/profile/?user="),
    or one of the documented external redirects (federated login to the configured provider; CLI flow to http://localhost:<port>;
    the OpenID authorization response, which is C13's subject).
"""
import time, z3, re
from symx.check import run_check, term, model_dict
from symx.engine import *
from symx.engine import bytes_string
from symx.harness import *
from symx import lib, authmodel as am, gate, sweep, replay
from symx.lib import M

SV = z3.StringVal
PROFILE = '/profile/'


def R(a, b): return z3.Range(SV(a), SV(b))


CTRL = z3.Union(R('\x00', '\x1f'), z3.Re(SV('\x7f')))
ANYC = R('\x00', '\xff')
NOCTRL = z3.Intersect(ANYC, z3.Complement(CTRL))
SECOND = z3.Intersect(NOCTRL, z3.Complement(z3.Union(z3.Re(SV('/')), z3.Re(SV('\\')))))
SAFE_RE = z3.Concat(z3.Re(SV('/')), z3.Option(z3.Concat(SECOND, z3.Star(NOCTRL))))


def safe(s): return z3.InRe(s, SAFE_RE)


def ob_kernel(chk, ir, N):
    t = time.time(); name = f'{M}.getLoginDestination'
    if name not in ir.funcs: chk.obligation('destination-filter', '-', 'inconclusive', 'ANCHOR-LOST ' + name); return
    verdict = 'holds'; n = 0; allpaths = []; unrep = 0
    for L in range(0, N + 1):
        H = HandlerRun(ir, loop_bound=N + 3, budget_s=120); ex = H.ex
        dest, _bytes = bytes_string('login_destination', L)      # every string of exactly L arbitrary bytes
        H.stub('(*net/http.Request).FormValue', lambda ex_, s, a, ins, dest=dest: dest)
        ex.stubs.pop('(net/url.Values).Get', None)      # the real Get over the pinned form map (the sweep's one-term summary would bypass the L-byte input)
        H.add_hints(pin(r'^\*r\.Form\[', lambda ex_, s, tid, name, dest=dest: ex_.mkslice(s, [dest]) if tid is not None else NotImplemented), lens(r'^len\(\*r\.Form\[', [1]))
        st, state, w, r = H.mkstate()
        paths = ex.run(name, [r], st); allpaths += paths
        res_ = kernel_paths(chk, ex, paths, N, _bytes)
        chk.absorb(ex, paths)
        if res_ is None: return
        if res_[0] == 'violated': verdict = 'violated'
        elif res_[0] == 'unreproduced': unrep += 1
        n += res_[1]
    paths = allpaths
    if n == 0: chk.obligation('destination-filter', '-', 'inconclusive', 'vacuous'); return
    if verdict == 'holds' and unrep:
        chk.obligation('destination-filter', '-', 'inconclusive', f'counterexamples of the encoding did not reproduce natively at {unrep} lengths: a library stub on this path is over-approximated'); return
    chk.witnesses += n
    chk.obligation('destination-filter: getLoginDestination returns the profile path or a SAFE same-origin path', f'every destination string of 0..{N} arbitrary bytes (length case-split, byte loops unrolled, unwinding checked)', verdict, paths=len(paths), t=time.time() - t)
    chk.sample({'obligation': 'destination-filter', 'bytes': N, 'paths': len(paths)})


def kernel_paths(chk, ex, paths, N, bs=()):
    verdict = 'holds'; n = 0
    for p in paths:
        if p.status == 'unwind':
            chk.absorb(ex, paths); chk.obligation('destination-filter', f'<= {N} bytes', 'inconclusive', 'unwinding assertion failed: ' + p.result); return None
        if p.status == 'panic':
            r_, m = ex.model(p.pc)
            if chk.violation('no-panic', 'getLoginDestination', 'panics: ' + p.result, model_dict(m)) == 'new': verdict = 'violated'
            continue
        if p.status != 'returned': chk.absorb(ex, paths); chk.obligation('destination-filter', '-', 'inconclusive', p.result); return None
        res = p.result[0]; n += 1
        good = z3.Or(res == SV(PROFILE), safe(res))
        r_, m = ex.model_fresh(p.pc, z3.Not(good), 60000)
        if r_ == 'unknown': chk.absorb(ex, paths); chk.obligation('destination-filter', '-', 'inconclusive', 'solver unknown'); return None
        if r_ != 'sat': continue
        # violation classes, each with every other byte printable, so that over-approximated library stubs (URL parsers) get a fair replay
        classes = [('no leading slash', lambda b: b[0] != 0x2f if b else z3.BoolVal(True)), ('second byte is a slash', lambda b: z3.And(b[0] == 0x2f, b[1] == 0x2f) if len(b) > 1 else z3.BoolVal(False)),
                   ('second byte is a backslash', lambda b: z3.And(b[0] == 0x2f, b[1] == 0x5c) if len(b) > 1 else z3.BoolVal(False)),
                   ('control character', lambda b: z3.Or([z3.Or(z3.ULT(x, 0x20), x == 0x7f) for x in b]) if b else z3.BoolVal(False))]
        reproduced = False; tried = 0
        for cname, cond in classes:
            printable = []
            for i, x in enumerate(bs):
                isctl = z3.Or(z3.ULT(x, 0x20), x == 0x7f)
                if cname == 'control character': printable.append(z3.Or(isctl, z3.And(z3.UGE(x, 0x61), z3.ULE(x, 0x7a)), x == 0x2f))
                else: printable.append(z3.Or(z3.And(z3.UGE(x, 0x61), z3.ULE(x, 0x7a)), x == 0x2f, x == 0x5c) if i < 2 else z3.And(z3.UGE(x, 0x61), z3.ULE(x, 0x7a)))
            r2, m2 = ex.model_fresh(list(p.pc) + [cond(list(bs))] + printable, z3.Not(good), 60000)
            if r2 != 'sat': continue
            s = ''.join(chr(m2.eval(x, model_completion=True).as_long()) for x in bs)
            tried += 1
            okr, out = replay.go_test('cmd/keymasterd', 'zz_verif_c17_test.go', GO_DEST.replace('@DEST@', go_quote(s)), 'TestVerifC17Replay'); chk.replays += 1
            if okr is False:
                reproduced = True
                if chk.violation('destination-filter', f'getLoginDestination/{cname}', f'an off-origin / unsafe destination is returned unchanged: {s!r}', {'login_destination': s}, confirmed=True) == 'new': verdict = 'violated'
        if not reproduced and verdict == 'holds': verdict = 'unreproduced'
    return verdict, n


def lib_unquote(v):
    try:
        s = v.as_string()
    except Exception:
        return None
    return re.sub(r'\\u\{([0-9a-fA-F]+)\}', lambda m: chr(int(m.group(1), 16)), s)


def go_quote(s):
    return '"' + ''.join(c if (32 <= ord(c) < 127 and c not in '"\\') else '\\x%02x' % ord(c) for c in s) + '"'


GO_DEST = r'''package main

import (
	"net/http"
	"net/url"
	"strings"
	"testing"
)

// generated by /verif (C17 replay): fails when the destination filter returns an unsafe destination
func TestVerifC17Replay(t *testing.T) {
	dest := @DEST@
	form := url.Values{}
	form.Add("login_destination", dest)
	req, _ := http.NewRequest("POST", "/api/v0/login", strings.NewReader(form.Encode()))
	req.Header.Add("Content-Type", "application/x-www-form-urlencoded")
	got := getLoginDestination(req)
	if got == profilePath {
		return
	}
	bad := !strings.HasPrefix(got, "/") || strings.HasPrefix(got, "//") || strings.HasPrefix(got, "/\\")
	for _, c := range []byte(got) {
		if c < 0x20 || c == 0x7f {
			bad = true
		}
	}
	if bad {
		t.Fatalf("getLoginDestination returned unsafe destination %q", got)
	}
}
'''

EXTERNAL = {'/auth/oauth2/login': 'federated login: redirect to the operator-configured provider (AuthCodeURL)',
            '/idp/oauth2/authorize': 'OpenID authorization response: decided by C13'}
SUMMARIES = ['userHasU2FTokens', 'trySelfServiceGenerateBootstrapOTP', 'userBootstrapOtpHash', 'getRequiredWebUIAuthLevel']


def const_prefix(t):
    t = z3.simplify(t)
    if z3.is_string_value(t): return lib_unquote(t), True
    if z3.is_app(t) and t.decl().kind() == z3.Z3_OP_SEQ_CONCAT:
        c0 = t.children()[0]
        if z3.is_string_value(c0): return lib_unquote(c0), False
    if z3.is_app(t) and t.decl().kind() == z3.Z3_OP_ITE:
        # both alternatives of a conditional value: the longest constant prefix they share
        (pa, wa), (pb, wb) = const_prefix(t.children()[1]), const_prefix(t.children()[2])
        if pa is None or pb is None: return None, False
        if wa and wb and pa == pb: return pa, True
        import os.path
        return os.path.commonprefix([pa, pb]), False
    return None, False


def site_ok(ex, p, url, route):
    pref, whole = const_prefix(url)
    if whole:
        return bool(re.fullmatch(r'/([^/\\\x00-\x1f\x7f][^\x00-\x1f\x7f]*)?', pref)), 'constant'
    if pref is not None and re.match(r'/[^/\\\x00-\x1f\x7f]', pref): return True, f'first-party URL with constant same-origin prefix {pref!r}'
    if pref is not None and pref.startswith('http://localhost:') and route == '/sendAuthDocument':
        def flat(t):
            if z3.is_app(t) and t.decl().kind() == z3.Z3_OP_SEQ_CONCAT:
                out = []
                for c in t.children(): out += flat(c)
                return out
            return [t]
        ch = flat(z3.simplify(url))
        if len(ch) > 2 and ch[1].decl().kind() == z3.Z3_OP_INT_TO_STR and z3.is_string_value(ch[2]) and lib_unquote(ch[2]).startswith('/'): return True, 'CLI flow: http://localhost:<port>/...'
        return False, 'localhost redirect without a numeric port'
    r_, m = ex.model_fresh(p.pc, z3.Not(z3.Or(url == SV(PROFILE), safe(url))), 30000)
    if r_ == 'unsat': return True, 'SAFE under the path condition'
    if r_ == 'unknown': return None, 'solver unknown'
    return False, m


def ob_sites(chk, ir):
    t = time.time(); verdict = 'holds'; nred = 0; total = 0; routes_done = 0; sites = {}
    reach = {}
    for rt in routes(ir):
        h = rt['handler']
        if isinstance(h, str) and h in ir.funcs:
            fs = ir.reachable([h])
            reach[h] = set().union(*[ir.static_callees(f) for f in fs])
    for rt in routes(ir):
        if rt['mux'] != 'service' or not isinstance(rt['handler'], str) or rt['handler'] not in ir.funcs: continue
        if rt['path'] in EXTERNAL and rt['path'] != '/auth/oauth2/login': continue
        if 'net/http.Redirect' not in reach.get(rt['handler'], ()): continue
        out = {'bad': [], 'unknown': False}
        def extra(H):
            H.stub(f'(*{M}.RuntimeState).writeFailureResponse', am.st_fail)
            H.stub(f'(*{M}.RuntimeState).writeHTMLLoginPage', lambda ex, st, a, ins: st.ev('page', kind='login', dest=a[5]) and None)
            H.stub(f'(*{M}.RuntimeState).writeHTML2FAAuthPage', lambda ex, st, a, ins: (st.ev('page', kind='2fa', dest=a[3]), lib.nilerr())[1])
            for s in SUMMARIES:
                nm = f'(*{M}.RuntimeState).{s}'
                if nm in ir.funcs: H.no_inline = re.compile('|'.join(re.escape(x) + '$' for x in SUMMARIES))
            H.add_hints(lens(r'AllowedAuthBackendsFor(Certs|WebUI)\)$', [0]), lens(r'^len\(\*r\.Header\[', [1]), lens(r'^range\(', [0, 1]))
            def filtered(ex, st, a, ins):
                # contract of the destination filter (discharged by the kernel obligation): profile path or SAFE
                st.counter += 1; d = z3.String(f'filtered.destination!{st.counter}')
                st.pc.append(z3.Or(d == SV(PROFILE), safe(d)))
                st.ev('filtered', dest=d)
                return d
            H.stub(f'{M}.getLoginDestination', filtered)
            def inv_dest(ex, st, tid, name):
                # representation invariant of pendingOauth2 (established in the federated-login begin handler, checked below)
                d = z3.String(name); st.pc.append(z3.Or(d == SV(''), d == SV(PROFILE), safe(d))); return d
            H.add_hints((re.compile(r'pendingOauth2\[.*\]\.loginDestination$'), inv_dest))
            def redirect(ex, st, a, ins):
                url = a[2]
                st.ev('redirect', url=url, code=a[3])
                if rt['path'] in EXTERNAL:
                    ok, why = True, 'documented external: ' + EXTERNAL[rt['path']]
                else: ok, why = site_ok(ex, st, url, rt['path'])
                key = (rt['path'], ins.get('pos', '').split('/')[-1])
                sites[key] = why if ok else 'VIOLATION'
                if ok is None: out['unknown'] = True
                elif ok is False: out['bad'].append((ins.get('pos', ''), url, why))
                raise PathCut('sink stop: redirect decided')
            H.stub('net/http.Redirect', redirect)
        try:
            H, paths, path = sweep.run_route(ir, rt, budget_s=450, extra=extra, max_paths=40000)
        except Unsupported as e:
            chk.obligation(f'redirect sites {rt["path"]}', '-', 'inconclusive', str(e)); continue
        if paths is None: continue
        routes_done += 1; total += len(paths)
        if __import__('os').environ.get('DBG'): print('ROUTE', rt['path'], len(paths), round(H.wall, 1), 's', flush=True)
        bad = [p for p in paths if p.status in ('unsupported', 'unwind')]
        if bad:
            chk.absorb(H.ex, paths); chk.obligation(f'redirect sites {rt["path"]}', '-', 'inconclusive', bad[0].result); continue
        nred += sum(1 for p in paths if p.evs('redirect'))
        if rt['path'] == '/auth/oauth2/login':
            PT = [t_ for t_ in ir.types if ir.tstr(t_) == M + '.pendingAuth2Request']
            for p in paths:
                for k_, cell in p.heap.items():
                    if isinstance(cell, dict) and cell.get('base') and cell['base'].endswith('pendingOauth2'):
                        for wv in cell['writes']:
                            if wv[0] != 'set' or not PT: continue
                            d = H.ex.getfield(p, wv[2], PT[0], 'loginDestination')
                            r_, m = H.ex.model_fresh(p.pc, z3.Not(z3.Or(d == SV(''), d == SV(PROFILE), safe(d))), 30000)
                            if r_ != 'unsat': out['bad'].append(('pendingOauth2 store', d, m if r_ == 'sat' else 'solver unknown'))
        if out['unknown']: chk.obligation(f'redirect sites {rt["path"]}', '-', 'inconclusive', 'solver unknown')
        for pos, url, m in out['bad']:
            md = model_dict(m) if not isinstance(m, str) else {'why': m}
            if chk.violation('redirect-sites', f"{rt['path']} @ {pos.split('/')[-1]}", f'redirect to a location that is not provably same-origin: {term(url, 160)}', md) == 'new': verdict = 'violated'
        chk.absorb(H.ex, paths)
    if nred == 0: chk.obligation('redirect-sites', '-', 'inconclusive', 'vacuous: no redirect reached'); return
    chk.witnesses += nred
    chk.obligation('redirect-sites: every Location is a safe constant / SAFE under the path condition / first-party same-origin prefix / documented external', f'{routes_done} service routes (route table from main), all inputs', verdict, paths=total, witness=f'{nred} redirecting paths; sites: ' + '; '.join(f'{k[0]}@{k[1]}: {v}' for k, v in sorted(sites.items())), t=time.time() - t)
    chk.sample({'obligation': 'redirect-sites', 'sites': {f'{k[0]}@{k[1]}': v for k, v in sites.items()}})
    chk.notes.append('documented external redirects, not decided here: ' + '; '.join(f'{k}: {v}' for k, v in EXTERNAL.items()))


def main(chk):
    ir = chk.load_ir()
    N = 12 if chk.tier == 'quick' else 24
    chk.bounds = {'destination_bytes': N, 'routes': 'every service route with a resolvable handler'}
    chk.assumptions = ['checkAuth admits an arbitrary identity (C06)', 'storage / 2FA libraries by their stubs', 'browser resolution rule for SAFE as in the property statement',
                       'helper summaries (fresh results): ' + ', '.join(SUMMARIES)]
    ob_kernel(chk, ir, N)
    ob_sites(chk, ir)


if __name__ == '__main__':
    run_check('C17', main)
