"""Shared profile store for multi-request harnesses (C15 obligation 3 / C16): LoadUserProfile / SaveUserProfile at the function boundary
with gob semantics (a save stores a deep copy, a load returns a fresh deep copy), so that interleaved requests see each other's saves."""
import z3
from .engine import *
from . import lib
from .lib import M, nilerr, mk_error, fork_results


def deep_copy(ex, st, v, seen=None):
    """structural deep copy following pointers, maps and slices (what gob encode + decode does)"""
    seen = {} if seen is None else seen
    if isinstance(v, Lazy): v = ex.materialise(st, v)
    if isinstance(v, StructV): return StructV(deep_copy(ex, st, x, seen) for x in v)
    if isinstance(v, ArrayV): return ArrayV(deep_copy(ex, st, x, seen) for x in v)
    if isinstance(v, Ptr):
        key = (v.obj, v.path)
        if key in seen: return seen[key]
        tgt = ex.load(st, v)
        np = Ptr(st.alloc(None)); seen[key] = np
        st.heap[np.obj] = deep_copy(ex, st, tgt, seen)
        return np
    if isinstance(v, MapV):
        cell = st.heap[v.obj]
        nc = {'base': cell['base'], 'elem': cell['elem'], 'key': cell['key'], 'lazy': dict(cell['lazy']),
              'writes': [[w[0], w[1]] + ([deep_copy(ex, st, w[2], seen)] if w[0] == 'set' else []) for w in cell['writes']]}
        return MapV(st.alloc(nc))
    if isinstance(v, SliceV):
        if v.len is None or v.obj is None: return v
        arr = st.heap[v.obj]
        if isinstance(arr, ArrayV):
            na = ArrayV(deep_copy(ex, st, arr[i], seen) for i in range(v.off, v.off + v.len))
            return SliceV(st.alloc(na), 0, v.len, v.len)
        return v
    return v


def ukey(user):
    return z3.simplify(user).sexpr() if z3.is_expr(user) else repr(user)


def concrete_profile(ex, st, counts, tag='profile'):
    """a userProfile whose token maps hold an explicit bounded number of entries with symbolic distinct keys and symbolic contents
    (counts: {field name: n}); explicit entries make deep copies independent (lazily symbolic map bases would alias their elements)"""
    UP = ex.ir.typeid(M + '.userProfile'); vals = []
    for f in ex.ir.fields(UP):
        t = ex.ir.under(f['type'])[1]
        if t['kind'] == 'map':
            cell = {'base': None, 'elem': t['elem'], 'key': t['key'], 'lazy': {}, 'writes': []}
            keys = []
            for i in range(counts.get(f['name'], 0)):
                key = z3.BitVec(f'{tag}.{f["name"]}.key{i}', 64); keys.append(key)
                el = ex.fresh(st, t['elem'], f'{tag}.{f["name"]}[{i}]')
                if isinstance(el, Ptr): ex.load(st, el)
                cell['writes'].append(['set', key, el])
            for i in range(len(keys)):
                for j in range(i): st.pc.append(keys[i] != keys[j])
            vals.append(MapV(st.alloc(cell)))
        else:
            vals.append(Lazy(f['type'], f'{tag}.{f["name"]}'))
    return StructV(vals)


def install(H, initial=None, single=None):
    """initial(ex, st, user) -> StructV profile used the first time a user is loaded (default: lazily symbolic).
    single: a string term U - the harness considers only requests whose target user is U (the load/save adds user == U to the path)"""
    UP = H.ir.typeid(M + '.userProfile')
    def load(ex, st, a, ins):
        user = a[1]; k = 'U' if single is not None else ukey(user)
        store = st.aux.setdefault('store', {})
        def ok(s):
            sto = s.aux.setdefault('store', {})
            if k not in sto:
                sto[k] = initial(ex, s, user) if initial else StructV(Lazy(f['type'], f'profile[{k}].{f["name"]}') for f in ex.ir.fields(UP))
            cp = deep_copy(ex, s, sto[k]); p = Ptr(s.alloc(cp))
            nw = {i: len(s.heap[x.obj]['writes']) for i, x in enumerate(cp) if isinstance(x, MapV)}
            s.ev('load', user=user, profile=p, fromCache=z3.BoolVal(False), found=z3.BoolVal(True), version=sto[k], nwrites=nw)
            return (p, z3.BoolVal(True), z3.BoolVal(False), nilerr())
        def bad(s):
            s.ev('load', user=user, profile=None, fromCache=z3.BoolVal(False), found=z3.BoolVal(False), err=True)
            return (NIL, z3.BoolVal(False), z3.BoolVal(False), mk_error(s, z3.StringVal('db'), 'LoadUserProfile'))
        return fork_results(ex, st, ins, [(None, bad), (None if single is None else user == single, ok)])
    def save(ex, st, a, ins):
        user = a[1]; k = 'U' if single is not None else ukey(user)
        def ok(s):
            cp = deep_copy(ex, s, ex.load(s, a[2]))
            s.aux.setdefault('store', {})[k] = cp
            s.ev('save', user=user, profile=a[2], version=cp)
            return nilerr()
        def bad(s):
            s.ev('save-failed', user=user); return mk_error(s, z3.StringVal('db'), 'SaveUserProfile')
        return fork_results(ex, st, ins, [(None, bad), (None if single is None else user == single, ok)])
    H.stub(f'(*{M}.RuntimeState).LoadUserProfile', load)
    H.stub(f'(*{M}.RuntimeState).SaveUserProfile', save)
    return load, save
