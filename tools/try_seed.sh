#!/bin/bash
# usage: try_seed.sh <seed-id> <property-id>...   applies seeded/<seed-id>/patch.diff to /repo, runs the checks, reverts
cd /verif || exit 2
sid=$1; shift
if ! git -C /repo diff --quiet; then echo "/repo dirty"; exit 2; fi
if [ -f /verif/seeded/$sid/patch_on_fixed_tree.diff ]; then P=/verif/seeded/$sid/patch_on_fixed_tree.diff; else P=/verif/seeded/$sid/patch.diff; fi; git -C /repo apply $P || { echo "patch does not apply"; exit 2; }
for p in "$@"; do
  out=$(./run $p quick 2>&1); rc=$?
  echo "== $sid vs $p: exit $rc; $(echo "$out" | grep -c '^VIOLATION') VIOLATION lines"
  echo "$out" | grep -E "violation:|INCONCLUSIVE|inconclusive" | sort | uniq -c | head -5
done
git -C /repo checkout -- . ; git -C /repo clean -fdq
