import sys, time; sys.path.insert(0,'/verif')
from symx import build, totpk, lib, sweep
from symx.engine import *
from symx.check import term
import z3
ir = build.load()
H, secret = totpk.setup(ir)
st, state, w, r = H.mkstate()
user = z3.StringVal('alice'); code = z3.String('code')
t1 = z3.BitVec('t1', lib.TW); t2 = z3.BitVec('t2', lib.TW)
base = 1577836800*10**9
st.pc += [t1 >= lib.T(base), t1 <= t2, t2 <= lib.T(3976214400*10**9)]
t=time.time()
ps = totpk.call(H, st, state, user, code, t1, 1)
stat={}
for p in ps: stat[(p.status, term(p.result[0]) if p.status=='returned' else p.result[:80])] = stat.get((p.status, term(p.result[0]) if p.status=='returned' else p.result[:80]),0)+1
print(len(ps), stat, round(time.time()-t,1), 'q', H.ex.nq, H.ex.tsolve)
acc = [p for p in ps if p.status=='returned' and z3.is_true(z3.simplify(p.result[0]))]
print('accepting', len(acc), [ [e['k'] for e in p.events] for p in acc[:2]])
print('havoc', H.ex.havocked)
