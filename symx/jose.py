"""Contract J — go-jose as environment (DESIGN section 3).

A serialised token is a z3 string term.  Its *verified JSON payload* is a family of symbolic members addressed by JSON member name
(from the struct tags in the IR), shared by every struct type it is decoded into, so that kind confusion between token types is
decided by the first-party claim checks, exactly as in the real code.  `(*JSONWebToken).Claims(key, &dst...)` returns nil only if
`jwt.verifies(tok)` (a symbolic predicate: true for tokens minted on this path); tampering / alg substitution live inside go-jose and
are outside the encoding.  `jwt.Signed(s).Claims(x).Serialize()` is a *mint* event carrying the claims struct.
"""
import z3, re
from .engine import *
from . import lib
from .lib import nilerr, mk_error, fork_results

S = z3.StringSort()
Verifies = z3.Function('jwt.verifies', S, z3.BoolSort())


def tag_name(f):
    m = re.search(r'json:"([^",]*)', f.get('tag') or '')
    if m and m.group(1): return m.group(1)
    return f['name']


def tokid(tok):
    return z3.simplify(tok).sexpr()[:120]


def member(ex, st, tok, name, tid):
    """symbolic JSON member `name` of the verified payload of tok, as a Go value of type tid"""
    minted = st.aux.get('tokens', {}).get(tokid(tok))
    if minted is not None:
        if name in minted['claims']: return minted['claims'][name]
        return ex.zero(tid)          # a member the producer did not emit decodes to the zero value
    k = ex.ir.kind(tid); key = f'jwt[{tokid(tok)}].{name}'
    if k == 'basic':
        bk = ex.ir.basic(tid)
        if bk == STRING: return z3.String(key)
        if bk in INTBITS: return z3.BitVec(key, 64) if INTBITS[bk] == 64 else z3.Extract(INTBITS[bk] - 1, 0, z3.BitVec(key, 64))
        if bk == BOOL: return z3.Bool(key)
    return Lazy(tid, key)


def fill(ex, st, tok, dest):
    """decode tok's payload into *dest (pointer to struct) by JSON member name"""
    p = dest.val if isinstance(dest, IfaceV) else dest
    if not isinstance(p, Ptr): raise Unsupported('Claims destination is not a pointer')
    cur = ex.load(st, p)
    if not isinstance(cur, StructV): raise Unsupported('Claims destination is not a struct')
    # find the struct type from the interface's static type
    tid = None
    if isinstance(dest, IfaceV) and dest.tid is not None and not str(dest.tid).startswith('dyn:'):
        t = ex.ir.T(dest.tid)
        if t['kind'] == 'pointer': tid = t['elem']
    if tid is None: raise Unsupported('Claims destination type unknown')
    out = []
    for i, f in enumerate(ex.ir.fields(tid)):
        out.append(member(ex, st, tok, tag_name(f), f['type']))
    ex.store(st, p, StructV(out))
    st.ev('decode', token=tok, into=ex.ir.tstr(tid))


def st_parse_signed(ex, st, a, ins):
    tok = a[0]
    algs = a[1] if len(a) > 1 else None
    st.ev('jwt.parse', token=tok, algs=algs)
    def ok(s):
        return (Ptr(s.alloc(Opaque('jwt', token=tok))), nilerr())
    return fork_results(ex, st, ins, [(None, lambda s: (NIL, mk_error(s, z3.StringVal('jose: malformed'), 'ParseSigned'))), (None, ok)])


def token_of(ex, st, t):
    o = st.heap.get(t.obj) if isinstance(t, Ptr) else None
    if isinstance(o, Opaque) and o.what == 'jwt': return o.token
    raise Unsupported('not a parsed token')


def st_claims(ex, st, a, ins):
    """(*jwt.JSONWebToken).Claims(key, dest...)"""
    tok = token_of(ex, st, a[0]); dests = ex.slice_values(st, a[2]) if isinstance(a[2], SliceV) else []
    v = Verifies(tok)
    def ok(s):
        for d in dests: fill(ex, s, tok, d)
        s.ev('jwt.verified', token=tok, key=a[1])
        return nilerr()
    return fork_results(ex, st, ins, [(z3.Not(v), lambda s: mk_error(s, z3.StringVal('go-jose: error in cryptographic primitive'), 'Claims')), (v, ok)])


def st_jwtclaims(ex, st, a, ins):
    """(*RuntimeState).JWTClaims(tok, dest...): nil iff the token verifies under one of the keymaster keys (Contract J)"""
    tok = token_of(ex, st, a[1]); dests = ex.slice_values(st, a[2]) if isinstance(a[2], SliceV) else []
    v = Verifies(tok)
    def ok(s):
        for d in dests: fill(ex, s, tok, d)
        s.ev('jwt.verified', token=tok, key='keymaster')
        return nilerr()
    return fork_results(ex, st, ins, [(z3.Not(v), lambda s: mk_error(s, z3.StringVal('No valid key found'), 'JWTClaims')), (v, ok)])


def st_unsafe_claims(ex, st, a, ins):
    tok = token_of(ex, st, a[0]); dests = ex.slice_values(st, a[1]) if isinstance(a[1], SliceV) else []
    for d in dests: fill(ex, st, tok, d)
    st.ev('jwt.unverified-decode', token=tok)
    return nilerr()


def st_new_signer(ex, st, a, ins):
    sk = a[0]; SK = None
    key = alg = None
    if isinstance(sk, StructV):
        for t in ex.ir.types:
            ts = ex.ir.tstr(t)
            if re.fullmatch(r'github\.com/go-jose/go-jose/v\d+\.SigningKey', ts) and ex.ir.kind(t) == 'struct': SK = t; break
        if SK is not None:
            alg = ex.getfield(st, sk, SK, 'Algorithm'); key = ex.getfield(st, sk, SK, 'Key')
    if isinstance(key, IfaceV) and key.tid is None:
        return fork_results(ex, st, ins, [(None, lambda s: (IfaceV(None, None), mk_error(s, z3.StringVal('jose: nil key'), 'NewSigner')))])
    def ok(s):
        return (IfaceV('dyn:josesigner', Opaque('josesigner', key=key, alg=alg)), nilerr())
    return fork_results(ex, st, ins, [(None, lambda s: (IfaceV(None, None), mk_error(s, z3.StringVal('jose: signer'), 'NewSigner'))), (None, ok)])


def st_signed(ex, st, a, ins):
    return IfaceV('dyn:jwtbuilder', Opaque('jwtbuilder', signer=a[0], claims=[]))


def st_builder_claims(ex, st, a, ins):
    b = a[0].val if isinstance(a[0], IfaceV) else a[0]
    return IfaceV('dyn:jwtbuilder', Opaque('jwtbuilder', signer=b.signer, claims=b.claims + [a[1]]))


def claims_dict(ex, st, c):
    """claims struct (boxed in an interface) -> {json member: value}"""
    v = c.val if isinstance(c, IfaceV) else c
    tid = c.tid if isinstance(c, IfaceV) else None
    if isinstance(v, Ptr): v = ex.load(st, v); tid = ex.ir.T(tid)['elem'] if tid is not None else None
    if not isinstance(v, StructV) or tid is None or str(tid).startswith('dyn:'): return {}, None
    ex.forceall(st, v)
    return {tag_name(f): v[i] for i, f in enumerate(ex.ir.fields(tid))}, ex.ir.tstr(tid)


def st_serialize(ex, st, a, ins):
    b = a[0].val if isinstance(a[0], IfaceV) else a[0]
    claims = {}; kind = None
    for c in b.claims:
        d, k = claims_dict(ex, st, c); claims.update(d); kind = kind or k
    sg = b.signer
    sgv = sg.val if isinstance(sg, IfaceV) else sg
    def ok(s):
        s.counter += 1
        tok = z3.String(f'token!{s.counter}')
        s.aux.setdefault('tokens', {})[tokid(tok)] = {'claims': claims, 'kind': kind, 'signer': getattr(sgv, 'key', None)}
        s.pc.append(Verifies(tok))
        e = s.ev('mint', token=tok, claims=claims, kind=kind, signer=getattr(sgv, 'key', None), alg=getattr(sgv, 'alg', None))
        if getattr(ex, 'on_mint', None): ex.on_mint(ex, s, e)
        return (tok, nilerr())
    return fork_results(ex, st, ins, [(None, lambda s: (z3.StringVal(''), mk_error(s, z3.StringVal('jose: serialize'), 'Serialize'))), (None, ok)])


def install(H):
    J = r'github\.com/go-jose/go-jose/v\d+'
    H.stub_pat(J + r'/jwt\.ParseSigned$', st_parse_signed)
    H.stub_pat(r'^\(\*' + J + r'/jwt\.JSONWebToken\)\.Claims$', st_claims)
    H.stub_pat(r'^\(\*' + J + r'/jwt\.JSONWebToken\)\.UnsafeClaimsWithoutVerification$', st_unsafe_claims)
    H.stub_pat('^' + J + r'\.NewSigner$', st_new_signer)
    H.stub_pat('^' + J + r'/jwt\.Signed$', st_signed)
    H.stub_pat(J + r'/jwt\.Builder\.Claims$|\(dyn:jwtbuilder\)\.Claims$', st_builder_claims)
    H.stub_pat(J + r'/jwt\.Builder\.(Compact)?Serialize$|\(dyn:jwtbuilder\)\.(Compact)?Serialize$', st_serialize)
    H.stub_pat(r'^\(\*' + J + r'\.SignerOptions\)\.(WithType|WithHeader|WithContentType|WithBase64)$', lambda ex, st, a, ins: a[0])
    H.stub(f'(*{lib.M}.RuntimeState).JWTClaims', st_jwtclaims)
