"""C10 — only strong public keys are certified; malformed input never panics a handler.

 1. predicate: ValidatePublicKeyStrength executed from SSA (with crypto/rsa's Size from its SSA) over every dynamic key type,
    RSA modulus bit length 0..16384 x every exponent, every curve the parsers can yield, Ed25519, other: true => strong.
 2. every issuing path (SSH, X.509, Kubernetes, automation, automation refresh, cloud-role) signs only a key term for which the predicate
    returned true earlier on the path, and refuses weak/unparsable keys with a 4xx status.
 3. no panic path in the issuing handlers and in the first-party decoders of certificate address extensions, for arbitrary
    (well-formed per encoding/asn1) bit strings: BitLength 0..64.
"""
import time, z3
from symx.check import run_check, term, model_dict
from symx.engine import *
from symx.harness import *
from symx import lib, authmodel as am, gate, issue
from symx.lib import M, KM
from checks.c01 import handler_for, PREFIX

CG = KM + '/lib/certgen'
SV = z3.StringVal


def ob_predicate(chk, ir):
    t = time.time()
    name = CG + '.ValidatePublicKeyStrength'
    if name not in ir.funcs: chk.obligation('strength-predicate', '-', 'inconclusive', 'ANCHOR-LOST ' + name); return
    verdict = 'holds'; total = 0; n = 0
    bitlen = z3.BitVec('rsa.N.BitLen', 64); E = z3.BitVec('rsa.E', 64); curvebits = z3.BitVec('curve.BitSize', 64)
    cases = []
    def mk_rsa(ex, st):
        T = ir.typeid('crypto/rsa.PublicKey'); v = []
        for f in ir.fields(T): v.append(Ptr(st.alloc(Opaque('bigN'))) if f['name'] == 'N' else E)
        return IfaceV(ir.typeid('*crypto/rsa.PublicKey'), Ptr(st.alloc(StructV(v)))), z3.And(z3.UGE(bitlen, 2048), E >= 65537), [z3.ULE(bitlen, 16384)]
    def mk_ec(ex, st):
        T = ir.typeid('crypto/ecdsa.PublicKey'); v = []
        for f in ir.fields(T): v.append(IfaceV('dyn:curve', Opaque('curve')) if f['name'] == 'Curve' else Ptr(st.alloc(Opaque('big'))))
        dom = z3.Or([curvebits == b for b in (224, 256, 384, 521)])
        return IfaceV(ir.typeid('*crypto/ecdsa.PublicKey'), Ptr(st.alloc(StructV(v)))), curvebits >= 256, [dom]
    def mk_ed(ex, st):
        return IfaceV(ir.typeid('crypto/ed25519.PublicKey'), ex.mkslice(st, [z3.BitVec(f'ed{i}', 8) for i in range(2)])), z3.BoolVal(True), []
    def mk_edp(ex, st):
        return IfaceV(ir.typeid('*crypto/ed25519.PublicKey'), Ptr(st.alloc(NILSLICE()))), z3.BoolVal(True), []
    def mk_dsa(ex, st):
        tn = '*crypto/dsa.PublicKey'
        if ir.has_type(tn): return IfaceV(ir.typeid(tn), Ptr(st.alloc(Opaque('dsa')))), z3.BoolVal(False), []
        return IfaceV(ir.typeid('string'), z3.StringVal('some other key type')), z3.BoolVal(False), []
    def mk_nil(ex, st): return IfaceV(None, None), z3.BoolVal(False), []
    for label, mk in (('rsa', mk_rsa), ('ecdsa', mk_ec), ('ed25519', mk_ed), ('*ed25519', mk_edp), ('dsa/other', mk_dsa), ('nil', mk_nil)):
        H = HandlerRun(ir, loop_bound=4, budget_s=120); ex = H.ex
        H.extra_inline = re.compile(r'^\(\*crypto/rsa\.PublicKey\)\.Size$')
        H.stub('(*math/big.Int).BitLen', lambda ex_, st, a, ins: bitlen)
        def params(ex_, st, a, ins):
            CP = ir.typeid('crypto/elliptic.CurveParams'); v = []
            for f in ir.fields(CP): v.append(curvebits if f['name'] == 'BitSize' else Lazy(f['type'], 'cp.' + f['name']))
            return Ptr(st.alloc(StructV(v)))
        H.stub_pat(r'elliptic\.Curve\.Params$|\(dyn:curve\)\.Params$', params)
        st = State()
        key, strong, pre = mk(ex, st)
        st.pc += pre
        paths = ex.run(name, [key], st); total += len(paths)
        for p in paths:
            if p.status in ('unsupported', 'unwind'): chk.absorb(ex, paths); chk.obligation('strength-predicate', label, 'inconclusive', p.result); return
            if p.status == 'panic':
                if chk.violation('no-panic', 'ValidatePublicKeyStrength/' + label, 'predicate panics: ' + p.result, None) == 'new': verdict = 'violated'
                continue
            ok, err = p.result
            n += 1
            r_, m = ex.model(p.pc, z3.And(ok, z3.Not(strong)))
            if r_ == 'unknown': chk.obligation('strength-predicate', label, 'inconclusive', 'solver unknown'); return
            if r_ == 'sat':
                md = model_dict(m)
                rep = None
                if label == 'rsa':
                    from symx import replay
                    bl = m.eval(bitlen, model_completion=True).as_long(); ev = m.eval(E, model_completion=True).as_signed_long()
                    okr, out = replay.go_test('lib/certgen', 'zz_verif_c10_test.go', GO_RSA.replace('@BITS@', str(bl)).replace('@E@', str(ev)), 'TestVerifC10Replay')
                    chk.replays += 1; rep = (okr is False) if okr is not None else None
                    if rep is False: chk.obligation('strength-predicate', label, 'inconclusive', f'ENCODER-MISMATCH {md}'); return
                if chk.violation('strength-predicate', f'ValidatePublicKeyStrength/{label}', 'a weak key is judged strong', md, confirmed=rep) == 'new': verdict = 'violated'
            # completeness for the client's own key kinds: strong keys are not refused
            r_, m = ex.model(p.pc, z3.And(z3.Not(ok), strong, z3.BoolVal(isinstance(err, IfaceV) and err.tid is None)))
            if r_ == 'sat':
                if chk.violation('strength-predicate', f'ValidatePublicKeyStrength/{label}/refuses-strong', 'a strong key is refused', model_dict(m)) == 'new': verdict = 'violated'
        chk.absorb(ex, paths)
    chk.witnesses += n
    chk.obligation('strength-predicate: true => RSA>=2048 & e>=65537 | NIST curve>=256 | Ed25519 (and strong keys accepted)', 'RSA bit length 0..16384 x all exponents; curves {224,256,384,521}; Ed25519 (value and pointer); DSA/other; nil', verdict, paths=total, t=time.time() - t)
    chk.sample({'obligation': 'strength-predicate', 'symbolic': ['rsa.N.BitLen 0..16384', 'rsa.E int', 'curve.BitSize'], 'paths': total})


GO_RSA = r'''package certgen

import (
	"crypto/rsa"
	"math/big"
	"testing"
)

// generated by /verif (C10 replay): fails when a weak RSA key shape is judged strong
func TestVerifC10Replay(t *testing.T) {
	bits := @BITS@
	n := new(big.Int).Lsh(big.NewInt(1), uint(bits-1))
	n.Add(n, big.NewInt(1))
	if bits == 0 {
		n = big.NewInt(0)
	}
	k := &rsa.PublicKey{N: n, E: @E@}
	ok, err := ValidatePublicKeyStrength(k)
	if err == nil && ok && (n.BitLen() < 2048 || k.E < 65537) {
		t.Fatalf("RSA key with %d-bit modulus and e=%d accepted", n.BitLen(), k.E)
	}
}
'''


def strength_real(H, ir):
    """use the real predicate's verdict symbolically: a predicate event with an uninterpreted StrongKey(key term)"""
    pass


def issuing_run(chk, ir, label, handler, setup, prefix=None):
    """run an issuing handler end-to-end; oracle at every signing sink: the signed key term passed the predicate; refusals are 4xx"""
    t = time.time()
    H = HandlerRun(ir, loop_bound=6, budget_s=240)
    issue.install(H)
    H.stub('regexp.MatchString', lambda ex, st, a, ins: (z3.Function('regexp.MatchString', z3.StringSort(), z3.StringSort(), z3.BoolSort())(a[0], a[1]), lib.nilerr()))
    out = {'n': 0, 'verdict': 'holds'}
    def on_sign(ex, p, e):
        out['n'] += 1
        key = e['cert']['Key'] if e['kind'] == 'ssh' else e['pub']
        kt = getattr(key.val, 'term', None) if isinstance(key, IfaceV) else None
        strong = p.evs('strength')
        good = z3.Or([z3.And(s['key'] == kt, s['result']) for s in strong]) if (strong and kt is not None) else z3.BoolVal(False)
        r_, m = ex.model(p.pc, z3.Not(good))
        if r_ == 'sat':
            if chk.violation('issuing-paths-validate-keys', label, 'a certificate is signed for a key that did not pass the strength predicate', model_dict(m)) == 'new': out['verdict'] = 'violated'
        elif r_ == 'unknown': out['unknown'] = True
        raise PathCut('sink stop')
    H.ex.on_sign = on_sign
    st, state, w, r = H.mkstate()
    setup(H, st, state)
    paths = H.run(handler, st, [state, w, r])
    for p in paths:
        if p.status in ('unsupported', 'unwind'): chk.absorb(H.ex, paths); chk.obligation(f'issuing {label}', label, 'inconclusive', p.result); return
        if p.status == 'panic':
            r_, m = H.ex.model(p.pc)
            if chk.violation('no-panic', label, 'handler panics: ' + p.result, model_dict(m)) == 'new': out['verdict'] = 'violated'
        # refusal status: a path that saw the predicate say "weak" (or a parse failure of the key) must answer 4xx
        for s in p.evs('strength'):
            weak = z3.simplify(z3.Not(s['result']))
            if p.status == 'returned' and not p.evs('sign'):
                r_, m = H.ex.model(p.pc, weak)
                if r_ == 'sat':
                    codes = [e['code'] for e in p.evs('fail')] + [e['code'] for e in p.evs('resp.status')]
                    bad = [c for c in codes if z3.is_bv_value(z3.simplify(lib.tobv(c))) and not (400 <= z3.simplify(lib.tobv(c)).as_long() < 500)]
                    # only paths where the weak verdict itself caused the refusal: the predicate returned (false, nil)
                    errs = [e for e in p.events if e['k'] == 'fail']
                    if bad and m is not None and p.aux.get('strength_refusal'):
                        if chk.violation('weak-key-refusal-status', label, f'weak key refused with status {bad[0]} (not a client-error status)', model_dict(m)) == 'new': out['verdict'] = 'violated'
    chk.absorb(H.ex, paths)
    if out.get('unknown'): chk.obligation(f'issuing {label}', label, 'inconclusive', 'solver unknown'); return
    if out['n'] == 0: chk.obligation(f'issuing {label}', label, 'inconclusive', 'no signing path (vacuous)'); return
    chk.witnesses += out['n']
    chk.obligation(f'issuing path {label}: signs only keys that passed the predicate; no panic', 'all inputs', out['verdict'], paths=len(paths), witness=f"{out['n']} signing paths", t=time.time() - t)


def weak_refusal_status(chk, ir, label, handler, setup):
    """the predicate says weak (false, nil)  =>  the response status is 4xx"""
    t = time.time()
    H = HandlerRun(ir, loop_bound=6, budget_s=240)
    issue.install(H)
    H.stub('regexp.MatchString', lambda ex, st, a, ins: (z3.BoolVal(True), lib.nilerr()))
    def weak(ex, st, a, ins):
        st.ev('strength', key=SV('k'), result=z3.BoolVal(False)); return (z3.BoolVal(False), lib.nilerr())
    H.stub(CG + '.ValidatePublicKeyStrength', weak)
    st, state, w, r = H.mkstate(); setup(H, st, state)
    paths = H.run(handler, st, [state, w, r]); verdict = 'holds'; n = 0
    for p in paths:
        if p.status in ('unsupported', 'unwind'): chk.absorb(H.ex, paths); chk.obligation(f'weak-status {label}', label, 'inconclusive', p.result); return
        if not p.evs('strength'): continue
        n += 1
        if p.evs('sign'):
            if chk.violation('issuing-paths-validate-keys', label, 'signs although the predicate said weak', None) == 'new': verdict = 'violated'
        codes = [z3.simplify(lib.tobv(e['code'])) for e in p.events if e['k'] in ('fail', 'resp.status')]
        vals = [c.as_long() for c in codes if z3.is_bv_value(c)]
        if not vals or not all(400 <= c < 500 for c in vals[:1]):
            if chk.violation('weak-key-refusal-status', label, f'weak key refused with status {vals[:1]} (not a client-error status)', None) == 'new': verdict = 'violated'
            elif verdict == 'holds': verdict = 'known'
    chk.absorb(H.ex, paths)
    if n == 0: chk.obligation(f'weak-status {label}', label, 'inconclusive', 'predicate not reached'); return
    chk.obligation(f'issuing path {label}: weak key => client-error status, nothing signed', 'predicate forced to (false, nil)', verdict, paths=len(paths), t=time.time() - t)


def ob_decoders(chk, ir):
    """first-party decoders of the address extension: no panic for any asn1-well-formed bit string"""
    t = time.time(); verdict = 'holds'; total = 0
    name = CG + '.decodeIPV4AddressChoice'
    if name not in ir.funcs: chk.obligation('decoders-no-panic', '-', 'inconclusive', 'ANCHOR-LOST ' + name); return
    BS = ir.typeid('encoding/asn1.BitString')
    for L in range(0, 9):
        H = HandlerRun(ir, loop_bound=20, budget_s=120); ex = H.ex
        H.extra_inline = re.compile(r'^net\.(IPv4|CIDRMask|IPMask\.Size|\(net\.IPMask\)\.Size|simpleMaskLength|allFF)$|^\(net\.IPMask\)\.Size$')
        st = State()
        arr = st.alloc(ArrayV(z3.BitVec(f'b{i}', 8) for i in range(L)))
        bl = z3.BitVec('BitLength', 64)
        st.pc += [bl >= 0, bl <= 64, z3.BitVecVal(L, 64) == (bl + 7) / 8]       # encoding/asn1 invariant: len(Bytes) = ceil(BitLength/8)
        v = [None, None]
        for i, f in enumerate(ir.fields(BS)): v[i] = (SliceV(arr, 0, L, L) if L else NILSLICE()) if f['name'] == 'Bytes' else bl
        if not ex.feasible(st.pc): continue
        paths = ex.run(name, [StructV(v)], st); total += len(paths)
        for p in paths:
            if p.status in ('unsupported', 'unwind'): chk.absorb(ex, paths); chk.obligation('decoders-no-panic', f'len={L}', 'inconclusive', p.result); return
            if p.status == 'panic':
                r_, m = ex.model(p.pc)
                blv = m.eval(bl, model_completion=True).as_long() if m is not None else None
                from symx import replay
                okr, out = replay.go_test('lib/certgen', 'zz_verif_c10b_test.go', GO_DECODE.replace('@BITLEN@', str(blv)).replace('@NBYTES@', str(L)), 'TestVerifC10DecodeReplay')
                chk.replays += 1
                if okr is True: chk.obligation('decoders-no-panic', f'len={L}', 'inconclusive', f'ENCODER-MISMATCH BitLength={blv}'); return
                if chk.violation('decoders-no-panic', 'decodeIPV4AddressChoice', f'panics for BitLength={blv}: {p.result}', {'BitLength': blv, 'len(Bytes)': L}, confirmed=(okr is False)) == 'new': verdict = 'violated'
                elif verdict == 'holds': verdict = 'known'
        chk.absorb(ex, paths)
    chk.obligation('decoders-no-panic: decodeIPV4AddressChoice over every well-formed bit string', 'BitLength 0..64, bytes symbolic', verdict, paths=total, t=time.time() - t)


GO_DECODE = r'''package certgen

import (
	"encoding/asn1"
	"testing"
)

// generated by /verif (C10/C11 replay): fails (panics) when the decoder indexes out of range
func TestVerifC10DecodeReplay(t *testing.T) {
	bs := asn1.BitString{Bytes: make([]byte, @NBYTES@), BitLength: @BITLEN@}
	defer func() {
		if r := recover(); r != nil {
			t.Fatalf("decodeIPV4AddressChoice panics: %v", r)
		}
	}()
	decodeIPV4AddressChoice(bs)
}
'''


def main(chk):
    ir = chk.load_ir()
    from symx import selfcheck
    selfcheck.obligation(chk, {'regexp', 'net'}, ir)      # the SSH key pattern (regexp -> z3) and the address-block decoder: encoding vs native build
    chk.assumptions = ['key parsers (ssh.ParseAuthorizedKey, x509.ParsePKIXPublicKey, pem.Decode) are uninterpreted; byte-level robustness of third-party parsers is outside the claim',
                       'curves the parsers can yield: P-224/256/384/521', 'encoding/asn1 BitString invariant len(Bytes) = ceil(BitLength/8)']
    chk.bounds = {'rsa_bits': '0..16384', 'exponent': 'all int', 'BitLength': '0..64'}
    ob_predicate(chk, ir)
    ob_decoders(chk, ir)
    # issuing paths
    path = z3.String('url.path')
    def setup_certgen(H, st, state):
        H.add_hints(str_list(r'AllowedAuthBackendsForCerts$', 1, 'cfg'), pin(r'^\*\*r\.URL\.Path$', path), lens(r'^len\(\*r\.Form\[', [1]),
                    lens(r'SSHCertConfig\.Extensions\)$', [0]), nonnil_iface(r'^\*state\.Signer$', 'mainSigner'), lens(r'^len\(\*state\.caCertDer\)$', [1]))
        st.pc.append(z3.PrefixOf(SV(PREFIX), path))
    h = handler_for(ir, PREFIX)
    if h is None: chk.obligation('anchor', '-', 'inconclusive', 'ANCHOR-LOST route ' + PREFIX); return
    issuing_run(chk, ir, 'certgen (ssh, x509, kubernetes)', h, setup_certgen)
    weak_refusal_status(chk, ir, 'certgen', h, setup_certgen)
    def setup_role(H, st, state):
        H.add_hints(nonnil_iface(r'^\*state\.Signer$', 'mainSigner'), lens(r'^len\(\*r\.(Post)?Form\[', [1]), lens(r'VerifiedChains', [1]), lens(r'AllowedAuthBackendsForWebUI\)$', [0]),
                    lens(r'^len\(\*state\.caCertDer\)$', [1]), lens(r'AutomationAdmins\)$', [0, 1]))
        H.stub(f'(*{M}.RuntimeState).isAutomationUser', lambda ex, s, a, ins: lib.fork_results(ex, s, ins, [(None, lambda s2: (z3.BoolVal(False), lib.mk_error(s2, SV('x'), 'automation'))), (None, (z3.Bool('isAutomationUser'), lib.nilerr()))]))
        H.stub(f'(*{M}.RuntimeState).IsAdminUser', lambda ex, s, a, ins: z3.Bool('isAdmin'))
        H.stub('net.ParseCIDR', lambda ex, s, a, ins: lib.fork_results(ex, s, ins, [(None, lambda s2: (NILSLICE(), NIL, lib.mk_error(s2, SV('cidr'), 'ParseCIDR'))), (None, lambda s2: (NILSLICE(), Ptr(s2.alloc(Lazy(ir.typeid('net.IPNet'), 'cidr'))), lib.nilerr()))]))
        H.stub(CG + '.ExtractIPNetsFromIPRestrictedX509', lambda ex, s, a, ins: lib.fork_results(ex, s, ins, [(None, lambda s2: (NILSLICE(), lib.mk_error(s2, SV('x'), 'extract'))), (None, (NILSLICE(), lib.nilerr()))]))
        H.stub(CG + '.genDelegationExtension', issue.ext_stub('delegation'))
        H.stub_pat(r'base64\.Encoding\)\.DecodeString$', lambda ex, s, a, ins: lib.fork_results(ex, s, ins, [(None, lambda s2: (NILSLICE(), lib.mk_error(s2, SV('b64'), 'b64'))), (None, (BytesV(z3.Function('b64decode', z3.StringSort(), z3.StringSort())(a[1])), lib.nilerr()))]))
    for rpath in ('/v1/getRoleRequestingCert', '/v1/refreshRoleRequestingCert'):
        h = handler_for(ir, rpath)
        if h is None: chk.obligation('anchor', rpath, 'inconclusive', 'ANCHOR-LOST route ' + rpath); continue
        issuing_run(chk, ir, rpath, h, setup_role)
        weak_refusal_status(chk, ir, rpath, h, setup_role)
    # cloud-role: generateRoleCert is the configured CertificateGenerator of the AWS issuer
    gen = f'(*{M}.RuntimeState).generateRoleCert'
    rh = [f for f in ir.funcs if f.endswith('aws_identity_cert.Issuer).requestHandler')]
    if gen in ir.funcs and rh:
        def setup_aws(H, st, state):
            H.add_hints(nonnil_iface(r'^\*state\.Signer$', 'mainSigner'), lens(r'^len\(\*state\.caCertDer\)$', [1]))
        t = time.time()
        for mode in ('sign', 'weak'):
            H = HandlerRun(ir, loop_bound=6, budget_s=200); issue.install(H); setup_aws(H, None, None)
            AR = [t_ for t_ in ir.types if ir.tstr(t_).endswith('aws/arn.ARN')]
            out = {'n': 0, 'verdict': 'holds'}
            def on_sign(ex, p, e):
                out['n'] += 1
                kt = getattr(e['pub'].val, 'term', None) if isinstance(e['pub'], IfaceV) else None
                strong = p.evs('strength')
                good = z3.Or([z3.And(s['key'] == kt, s['result']) for s in strong]) if (strong and kt is not None) else z3.BoolVal(False)
                r_, m = ex.model(p.pc, z3.Not(good))
                if r_ == 'sat' and chk.violation('issuing-paths-validate-keys', 'cloud-role', 'certificate signed for a key that did not pass the predicate', model_dict(m)) == 'new': out['verdict'] = 'violated'
                raise PathCut('sink')
            H.ex.on_sign = on_sign
            if mode == 'weak':
                H.stub(CG + '.ValidatePublicKeyStrength', lambda ex, s, a, ins: (s.ev('strength', key=SV('k'), result=z3.BoolVal(False)), (z3.BoolVal(False), lib.nilerr()))[1])
            st, state, w, r = H.mkstate()
            issuer = Ptr(st.alloc(Lazy(ir.typeid(KM + '/lib/server/aws_identity_cert.Issuer'), '*issuer')))
            H.add_hints(pin(r'^\*issuer\.params\.CertificateGenerator$', FuncV(gen + '$bound', [state])),
                        pin(r'^\*issuer\.params\.FailureWriter$', FuncV('verif.failureWriter')), pin(r'^\*issuer\.params\.AccountIdValidator$', FuncV('verif.accountOK')),
                        nonnil_iface(r'^\*issuer\.params\.Logger$'), nonnil_iface(r'^\*r\.Body$'))
            H.stub('verif.failureWriter', lambda ex, s, a, ins: s.ev('fail', code=a[3], msg=a[2]) and None)
            H.stub('verif.accountOK', lambda ex, s, a, ins: z3.Bool('accountAllowed'))
            H.stub(KM + '/lib/server/aws_identity_cert.getCallerIdentity', lambda ex, s, a, ins: lib.fork_results(ex, s, ins, [(None, lambda s2: (ex.zero(ins['type'])[0], lib.mk_error(s2, SV('sts'), 'sts'))), (None, lambda s2: (ex.fresh(s2, ir.under(ins['type'])[1]['elems'][0], 'arn'), lib.nilerr()))]))
            H.stub_pat(r'^io/ioutil\.ReadAll$|^io\.ReadAll$', lambda ex, s, a, ins: lib.fork_results(ex, s, ins, [(None, lambda s2: (NILSLICE(), lib.mk_error(s2, SV('read'), 'read'))), (None, (BytesV(z3.String('req.body')), lib.nilerr()))]))
            H.stub('encoding/pem.Encode', lambda ex, s, a, ins: (s.ev('resp.write', data=a[1], via='pem.Encode', w=a[0]), lib.nilerr())[1])
            paths = H.ex.run(rh[0], [issuer, w, r], st)
            bad = [p for p in paths if p.status in ('unsupported', 'unwind')]
            if bad: chk.absorb(H.ex, paths); chk.obligation('issuing cloud-role', mode, 'inconclusive', bad[0].result); break
            verdict = out['verdict']
            for p in paths:
                if p.status == 'panic':
                    if chk.violation('no-panic', 'cloud-role', 'handler panics: ' + p.result, model_dict(H.ex.model(p.pc)[1])) == 'new': verdict = 'violated'
            if mode == 'weak':
                n = 0
                for p in paths:
                    if not p.evs('strength'): continue
                    n += 1
                    vals = [z3.simplify(lib.tobv(e['code'])).as_long() for e in p.events if e['k'] in ('fail', 'resp.status') and z3.is_bv_value(z3.simplify(lib.tobv(e['code'])))]
                    if not vals or not (400 <= vals[0] < 500):
                        r = chk.violation('weak-key-refusal-status', 'cloud-role', f'weak key refused with status {vals[:1]} (not a client-error status)', None)
                        if r == 'new': verdict = 'violated'
                        elif verdict == 'holds': verdict = 'known'
                chk.absorb(H.ex, paths)
                chk.obligation('issuing path cloud-role: weak key => client-error status, nothing signed', 'predicate forced to (false, nil)', verdict if n else 'inconclusive', 'predicate not reached' if not n else None, paths=len(paths))
            else:
                chk.absorb(H.ex, paths)
                chk.obligation('issuing path cloud-role: signs only keys that passed the predicate; no panic', 'all inputs', verdict if out['n'] else 'inconclusive', None if out['n'] else 'no signing path', paths=len(paths), witness=f"{out['n']} signing paths", t=time.time() - t)
    else:
        chk.obligation('issuing cloud-role', '-', 'inconclusive', 'ANCHOR-LOST generateRoleCert / requestHandler')


if __name__ == '__main__':
    run_check('C10', main)
