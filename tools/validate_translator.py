#!/opt/veriftools/pyvenv/bin/python3
"""Translator validation (see symx/selfcheck.py): concrete inputs through the native build and through the SSA encoding.  exit 0 = all agree."""
import sys
sys.path.insert(0, '/verif')
from symx import selfcheck
sys.exit(selfcheck.main())
