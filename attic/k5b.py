import time, z3, re
from ir import IR
from symx import *
ir = IR('/tmp/spike/ir')
M = 'github.com/Cloud-Foundations/keymaster/cmd/keymasterd'
STR = ir.typeid('string'); CC = ir.typeid(M + '.OpenIDConnectClientConfig'); URLT = ir.typeid('net/url.URL')
def nilerr(): return IfaceV(None, None)
def someerr(): return IfaceV(STR, Opaque('err'))
def I(bv): return z3.BV2Int(bv, True)
def B(i): return z3.Int2BV(i, 64)
def run(ndom, nre):
    ex = Exec(ir, {}); ex.ignore = re.compile(r'log\.DebugLogger\.')
    st = State()
    doms = [z3.String(f'dom{i}') for i in range(ndom)]
    res_ = [z3.String(f're{i}') for i in range(nre)]
    cf = ir.under(CC)[1]['fields']
    c = StructV(Lazy(f['type'], 'client.' + f['name']) for f in cf)
    for i, f in enumerate(cf):
        if f['name'] == 'AllowedRedirectDomains': c[i] = SliceV(st.alloc(ArrayV(doms)), 0, ndom, ndom) if ndom else SliceV(None, 0, 0, 0)
        if f['name'] == 'AllowedRedirectURLRE': c[i] = SliceV(st.alloc(ArrayV(res_)), 0, nre, nre) if nre else SliceV(None, 0, 0, 0)
    client = Ptr(st.alloc(c))
    scheme, hostf, path, rawq = z3.String('u.Scheme'), z3.String('u.Host'), z3.String('u.Path'), z3.String('u.RawQuery')
    parse_err = z3.Bool('parseErr')
    uf = ir.under(URLT)[1]['fields']
    def st_parse(ex, st, args, ins):
        u = StructV(Lazy(f['type'], 'u.' + f['name']) for f in uf)
        for i, f in enumerate(uf):
            if f['name'] == 'Scheme': u[i] = scheme
            if f['name'] == 'Host': u[i] = hostf
            if f['name'] == 'Path': u[i] = path
            if f['name'] == 'RawQuery': u[i] = rawq
        out = []
        for cnd, v in ((parse_err, (NIL, someerr())), (z3.Not(parse_err), (Ptr(st.alloc(u)), nilerr()))):
            s2 = st.fork(); s2.pc.append(cnd); s2.frames[-1].regs[ins['reg']] = v; out.append(s2)
        return out
    matched = {}
    def st_match(ex, st, args, ins):
        k = str(args[0]); matched.setdefault(k, z3.Bool('matched_' + k)); return (matched[k], nilerr())
    ex.stubs = {
        'net/url.Parse': st_parse,
        'regexp.MatchString': st_match,
        'strings.HasSuffix': lambda ex, st, a, ins: z3.SuffixOf(a[1], a[0]),
        'strings.HasPrefix': lambda ex, st, a, ins: z3.PrefixOf(a[1], a[0]),
        'strings.Contains': lambda ex, st, a, ins: z3.Contains(a[0], a[1]),
        'strings.LastIndexByte': lambda ex, st, a, ins: IntV(z3.LastIndexOf(a[0], z3.StringVal(chr(z3.simplify(a[1]).as_long())))),
        'net/url.validOptionalPort': lambda ex, st, a, ins: z3.InRe(a[0], z3.Option(z3.Concat(z3.Re(':'), z3.Star(z3.Range('0', '9'))))),
    }
    st.pc += [z3.Length(hostf) <= 12] + [z3.Length(d) <= 8 for d in doms]
    redirect = z3.String('redirectUrl')
    out = ex.run(f'(*{M}.OpenIDConnectClientConfig).CanRedirectToURL', [client, redirect], st)
    return ex, out, doms, (scheme, hostf, path, rawq), matched
for nd, nr in ((1, 0), (2, 0), (2, 2)):
    t = time.time()
    try:
        ex, out, doms, (scheme, hostf, path, rawq), matched = run(nd, nr)
    except Unsupported as e:
        print('UNSUPPORTED', e); break
    ex.solver.set('timeout', 30000)
    # independent spec: hostname = host without :port ; accepted => https & no query & no .. & host in domain set
    hn = z3.String('hn')
    viol = 0; acc = 0; cex = None
    for s in out:
        if s.status != 'returned': continue
        okv = s.result[0]
        if z3.is_false(z3.simplify(okv)): continue
        acc += 1
        # hostname spec relation (Host = hn or hn:digits or [hn] forms ignored): use the code's own Hostname result is circular, so spec on Host directly:
        port = z3.String('port')
        host_is = z3.Or(hostf == hn, z3.And(hostf == z3.Concat(hn, port), z3.InRe(port, z3.Concat(z3.Re(':'), z3.Star(z3.Range('0', '9'))))))
        indom = z3.Or([z3.Or(hn == d, z3.SuffixOf(z3.Concat(z3.StringVal('.'), d), hn)) for d in doms]) if doms else z3.BoolVal(True)
        spec = z3.And(scheme == 'https', rawq == '', z3.Not(z3.Contains(path, '..')), indom)
        r_, m = ex.model(s.pc, z3.And(okv, host_is, z3.Not(z3.Contains(hn, ':')), z3.Not(z3.PrefixOf('[', hn)), z3.Not(spec), *[z3.Length(d) >= 3 for d in doms]))
        if r_ == z3.sat: viol += 1; cex = {str(d): m[d] for d in m.decls() if str(d) in ('u.Host', 'dom0', 'dom1', 'hn')}
        elif r_ != z3.unsat: print('  inconclusive', r_)
    print(f'domains={nd} regexps={nr}: paths={len(out)} accepting={acc} violating={viol} queries={ex.nq} solver={ex.tsolve:.2f}s wall={time.time()-t:.2f}s', cex or '')
