import time, z3, re
from ir import IR
from symx import *
ir = IR('/tmp/spike/ir')
M = 'github.com/Cloud-Foundations/keymaster/cmd/keymasterd'
RS = ir.typeid(M + '.RuntimeState'); REQ = ir.typeid('net/http.Request'); AI = ir.typeid(M + '.authInfo'); STR = ir.typeid('string')
COOKIE = ir.typeid('net/http.Cookie'); TLSCS = ir.typeid('crypto/tls.ConnectionState')
IGN = re.compile(r'log\.DebugLogger\.|SetUsername|\(\*sync\.Mutex\)|metricLog|passwordRateLimitExceededCounter|prometheus')
def nilerr(): return IfaceV(None, None)
def someerr(tag='err'): return IfaceV(STR, Opaque(tag))
def run(ncookies, nchains):
    ex = Exec(ir, {}, max_paths=50000); ex.ignore = IGN
    st = State()
    state = Ptr(st.alloc(Lazy(RS, 'state'))); r = Ptr(st.alloc(Lazy(REQ, 'r')))
    w = IfaceV(STR, Opaque('w'))
    required = z3.BitVec('required', 64)
    method = z3.String('method'); host = z3.String('host'); origin = z3.String('originOrReferer'); refHost = z3.String('refererHost')
    cookies = [(z3.String(f'ck{i}.name'), z3.String(f'ck{i}.value')) for i in range(ncookies)]
    jwt_ok = z3.Bool('jwtValid'); jwt_bits = z3.BitVec('jwtBits', 64); jwt_user = z3.String('jwtUser'); jwt_exp_before_now = z3.Bool('jwtExpired')
    km_user = z3.String('kmCertUser'); km_err = z3.Bool('kmErr')
    ip_user = z3.String('ipCertUser'); ip_usererr = z3.Bool('ipUserErr'); ip_err = z3.Bool('ipErr')
    basic_ok = z3.Bool('basicOk'); pw_valid = z3.Bool('pwValid'); pw_err = z3.Bool('pwErr'); allow = z3.Bool('limiterAllow')
    def h_tls(ex, st, tid, name):
        # r.TLS: decided by hint per run
        return h_tls.value(st)
    ex.hints = [
        (r'^r\.Method$', lambda *a: method), (r'^r\.Host$', lambda *a: host),
        (r'^r\.TLS$', h_tls),
    ]
    def mk_tls(st):
        if nchains is None: return NIL
        # VerifiedChains is only tested for len>0 and passed to stubs
        cs = StructV(Lazy(f['type'], 'tls.' + f['name']) for f in ir.under(TLSCS)[1]['fields'])
        idx = [i for i, f in enumerate(ir.under(TLSCS)[1]['fields']) if f['name'] == 'VerifiedChains'][0]
        cs[idx] = SliceV(st.alloc(ArrayV([Opaque('chain')] * nchains)), 0, nchains, nchains) if nchains else SliceV(None, 0, 0, 0)
        return Ptr(st.alloc(cs))
    h_tls.value = mk_tls
    def two_way(ex, st, ins, cond, vt, vf):
        out = []
        for c, v in ((cond, vt), (z3.Not(cond), vf)):
            if ex.feasible(st.pc, c):
                s2 = st.fork(); s2.pc.append(c); s2.frames[-1].regs[ins['reg']] = v; out.append(s2)
        return out
    def st_cookies(ex, st, args, ins):
        ptrs = []
        cf = ir.under(COOKIE)[1]['fields']
        for nm, vl in cookies:
            c = StructV(Lazy(f['type'], 'ck.' + f['name']) for f in cf)
            for i, f in enumerate(cf):
                if f['name'] == 'Name': c[i] = nm
                if f['name'] == 'Value': c[i] = vl
            ptrs.append(Ptr(st.alloc(c)))
        return SliceV(st.alloc(ArrayV(ptrs)), 0, len(ptrs), len(ptrs)) if ptrs else SliceV(None, 0, 0, 0)
    def st_jwt(ex, st, args, ins):
        st.events.append(('jwt', args[1]))
        zero_t = Opaque('time0')
        good = StructV([jwt_bits, ('T', 'exp'), ('T', 'iat'), jwt_user])
        return two_way(ex, st, ins, jwt_ok, (good, nilerr()), (ex.zero(AI), someerr()))
    def st_before(ex, st, args, ins):
        return jwt_exp_before_now
    def st_km(ex, st, args, ins):
        st.events.append(('kmsigned',))
        return two_way(ex, st, ins, km_err, (z3.StringVal(''), Opaque('t0'), someerr()), (km_user, Opaque('notBefore'), nilerr()))
    def st_ip(ex, st, args, ins):
        st.events.append(('ipcert',))
        out = []
        for c, v in ((ip_err, (z3.StringVal(''), Opaque('t0'), nilerr(), someerr())),
                     (z3.And(z3.Not(ip_err), ip_usererr), (z3.StringVal(''), Opaque('t0'), someerr('usererr'), nilerr())),
                     (z3.And(z3.Not(ip_err), z3.Not(ip_usererr)), (ip_user, Opaque('now'), nilerr(), nilerr()))):
            if ex.feasible(st.pc, c):
                s2 = st.fork(); s2.pc.append(c); s2.frames[-1].regs[ins['reg']] = v; out.append(s2)
        return out
    def st_wfr(ex, st, args, ins): st.events.append(('fail', args[3])); return None
    def st_urlparse(ex, st, args, ins):
        U = ir.typeid('net/url.URL'); uf = ir.under(U)[1]['fields']
        u = StructV(Lazy(f['type'], 'refURL.' + f['name']) for f in uf)
        for i, f in enumerate(uf):
            if f['name'] == 'Host': u[i] = refHost
        st.pc.append(z3.Length(ex_ip_dummy) >= 0)
        return two_way(ex, st, ins, z3.Bool('refParseErr'), (NIL, someerr()), (Ptr(st.alloc(u)), nilerr()))
    ex_ip_dummy = z3.String('dummy')
    ex.stubs = {
        f'{M}.getOriginOrReferrer': lambda ex, st, args, ins: origin,
        'net/url.Parse': st_urlparse,
        '(*net/http.Request).Cookies': st_cookies,
        f'(*{M}.RuntimeState).getAuthInfoFromAuthJWT': st_jwt,
        '(time.Time).Before': st_before,
        'time.Now': lambda ex, st, args, ins: ('T', 'now'),
        f'(*{M}.RuntimeState).getUsernameIfKeymasterSigned': st_km,
        f'(*{M}.RuntimeState).getUsernameIfIPRestricted': st_ip,
        f'(*{M}.RuntimeState).writeFailureResponse': st_wfr,
        '(*net/http.Request).BasicAuth': lambda ex, st, args, ins: (z3.String('baUser'), z3.String('baPass'), basic_ok),
        f'(*{M}.RuntimeState).checkPasswordAttemptLimit': lambda ex, st, args, ins: two_way(ex, st, ins, allow, nilerr(), someerr()),
        f'(*{M}.RuntimeState).reprocessUsername': lambda ex, st, args, ins: z3.String('normUser'),
        f'{M}.checkUserPassword': lambda ex, st, args, ins: (st.events.append(('backend',)), two_way(ex, st, ins, pw_err, (z3.BoolVal(False), someerr()), (pw_valid, nilerr())))[1],
        'errors.New': lambda ex, st, args, ins: someerr(), 'fmt.Errorf': lambda ex, st, args, ins: someerr(), 'fmt.Sprintf': lambda ex, st, args, ins: z3.String('sprintf'),
    }
    res = ex.run(f'(*{M}.RuntimeState).checkAuth', [state, w, r, required], st)
    return ex, res, required
tot = 0; t0 = time.time(); viol = []
for nck in (0, 1, 2):
    for nch in (None, 0, 1):
        try:
            ex, res, required = run(nck, nch)
        except Unsupported as e:
            print('UNSUPPORTED', nck, nch, e); continue
        ok = 0
        for s in res:
            if s.status != 'returned': continue
            ai, err = s.result
            if isinstance(ai, Ptr):   # success
                ok += 1
                v = ex.load(s, ai); bits = v[0]
                bad = (bits & required) == 0
                r_, m = ex.model(s.pc, bad)
                if r_ == z3.sat: viol.append((nck, nch, [e[0] for e in s.events], m))
        stat = {}
        for s in res: stat[s.status] = stat.get(s.status, 0) + 1
        print(f'cookies={nck} tls={nch}: paths={len(res)} {stat} success-paths={ok} queries={ex.nq} solver={ex.tsolve:.2f}s')
        tot += len(res)
print('total paths', tot, 'wall', round(time.time() - t0, 1), 's; gate-lemma violations:', len(viol))
for v in viol[:3]:
    m = v[3]; print('  CEX cookies=%s tls=%s events=%s' % v[:3]); print('     ', {str(d): m[d] for d in m.decls() if str(d).split('!')[0] in ('required', 'kmCertUser', 'ipUserErr', 'ipErr', 'kmErr', 'method')})
