import sys; sys.path.insert(0,'/verif')
import checks.c02 as c2
from checks.c02 import *
from symx.check import Check
orig = c2.ext_oracle
def dbg(ex, p, extmap, user, n):
    r = orig(ex, p, extmap, user, n)
    if p.aux.get('reqid')==2:
        print('REQ2 map writes', [(w[0], term(w[1],80)) for w in p.heap[extmap.obj]['writes']], 'user', user)
        rr, m = ex.model(p.pc, z3.Not(r[0])); print('   oracle', rr)
    return r
c2.ext_oracle = dbg
chk = Check('C02','quick'); chk.tier='quick'
c2.main(chk)
print(chk.obligations[-1], chk.violations)
