"""Issuing harness (C02, C03, C10, C20): the certificate endpoint executed end-to-end from SSA down to the library signing calls.
The signing calls are sinks that capture the certificate structure / template, the public key and the signer as terms."""
import z3, re
from .engine import *
from .harness import *
from . import lib, authmodel as am, gate
from .lib import M, KM, nilerr, mk_error, fork_results

CG = KM + '/lib/certgen'


def UF(name, *sorts):
    return z3.Function(name, *sorts)


S = z3.StringSort()
ParsedSSHKey = UF('ssh.ParseAuthorizedKey.key', S, S)       # key identity (as a string token) parsed from authorized-key bytes
ParsedPKIXKey = UF('x509.ParsePKIXPublicKey.key', S, S)
PemBlockBytes = UF('pem.Decode.bytes', S, S)
PemBlockType = UF('pem.Decode.type', S, S)
ShellExpand = UF('shell.Expand', S, S, S)                   # Expand(template, username)  (mapper only knows USERNAME)


def keyval(term, family):
    return IfaceV('dyn:pubkey', Opaque('pubkey', term=term, family=family))


def st_parse_authorized_key(ex, st, a, ins):
    b = a[0]; s = b.s if isinstance(b, BytesV) else None
    if s is None: raise Unsupported('ParseAuthorizedKey of non-string bytes')
    okb = z3.Function('ssh.ParseAuthorizedKey.ok', S, z3.BoolSort())(s)
    def ok(s2):
        k = IfaceV('dyn:sshpub', Opaque('sshpub', term=ParsedSSHKey(s), src=s))
        return (k, z3.StringVal(''), NILSLICE(), NILSLICE(), nilerr())
    return fork_results(ex, st, ins, [(z3.Not(okb), lambda s2: (IfaceV(None, None), z3.StringVal(''), NILSLICE(), NILSLICE(), mk_error(s2, z3.StringVal('ssh: no key found'), 'ParseAuthorizedKey'))), (okb, ok)])


def st_sshkey_type(ex, st, a, ins):
    k = a[0]; inner = k.val if isinstance(k, IfaceV) else k
    return z3.Function('ssh.PublicKey.Type', S, S)(inner.term)


def st_crypto_public_key(ex, st, a, ins):
    k = a[0]; inner = k.val if isinstance(k, IfaceV) else k
    return IfaceV('dyn:cryptopub', Opaque('cryptopub', term=inner.term))


def st_validate_strength(ex, st, a, ins):
    k = a[0]; inner = k.val if isinstance(k, IfaceV) else k
    t = getattr(inner, 'term', None)
    if t is None: t = z3.StringVal(repr(inner))
    strong = z3.Function('StrongKey', S, z3.BoolSort())(t)
    st.ev('strength', key=t, result=strong)
    return fork_results(ex, st, ins, [(None, lambda s: (z3.BoolVal(False), mk_error(s, z3.StringVal('strength'), 'strength'))), (None, (strong, nilerr()))])


def st_new_signer_from_signer(ex, st, a, ins):
    cs = a[0]
    def ok(s):
        return (IfaceV('dyn:sshsigner', Opaque('sshsigner', of=cs)), nilerr())
    return fork_results(ex, st, ins, [(None, lambda s: (IfaceV(None, None), mk_error(s, z3.StringVal('signer'), 'NewSignerFromSigner'))), (None, ok)])


def st_shell_expand(ex, st, a, ins):
    tmpl = a[0]; fn = a[1]
    user = None
    if isinstance(fn, FuncV) and fn.bindings:
        b = fn.bindings[0]
        user = ex.load(st, b) if isinstance(b, Ptr) else b
    if user is None or not z3.is_expr(user): user = z3.StringVal('?')
    st.ev('shell.Expand', template=tmpl, user=user)
    return fork_results(ex, st, ins, [(None, lambda s: (z3.StringVal(''), mk_error(s, z3.StringVal('expand'), 'shell.Expand'))), (None, (ShellExpand(tmpl, user), nilerr()))])


def st_signcert(ex, st, a, ins):
    cert = ex.load(st, a[0]); CT = ex.ir.typeid('golang.org/x/crypto/ssh.Certificate')
    ex.forceall(st, cert)
    d = {f['name']: cert[i] for i, f in enumerate(ex.ir.fields(CT))}
    e = st.ev('sign', kind='ssh', cert=d, signer=a[2])
    if getattr(ex, 'on_sign', None): ex.on_sign(ex, st, e)
    return fork_results(ex, st, ins, [(None, lambda s: mk_error(s, z3.StringVal('sign'), 'SignCert')), (None, nilerr())])


def st_create_certificate(ex, st, a, ins):
    tmpl = ex.load(st, a[1]); XT = ex.ir.typeid('crypto/x509.Certificate')
    d = {}
    for i, f in enumerate(ex.ir.fields(XT)):
        if f['name'] in ('NotBefore', 'NotAfter', 'IsCA', 'BasicConstraintsValid', 'ExtKeyUsage', 'Subject', 'KeyUsage', 'ExtraExtensions', 'SerialNumber', 'DNSNames', 'IPAddresses', 'UnknownExtKeyUsage', 'MaxPathLen', 'MaxPathLenZero'):
            d[f['name']] = ex.field(st, tmpl, i)
    st.counter += 1
    der = z3.String(f'der!{st.counter}')
    e = st.ev('sign', kind='x509', template=d, parent=a[2], pub=a[3], priv=a[4], der=der)
    if getattr(ex, 'on_sign', None): ex.on_sign(ex, st, e)
    return fork_results(ex, st, ins, [(None, lambda s: (NILSLICE(), mk_error(s, z3.StringVal('sign'), 'CreateCertificate'))), (None, (BytesV(der), nilerr()))])


def st_pem_decode(ex, st, a, ins):
    b = a[0]; s = b.s if isinstance(b, BytesV) else None
    if s is None: raise Unsupported('pem.Decode of non-string bytes')
    BT = ex.ir.typeid('encoding/pem.Block')
    found = z3.Function('pem.Decode.found', S, z3.BoolSort())(s)
    def ok(s2):
        blk = []
        for f in ex.ir.fields(BT):
            blk.append({'Type': PemBlockType(s), 'Bytes': BytesV(PemBlockBytes(s))}.get(f['name'], None) if f['name'] in ('Type', 'Bytes') else MapV(s2.alloc({'base': None, 'elem': ex.ir.typeid('string'), 'key': ex.ir.typeid('string'), 'writes': [], 'lazy': {}})))
        return (Ptr(s2.alloc(StructV(blk))), BytesV(z3.StringVal('')))
    return fork_results(ex, st, ins, [(z3.Not(found), (NIL, BytesV(s))), (found, ok)])


def st_parse_pkix(ex, st, a, ins):
    b = a[0]; s = b.s if isinstance(b, BytesV) else None
    if s is None:
        st.counter += 1; s = z3.String(f'derbytes!{st.counter}')
    okb = z3.Function('x509.ParsePKIXPublicKey.ok', S, z3.BoolSort())(s)
    def ok(s2): return (IfaceV('dyn:pkixpub', Opaque('pkixpub', term=ParsedPKIXKey(s), src=s)), nilerr())
    return fork_results(ex, st, ins, [(z3.Not(okb), lambda s2: (IfaceV(None, None), mk_error(s2, z3.StringVal('pkix'), 'ParsePKIXPublicKey'))), (okb, ok)])


def st_parse_certificate(ex, st, a, ins):
    der = a[0]
    def ok(s2):
        s2.counter += 1
        XT = ex.ir.typeid('crypto/x509.Certificate')
        nm = f'*parsedcert!{s2.counter}'
        # crypto/x509: Certificate.Raw is the complete DER that was parsed
        c = Ptr(s2.alloc(StructV((der if f['name'] == 'Raw' else Lazy(f['type'], nm + '.' + f['name'])) for f in ex.ir.fields(XT))))
        s2.aux.setdefault('parsed', []).append((der, c))
        return (c, nilerr())
    return fork_results(ex, st, ins, [(None, lambda s2: (NIL, mk_error(s2, z3.StringVal('parse'), 'ParseCertificate'))), (None, ok)])


def st_publish(kind):
    def f(ex, st, a, ins):
        st.ev('publish', kind=kind, data=a[-1])
    return f


def st_rand_int(ex, st, a, ins):
    def ok(s2):
        s2.counter += 1
        return (Ptr(s2.alloc(Opaque('bigint', name=f'rand!{s2.counter}'))), nilerr())
    return fork_results(ex, st, ins, [(None, lambda s2: (NIL, mk_error(s2, z3.StringVal('rand'), 'rand.Int'))), (None, ok)])


def st_big_uint64(ex, st, a, ins):
    st.counter += 1
    return z3.ZeroExt(32, z3.BitVec(f'rnd32!{st.counter}', 32))


def st_go_cert_to_file_string(ex, st, a, ins):
    st.counter += 1
    return fork_results(ex, st, ins, [(None, lambda s: (z3.StringVal(''), mk_error(s, z3.StringVal('marshal'), 'goCertToFileString'))), (None, (z3.String(f'certfile!{st.counter}'), nilerr()))])


def st_cert_marshal(ex, st, a, ins):
    c = a[0]
    return BytesV(z3.String('ssh.Certificate.Marshal'))


def ext_stub(name):
    def f(ex, st, a, ins):
        st.counter += 1
        PE = ex.ir.typeid('crypto/x509/pkix.Extension')
        def ok(s):
            o = Ptr(s.alloc(Opaque('extension', name=name, args=a)))
            return (o, nilerr())
        return fork_results(ex, st, ins, [(None, lambda s: (NIL, mk_error(s, z3.StringVal(name), name))), (None, ok)])
    return f


def st_add_extra_extension(ex, st, a, ins):
    st.ev('extension', ext=a[1], what=a[2])


def install(H):
    am.install(H)
    H.stub(gate.CHECKAUTH, gate.st_checkauth_any(H.ir))
    H.stub('golang.org/x/crypto/ssh.ParseAuthorizedKey', st_parse_authorized_key)
    H.stub_pat(r'golang\.org/x/crypto/ssh\.(Public|CryptoPublic)Key\.Type$|ssh\.PublicKey\.Type$', st_sshkey_type)
    H.stub_pat(r'ssh\.CryptoPublicKey\.CryptoPublicKey$', st_crypto_public_key)
    H.stub(CG + '.ValidatePublicKeyStrength', st_validate_strength)
    H.stub('golang.org/x/crypto/ssh.NewSignerFromSigner', st_new_signer_from_signer)
    H.stub('mvdan.cc/sh/v3/shell.Expand', st_shell_expand)
    H.stub('(*golang.org/x/crypto/ssh.Certificate).SignCert', st_signcert)
    H.stub('(*golang.org/x/crypto/ssh.Certificate).Marshal', st_cert_marshal)
    H.stub('(*golang.org/x/crypto/ssh.Certificate).Type', lambda ex, st, a, ins: lib.fresh_str(st, 'certtype'))
    H.stub('crypto/x509.CreateCertificate', st_create_certificate)
    H.stub('encoding/pem.Decode', st_pem_decode)
    H.stub('crypto/x509.ParsePKIXPublicKey', st_parse_pkix)
    H.stub('crypto/x509.ParseCertificate', st_parse_certificate)
    H.stub('crypto/rand.Int', st_rand_int)
    H.stub('(*math/big.Int).Uint64', st_big_uint64)
    H.stub_pat(r'^\(\*math/big\.Int\)\.(Lsh|String|SetBytes|SetInt64)$|^math/big\.NewInt$', lambda ex, st, a, ins: Ptr(st.alloc(Opaque('bigint'))) if not ins['call'].get('callee', '').endswith('String') else lib.fresh_str(st, 'bigstr'))
    H.stub(CG + '.goCertToFileString', st_go_cert_to_file_string)
    H.stub('bytes.NewReader', lambda ex, st, a, ins: Ptr(st.alloc(Opaque('reader'))))
    H.stub_pat(r'ssh\.Signer\.PublicKey$', lambda ex, st, a, ins: IfaceV('dyn:capub', Opaque('capub', of=a[0])))
    H.stub_pat(r'eventnotifier\.EventNotifier\)\.PublishSSH$', st_publish('ssh'))
    H.stub_pat(r'eventnotifier\.EventNotifier\)\.PublishX509$', st_publish('x509'))
    H.stub(CG + '.genSANExtension', ext_stub('san'))
    H.stub(CG + '.makeGroupListExtension', ext_stub('groups'))
    H.stub(CG + '.makeServiceMethodListExtension', ext_stub('servicemethods'))
    H.stub(CG + '.addExtraExtension', st_add_extra_extension)
    H.stub('encoding/pem.EncodeToMemory', lambda ex, st, a, ins: BytesV(z3.Function('pem.Encode', S, S)(pem_bytes(ex, st, a[0]))))
    H.stub(KM + '/lib/util.GetRequestRealIp', lambda ex, st, a, ins: z3.String('realip'))
    H.stub('time.ParseDuration', st_parse_duration)
    H.stub(f'(*{M}.RuntimeState).getUserGroups', st_groups('groups'))
    H.stub(f'(*{M}.RuntimeState).getServiceMethods', st_groups('servicemethods'))
    H.add_hints(nonnil_iface(r'^\*state\.gitDB$'), pin(r'^G:.*metricsMutex', lambda ex, st, tid, name: Opaque('mu')))


def st_groups(what):
    def f(ex, st, a, ins):
        st.ev(what, user=a[1])
        def ok(s):
            s.counter += 1
            return (SliceV(s.alloc(LazyArr(ex.ir.typeid('string'), f'{what}!{s.counter}')), 0, None, None), nilerr())
        return fork_results(ex, st, ins, [(None, lambda s: (NILSLICE(), mk_error(s, z3.StringVal(what), what))), (None, ok)])
    return f


def pem_bytes(ex, st, blkptr):
    BT = ex.ir.typeid('encoding/pem.Block')
    b = ex.load(st, blkptr); v = ex.getfield(st, b, BT, 'Bytes')
    if isinstance(v, BytesV): return v.s
    return z3.StringVal('?')


def st_parse_duration(ex, st, a, ins):
    s = a[0]
    st.ev('parseduration', text=s)
    d = z3.BitVec('requested.duration', 64)
    return fork_results(ex, st, ins, [(None, lambda s2: (z3.BitVecVal(0, 64), mk_error(s2, z3.StringVal('time: invalid duration'), 'ParseDuration'))), (None, (d, nilerr()))])
