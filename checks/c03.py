"""C03 — every issued certificate is short-lived, whatever duration is requested.

Obligations (all on the real SSA):
 a. handler: the duration handed by the /certgen/ handler to the issuing functions, for every int64 the duration parser can return
    (and parse errors), every IssuedAt and clock:  d <= 24h, d <= IssuedAt+24h-now (saturating), d <= requested.
 b. SSH kernel GenSSHCertFileString for every int64 duration <= 24h and every clock second: the certificate's validity interval
    [ValidAfter, ValidBefore) is empty or starts <= now and ends <= now + ceil(max(0,d)) (unsigned 64-bit: any wrap-around violates).
 c. X.509 kernels GenUserX509Cert / GenIPRestrictedX509Cert: NotBefore <= now and NotAfter <= now + max(0, d).
 d. automation: role-requesting parameter parsers yield Duration <= 45 days; cloud-role template NotAfter - NotBefore <= 24h.
"""
import time, z3
from symx.check import run_check, term, model_dict
from symx.engine import *
from symx.harness import *
from symx import lib, authmodel as am, gate, issue
from symx.lib import M, KM
from checks.c01 import handler_for, PREFIX

H24 = 24 * 3600 * 10**9
CG = KM + '/lib/certgen'
I64MIN, I64MAX = -(1 << 63), (1 << 63) - 1


def sbv2int(x): return lib.T(x)     # durations sign-extended to the 96-bit time width


def ob_handler(chk, ir, handler):
    t = time.time()
    H = HandlerRun(ir, loop_bound=6, budget_s=300)
    issue.install(H)
    path = z3.String('url.path')
    calls = []
    def hook(kind, idx):
        def f(ex, st, args): st.ev('issue', kind=kind, duration=args[idx])
        return f
    H.ex.on_call[CG + '.GenSSHCertFileString'] = hook('ssh', 4)
    H.ex.on_call[CG + '.GenUserX509Cert'] = hook('x509', 5)
    H.add_hints(str_list(r'AllowedAuthBackendsForCerts$', 1, 'cfg'), pin(r'^\*\*r\.URL\.Path$', path), lens(r'^len\(\*r\.Form\[', [1]),
                lens(r'SSHCertConfig\.Extensions\)$', [0]), nonnil_iface(r'^\*state\.Signer$'), nonnil_ptr(r'^\*state\.KerberosRealm$'), lens(r'^len\(\*state\.caCertDer\)$', [1]))
    st, state, w, r = H.mkstate()
    st.pc.append(z3.PrefixOf(z3.StringVal(PREFIX), path))
    paths = H.run(handler, st, [state, w, r])
    ex = H.ex; verdict = 'holds'; n = 0; stat = {}
    for p in paths:
        stat[p.status] = stat.get(p.status, 0) + 1
        if p.status in ('unsupported', 'unwind'):
            chk.absorb(ex, paths); chk.obligation('handler-duration', '-', 'inconclusive', p.result); return
    req = z3.BitVec('requested.duration', 64)
    for p in paths:
        adm = p.evs('admitted')
        for e in p.evs('issue'):
            n += 1
            if len(adm) != 1: continue   # C01's subject
            now = p.aux.get('now')
            d = sbv2int(e['duration'])
            conj = [d <= lib.T(H24)]
            if now is not None:
                rem = adm[0]['iat'] + lib.T(H24) - now
                conj.append(d <= lib.T(lib.sat64(rem)))
            else:
                conj.append(z3.BoolVal(False))      # the clamp to IssuedAt+24h needs a clock reading
            if p.evs('parseduration'): conj.append(d <= sbv2int(req))
            r_, m = ex.model(p.pc, z3.Not(z3.And(conj)))
            if r_ == 'unknown':
                chk.absorb(ex, paths); chk.obligation('handler-duration', '-', 'inconclusive', 'solver unknown'); return
            if r_ == 'sat':
                md = model_dict(m); md['duration_passed'] = str(m.eval(e['duration'], model_completion=True))
                if chk.violation('handler-duration', f"certGenHandler/{e['kind']}", 'issuing function receives a duration beyond min(requested, 24h, IssuedAt+24h-now)', md) == 'new': verdict = 'violated'
    chk.absorb(ex, paths)
    if n == 0: chk.obligation('handler-duration', '-', 'inconclusive', 'no issuing call reached'); return
    chk.witnesses += n
    chk.obligation('handler-duration: d <= min(requested, 24h, IssuedAt+24h-now)', 'every int64 duration x clock x IssuedAt; 1-entry method list', verdict, paths=len(paths), witness=f'{n} issuing calls; {stat}', t=time.time() - t)
    chk.sample({'obligation': 'handler-duration', 'paths': len(paths), 'issuing_calls': n})


def kernel_exec(ir, budget=600):
    H = HandlerRun(ir, loop_bound=8, budget_s=budget)
    issue.install(H)
    return H


def ob_ssh_kernel(chk, ir, split):
    """GenSSHCertFileString(username, key, signer, host, duration, nil)"""
    name = CG + '.GenSSHCertFileString'
    if name not in ir.funcs: chk.obligation('ssh-kernel', '-', 'inconclusive', 'ANCHOR-LOST ' + name); return
    nowsec = z3.BitVec('now.unix', 64)
    results = []
    for label, extra in split:
        t = time.time()
        H = kernel_exec(ir)
        ex = H.ex
        tmo = 120000 if chk.tier == 'quick' else 1200000
        ex.solver.set('timeout', tmo); ex.qtimeout_ms = tmo
        class NowT(TimeV): pass
        def t_now(ex_, st, a, ins):
            st.ev('now'); return NowT(z3.ZeroExt(32, nowsec) * lib.T(10**9))
        H.stub('time.Now', t_now)
        H.stub('(time.Time).Unix', lambda ex_, st, a, ins: nowsec if isinstance(a[0], NowT) else z3.Extract(63, 0, lib.floordiv(a[0].ns, 10**9)))
        d = z3.BitVec('duration', 64)
        st = State()
        st.pc += [z3.UGE(nowsec, 1577836800), z3.ULE(nowsec, 3976214400), d <= H24] + extra(d)
        signer = IfaceV('dyn:sshsigner', Opaque('sshsigner'))
        paths = ex.run(name, [z3.String('username'), z3.String('pubkey'), signer, z3.String('hostid'), d, NIL], st)
        verdict = 'holds'; n = 0
        for p in paths:
            if p.status in ('unsupported', 'unwind'):
                chk.absorb(ex, paths); chk.obligation(f'ssh-kernel {label}', label, 'inconclusive', p.result); return
            for e in p.evs('sign'):
                n += 1
                va, vb = e['cert']['ValidAfter'], e['cert']['ValidBefore']
                delta = z3.simplify(vb - nowsec)
                x = z3.fpDiv(z3.RNE(), z3.fpSignedToFP(z3.RNE(), d, z3.Float64()), z3.FPVal(1e9, z3.Float64()))   # the oracle's own quotient d/1e9
                tight = z3.fpLEQ(z3.fpUnsignedToFP(z3.RNE(), delta, z3.Float64()), x)
                weak = z3.Or(delta == 0, (delta - 1) * 1000000000 <= d)      # delta <= d/1e9 + 1: the necessary bound; 'tight' (float) implies it
                live = z3.And(z3.UGT(vb, nowsec), z3.UGT(vb, va))      # the certificate is valid at some instant after now
                if label == 'd<0': claims = [('never-valid-after-now', z3.Not(live))]
                elif label == 'd>=0': claims = [('starts-by-now', z3.ULE(va, nowsec)), ('at-most-24h-no-wrap', z3.ULE(delta, 86400)), ('within-requested', z3.Implies(z3.ULE(delta, 86400), tight), z3.Implies(z3.ULE(delta, 86400), weak))]
                else: claims = [('all', z3.Or(z3.Not(live), z3.And(z3.ULE(va, nowsec), z3.ULE(delta, 86400), d > 0, tight)))]
                r_, m = 'unsat', None
                for claim in claims:
                    cname, c = claim[0], claim[1]
                    r1, m1 = ex.model_fresh(p.pc, z3.Not(c), tmo if len(claim) == 2 else 30000)
                    if r1 != 'unsat' and len(claim) > 2:
                        # the float-domain bound is sufficient, not necessary: decide the necessary integer bound instead
                        c = claim[2]
                        r1, m1 = ex.model_fresh(p.pc, z3.Not(c), tmo)
                    if r1 == 'sat':
                        r_, m = r1, m1
                        # prefer a model at the current wall clock so that it can be replayed natively
                        tnow = int(time.time())
                        r2, m2 = ex.model_fresh(list(p.pc) + [z3.UGE(nowsec, tnow + 1), z3.ULE(nowsec, tnow + 90)], z3.Not(c), tmo)
                        if r2 == 'sat': m = m2; replayable = True
                        else: replayable = False
                        break
                    if r1 == 'unknown': r_ = 'unknown'
                if r_ == 'unknown':
                    chk.absorb(ex, paths); chk.obligation(f'ssh-kernel {label}', label, 'inconclusive', 'solver unknown/timeout'); return
                if r_ == 'sat':
                    md = {'duration_ns': m.eval(d, model_completion=True).as_signed_long(), 'now_unix': m.eval(nowsec, model_completion=True).as_long(),
                          'ValidAfter': m.eval(va, model_completion=True).as_long(), 'ValidBefore': m.eval(vb, model_completion=True).as_long()}
                    rep = replay_ssh(chk, md) if replayable else None
                    if rep is False:
                        chk.obligation(f'ssh-kernel {label}', label, 'inconclusive', f'ENCODER-MISMATCH: model {md} does not reproduce natively'); chk.absorb(ex, paths); return
                    if chk.violation('ssh-validity', 'GenSSHCertFileString', 'SSH certificate validity exceeds now+duration / wraps around', md, confirmed=rep) == 'new': verdict = 'violated'
                    elif verdict == 'holds': verdict = 'known'
        chk.absorb(ex, paths)
        if n == 0 and label != 'd<0': chk.obligation(f'ssh-kernel {label}', label, 'inconclusive', 'no signing path'); return
        if n == 0:
            chk.obligation(f'ssh-kernel: negative durations are refused ({label})', f'all 64-bit durations {label}', 'holds', paths=len(paths), witness='no signing path: every path returns an error', t=time.time() - t); continue
        chk.witnesses += n
        chk.obligation(f'ssh-kernel: validity within now+ceil(max(0,d)), no wrap ({label})', f'all 64-bit durations {label}; clock 2020..2096 (every second)', verdict, paths=len(paths), t=time.time() - t)
    chk.sample({'obligation': 'ssh-kernel', 'function': name, 'symbolic': ['duration int64', 'now.unix uint64'], 'fp': 'float64 conversion exact (FP theory), amd64 float->uint64'})


def replay_ssh(chk, md):
    """native replay of an SSH-kernel counterexample: real GenSSHCertFileString, real signer, compare ValidBefore-now"""
    from symx import replay
    src = replay.GO_SSH_KERNEL.replace('@DURATION@', str(md['duration_ns']))
    ok, out = replay.go_test('lib/certgen', 'zz_verif_c03_test.go', src, 'TestVerifC03Replay')
    chk.replays += 1
    if ok is None: return None
    # the test FAILS (ok False) when the violation reproduces
    return (not ok)


def ob_x509_kernels(chk, ir):
    t = time.time(); verdict = 'holds'; n = 0; total = 0
    for fname, args_of in ((CG + '.GenUserX509Cert', 'user'), (CG + '.GenIPRestrictedX509Cert', 'ip')):
        if fname not in ir.funcs: chk.obligation('x509-kernel', '-', 'inconclusive', 'ANCHOR-LOST ' + fname); return
        H = kernel_exec(ir); ex = H.ex
        d = z3.BitVec('duration', 64)
        st = State(); st.pc.append(d <= H24 * 45)
        fn = ir.funcs[fname]
        args = []
        for prm in fn['params']:
            if prm['name'] == 'duration': args.append(d)
            else: args.append(Lazy(prm['type'], 'arg.' + prm['name']))
        H.add_hints(lens(r'^len\(arg\.', [0, 1]), nonnil_ptr(r'^arg\.(caCert|kerberosRealm)$'), nonnil_iface(r'^arg\.'))
        H.stub(CG + '.genDelegationExtension', issue.ext_stub('delegation'))
        paths = ex.run(fname, args, st)
        total += len(paths)
        for p in paths:
            if p.status in ('unsupported', 'unwind'):
                chk.absorb(ex, paths); chk.obligation('x509-kernel', fname, 'inconclusive', p.result); return
            for e in p.evs('sign'):
                n += 1
                now = p.aux.get('now'); nb = e['template']['NotBefore']; na = e['template']['NotAfter']
                if now is None or not isinstance(nb, TimeV):
                    chk.obligation('x509-kernel', fname, 'inconclusive', 'template times not in the clock model'); return
                dI = sbv2int(d)
                good = z3.And(nb.ns <= now, na.ns <= now + z3.If(dI > 0, dI, lib.T(0)), z3.Or(na.ns <= nb.ns, na.ns - nb.ns <= dI))
                r_, m = ex.model(p.pc, z3.Not(good))
                if r_ == 'unknown': chk.obligation('x509-kernel', fname, 'inconclusive', 'solver unknown'); return
                if r_ == 'sat':
                    if chk.violation('x509-validity', fname.split('.')[-1], 'X.509 validity exceeds now+duration or starts in the future', model_dict(m)) == 'new': verdict = 'violated'
        chk.absorb(ex, paths)
    if n == 0: chk.obligation('x509-kernel', '-', 'inconclusive', 'no signing path'); return
    chk.witnesses += n
    chk.obligation('x509-kernels: NotBefore <= now, NotAfter <= now + max(0,d)', 'every int64 duration <= 45d, every clock', verdict, paths=total, t=time.time() - t)


def ob_automation(chk, ir):
    t = time.time(); verdict = 'holds'; n = 0; total = 0
    D45 = 45 * H24
    for fname in (f'(*{M}.RuntimeState).parseRoleCertGenParams', f'(*{M}.RuntimeState).parseRefreshRoleCertGenParams'):
        if fname not in ir.funcs: chk.obligation('automation-duration', '-', 'inconclusive', 'ANCHOR-LOST ' + fname); return
        H = kernel_exec(ir); ex = H.ex
        H.stub(f'(*{M}.RuntimeState).isAutomationUser', lambda ex_, st, a, ins: lib.fork_results(ex_, st, ins, [(None, lambda s: (z3.BoolVal(False), lib.mk_error(s, z3.StringVal('x'), 'automation'))), (None, (z3.Bool('isAutomation'), lib.nilerr()))]))
        H.add_hints(lens(r'^len\(\*r\.Form\[', [1]), lens(r'VerifiedChains', [1]), lens(r'^len\(.*PeerCertificates\)', [1]))
        st, state, w, r = H.mkstate()
        paths = ex.run(fname, [state, r] if len(ir.funcs[fname]['params']) == 2 else [state, w, r], st)
        total += len(paths)
        RT = None
        for p in paths:
            if p.status == 'unsupported' or p.status == 'unwind':
                chk.absorb(ex, paths); chk.obligation('automation-duration', fname, 'inconclusive', p.result); return
            if p.status != 'returned': continue
            res = p.result
            prm = res[0]
            if not isinstance(prm, Ptr): continue
            v = ex.load(p, prm)
            T = ir.typeid(M + '.roleRequestingCertGenParams')
            dur = ex.getfield(p, v, T, 'Duration')
            e0, e1 = res[1], res[2]
            if isinstance(e0, IfaceV) and e0.tid is None and isinstance(e1, IfaceV) and e1.tid is None:
                n += 1
                r_, m = ex.model(p.pc, z3.Not(z3.And(dur <= D45, dur > 0)))
                if r_ == 'unknown': chk.obligation('automation-duration', fname, 'inconclusive', 'solver unknown'); return
                if r_ == 'sat':
                    if chk.violation('automation-duration', fname.split('.')[-1], 'role-requesting certificate duration above 45 days', model_dict(m)) == 'new': verdict = 'violated'
        chk.absorb(ex, paths)
    # cloud-role template
    tname = KM + '/lib/server/aws_identity_cert.(*Issuer).makeCertificateTemplate'
    cands = [f for f in ir.funcs if f.endswith('.makeCertificateTemplate')]
    for tname in cands:
        H = kernel_exec(ir); ex = H.ex
        fn = ir.funcs[tname]
        args = [Lazy(prm['type'], 'arg.' + prm['name']) for prm in fn['params']]
        H.add_hints(nonnil_ptr(r'^arg\.'), nonnil_iface(r'^arg\.'))
        H.ex.ptr_nilable = False
        paths = ex.run(tname, args, State()); total += len(paths)
        XT = ir.typeid('crypto/x509.Certificate')
        for p in paths:
            if p.status in ('unsupported', 'unwind'):
                chk.absorb(ex, paths); chk.obligation('automation-duration', tname, 'inconclusive', p.result); return
            if p.status != 'returned': continue
            res = p.result
            errs = [x for x in res if isinstance(x, IfaceV)]
            if errs and errs[-1].tid is not None: continue
            tmpl = res[0]
            if isinstance(tmpl, Ptr): tmpl = ex.load(p, tmpl)
            if not isinstance(tmpl, StructV): continue
            nb = ex.getfield(p, tmpl, XT, 'NotBefore'); na = ex.getfield(p, tmpl, XT, 'NotAfter'); now = p.aux.get('now')
            n += 1
            good = z3.And(nb.ns <= now, na.ns <= now + lib.T(H24)) if now is not None else z3.BoolVal(False)
            r_, m = ex.model(p.pc, z3.Not(good))
            if r_ == 'sat':
                if chk.violation('automation-duration', 'makeCertificateTemplate', 'cloud-role certificate lives longer than 24h', model_dict(m)) == 'new': verdict = 'violated'
        chk.absorb(ex, paths)
    if n == 0: chk.obligation('automation-duration', '-', 'inconclusive', 'no accepting path'); return
    chk.witnesses += n
    chk.obligation('automation: role-requesting <= 45d (both parsers), cloud-role <= 24h', 'all form inputs', verdict, paths=total, t=time.time() - t)


def main(chk):
    ir = chk.load_ir()
    handler = handler_for(ir, PREFIX)
    if handler is None: chk.obligation('anchor', '-', 'inconclusive', 'ANCHOR-LOST route ' + PREFIX); return
    chk.assumptions = ['time.ParseDuration returns an arbitrary int64 or an error (covers every accepted string)', 'A-clock: one clock reading per request; clock within 2020..2096',
                       'GOARCH=amd64 float64->uint64 conversion', 'checkAuth admits an arbitrary (user, level, IssuedAt) (C01/C06 decide admission)',
                       'interval semantics: a certificate with ValidBefore <= ValidAfter is never valid and is not a violation']
    chk.bounds = {'duration': 'all 2^64 values', 'clock': '2020-01-01..2096-01-01', 'IssuedAt': 'arbitrary integer instant'}
    ob_handler(chk, ir, handler)
    if chk.tier == 'quick':
        split = [('d>=0', lambda d: [d >= 0]), ('d<0', lambda d: [d < 0])]
    else:
        split = [('all d', lambda d: [])]
    ob_ssh_kernel(chk, ir, split)
    ob_x509_kernels(chk, ir)
    ob_automation(chk, ir)


if __name__ == '__main__':
    run_check('C03', main)
