"""Credential-level environment for handlers that call the real checkAuth: the callees that *establish* an identity are
stubbed by their contract and leave a 'cred' event; everything checkAuth itself decides is executed from its SSA."""
import z3
from .engine import *
from . import lib
from .lib import M, nilerr, mk_error, fork_results

PASSWORD, FEDERATED, U2F, VIP, IPCERT, TOTP, OKTA, BOOTSTRAP, KMX509, WEBAUTHCLI, FIDO2 = [1 << i for i in range(1, 12)]   # app.go: AuthTypeNone = 0 is iota 0, AuthTypePassword = 1 << iota starts at iota 1
NAMES = {'password': PASSWORD, 'federated': FEDERATED, 'U2F': U2F, 'SymantecVIP': VIP, 'IPCertificate': IPCERT, 'TOTP': TOTP,
         'Okta2FA': OKTA, 'BootstrapOTP': BOOTSTRAP, 'WebauthForCLI': WEBAUTHCLI}


def bv(n): return z3.BitVecVal(n, 64)


def authinfo_struct(ex, st, bits, user, exp, iat):
    AI = ex.ir.typeid(M + '.authInfo'); out = []
    for f in ex.ir.fields(AI):
        out.append({'AuthType': bits, 'Username': user, 'ExpiresAt': exp, 'IssuedAt': iat}[f['name']])
    return StructV(out)


def st_jwt(ex, st, a, ins):
    """getAuthInfoFromAuthJWT(token): Contract J at session level: success => fields are the token's claims (symbolic per token term)"""
    tok = a[1]; key = 'jwt(' + z3.simplify(tok).sexpr()[:60] + ')'
    if key not in st.memo:
        n = len([k for k in st.memo if k.startswith('jwt(')])
        st.memo[key] = {'bits': z3.BitVec(f'jwt{n}.bits', 64), 'user': z3.String(f'jwt{n}.user'), 'exp': z3.BitVec(f'jwt{n}.exp', lib.TW), 'iat': z3.BitVec(f'jwt{n}.iat', lib.TW), 'ok': z3.Bool(f'jwt{n}.verifies'), 'tok': tok}
    c = st.memo[key]
    def ok(s):
        s.ev('cred', kind='jwt', verified=z3.BoolVal(True), bits=c['bits'], user=c['user'], exp=c['exp'], iat=c['iat'], token=tok)
        return (authinfo_struct(ex, s, c['bits'], c['user'], TimeV(c['exp']), TimeV(c['iat'])), nilerr())
    def bad(s):
        AI = ex.ir.typeid(M + '.authInfo')
        return (ex.zero(AI), mk_error(s, z3.StringVal('bad jwt'), 'jwt'))
    return fork_results(ex, st, ins, [(z3.Not(c['ok']), bad), (c['ok'], ok)])


def st_kmsigned(ex, st, a, ins):
    """getUsernameIfKeymasterSigned(chains) -> (user, notBefore, err): user != "" only for a chain signed by a keymaster key"""
    u = z3.String('kmcert.user'); nb = z3.BitVec('kmcert.notBefore', lib.TW); okb = z3.Bool('kmcert.signedByKeymaster')
    def ok(s):
        s.pc.append(u != z3.StringVal(''))
        s.ev('cred', kind='kmcert', verified=z3.BoolVal(True), bits=bv(KMX509), user=u, exp=None, iat=nb)
        return (u, TimeV(nb), nilerr())
    return fork_results(ex, st, ins, [
        (z3.And(z3.Not(okb), z3.Bool('kmcert.err')), lambda s: (z3.StringVal(''), TimeV(lib.T(lib.ZERO_NS)), mk_error(s, z3.StringVal('km'), 'kmcert'))),
        (z3.And(z3.Not(okb), z3.Not(z3.Bool('kmcert.err'))), (z3.StringVal(''), TimeV(lib.T(lib.ZERO_NS)), nilerr())),
        (okb, ok)])


def st_iprestricted(ex, st, a, ins):
    """getUsernameIfIPRestricted(chains, r) -> (user, now, userErr, err)"""
    u = z3.String('ipcert.user'); inside = z3.Bool('ipcert.peerInsideAndAutomationUser'); e = z3.Bool('ipcert.err')
    def ok(s):
        now = lib.t_now(ex, s, [], ins)
        s.ev('cred', kind='ipcert', verified=z3.BoolVal(True), bits=bv(IPCERT), user=u, exp=None, iat=now.ns)
        return (u, now, nilerr(), nilerr())
    Z = TimeV(lib.T(lib.ZERO_NS))
    return fork_results(ex, st, ins, [
        (e, lambda s: (z3.StringVal(''), Z, nilerr(), mk_error(s, z3.StringVal('iperr'), 'ipcert'))),
        (z3.And(z3.Not(e), z3.Not(inside)), lambda s: (z3.StringVal(''), Z, mk_error(s, z3.StringVal('Bad incoming ip addres'), 'ipuser'), nilerr())),
        (z3.And(z3.Not(e), inside), ok)])


def st_checkpw(ex, st, a, ins):
    """checkUserPassword(user, pass, config, checker, r) -> (valid, err): the backend's verdict for (user, pass)"""
    v = z3.Bool('backend.valid'); e = z3.Bool('backend.err')
    st.ev('backend', user=a[0], password=a[1])
    def ok(s):
        s.ev('cred', kind='password', verified=z3.BoolVal(True), bits=bv(PASSWORD), user=a[0], exp=None, iat=None)
        return (z3.BoolVal(True), nilerr())
    return fork_results(ex, st, ins, [
        (e, lambda s: (z3.BoolVal(False), mk_error(s, z3.StringVal('backend'), 'backend'))),
        (z3.And(z3.Not(e), z3.Not(v)), (z3.BoolVal(False), nilerr())),
        (z3.And(z3.Not(e), v), ok)])


def st_allow(ex, st, a, ins):
    st.counter += 1
    b = z3.Bool(f'limiter.allow!{st.counter}')
    st.ev('allow', result=b)
    return b


def st_fail(ex, st, a, ins):
    st.ev('fail', code=a[3], msg=a[4])


def install(H, inline_checkauth=True, stub_fail=True):
    H.stub(f'(*{M}.RuntimeState).getAuthInfoFromAuthJWT', st_jwt)
    H.stub(f'(*{M}.RuntimeState).getUsernameIfKeymasterSigned', st_kmsigned)
    H.stub(f'(*{M}.RuntimeState).getUsernameIfIPRestricted', st_iprestricted)
    H.stub(f'{M}.checkUserPassword', st_checkpw)
    H.stub('(*golang.org/x/time/rate.Limiter).Allow', st_allow)
    if stub_fail: H.stub(f'(*{M}.RuntimeState).writeFailureResponse', st_fail)
    H.add_hints(
        # r.TLS: nil or a state with 0..1 verified chains (content is only seen by the stubs above)
    )


def verified_identity(st, user_term, ok_bits, now=None):
    """oracle helper: some credential that verified on this path is for user_term and its bits satisfy ok_bits(bits);
    session cookies must be unexpired at 'now' (when the path read the clock)"""
    alts = []
    for e in st.evs('cred'):
        c = [e['user'] == user_term, ok_bits(e['bits'])]
        if e['kind'] == 'jwt' and now is not None: c.append(e['exp'] >= now)
        alts.append(z3.And(c))
    return z3.Or(alts) if alts else z3.BoolVal(False)
