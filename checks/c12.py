"""C12 — OpenID tokens go only to the right client and name the right user.

Handlers executed from SSA with go-jose by Contract J (symx/jose.py: a code / access token is an arbitrary string whose verified JSON
members are symbolic; minted tokens carry their claims), two configured clients (ids and secrets arbitrary, secrets possibly empty),
client credentials in header or form, PKCE blob = authenticated encryption of (challenge, method) (uninterpreted open/seal), hashes
uninterpreted.  Oracles, decided by z3 at the moment a token is minted / the userinfo body is produced:
 token endpoint : mint => code verified by a keymaster key, presented client = code.sub, (secret presented = that client's non-empty
                  secret) or (client has no secret and verifier matches the bound challenge under the bound method), code.exp >= now,
                  redirect_uri equal, code.type = token_endpoint, POST.  ID token: iss = issuer, aud = [client], sub = code.username,
                  nonce = code.nonce, exp = code.auth_exp.  Access token: username / scope / exp from the code, type bearer, iss = issuer.
 authorization  : the code minted carries username = logged-in user, sub = client_id, the validated redirect_uri, type token_endpoint,
                  auth_exp <= now + 16h, exp <= now + 5 min.
 userinfo       : a body is produced only for a verified, unexpired bearer token of this issuer with the userinfo audience (or none), and names
                  the token's user.
"""
import time, z3, re
from symx.check import run_check, term, model_dict
from symx.engine import *
from symx.harness import *
from symx import lib, authmodel as am, gate, sweep, jose
from symx.lib import M, nilerr, mk_error, fork_results

SV = z3.StringVal
S = z3.StringSort()
SHA = z3.Function('sha256', S, S); B64 = z3.Function('base64url', S, S)
OPEN = z3.Function('aead.open', S, S, S, S)          # plaintext(ciphertext, aad, key)
CHALLENGE = z3.Function('json.code_challenge', S, S); METHOD = z3.Function('json.code_challenge_method', S, S)
H16 = 16 * 3600


def common(ir, budget=200):
    H = HandlerRun(ir, loop_bound=6, budget_s=budget, max_paths=60000); ex = H.ex; ex.ptr_nilable = False
    jose.install(H)
    H.stub(f'(*{M}.RuntimeState).writeFailureResponse', am.st_fail)
    H.stub(f'{M}.publicToPreferedJoseSigAlgo', sweep.st_sig_algo)
    H.stub_pat(r'^crypto\.Signer\.Public$|Signer\)\.Public$', sweep.st_signer_public)
    H.stub(f'{M}.genRandomString', sweep.st_rand_string)
    H.stub(f'{M}.getKeyFingerprint', lambda ex_, st, a, ins: fork_results(ex_, st, ins, [(None, lambda s: (SV(''), mk_error(s, SV('fp'), 'fp'))), (None, (z3.String('kid'), nilerr()))]))
    H.stub(f'(*{M}.RuntimeState).getJoseKeymastedVerifierList', lambda ex_, st, a, ins: fork_results(ex_, st, ins, [(None, lambda s: (NILSLICE(), mk_error(s, SV('algs'), 'algs'))), (None, lambda s: (ex_.mkslice(s, [z3.String('alg0')]), nilerr()))]))
    issuer = z3.String('issuer')
    H.stub(f'(*{M}.RuntimeState).idpGetIssuer', lambda ex_, st, a, ins: issuer)
    for nm in ('CorsOriginAllowed', 'CanRedirectToURL'):
        pass
    H.stub(f'(*{M}.OpenIDConnectClientConfig).CorsOriginAllowed', lambda ex_, st, a, ins: fork_results(ex_, st, ins, [(None, lambda s: (z3.BoolVal(False), mk_error(s, SV('cors'), 'cors'))), (None, (z3.Bool(lib.fresh_name(st, 'corsAllowed')), nilerr()))]))
    H.stub(f'(*{M}.RuntimeState).idpOpenIDCGenericIsCorsOriginAllowed', lambda ex_, st, a, ins: fork_results(ex_, st, ins, [(None, lambda s: (z3.BoolVal(False), mk_error(s, SV('cors'), 'cors'))), (None, (z3.Bool(lib.fresh_name(st, 'corsAllowed')), nilerr()))]))
    H.stub('net/url.QueryUnescape', lambda ex_, st, a, ins: fork_results(ex_, st, ins, [(None, lambda s: (SV(''), mk_error(s, SV('esc'), 'unescape'))), (None, (z3.Function('url.QueryUnescape', S, S)(a[0]), nilerr()))]))
    H.stub('net/url.QueryEscape', lambda ex_, st, a, ins: z3.Function('url.QueryEscape', S, S)(a[0]))
    H.stub_pat(r'encoding/json\.Encoder\)\.Encode$', lambda ex_, st, a, ins: (st.ev('json', value=a[1], via='Encode'), nilerr())[1])
    def jmarshal(ex_, st, a, ins):
        st.ev('json', value=a[0], via='Marshal'); st.counter += 1
        return fork_results(ex_, st, ins, [(None, lambda s: (NILSLICE(), mk_error(s, SV('json'), 'json'))), (None, (BytesV(z3.String(f'json!{st.counter}')), nilerr()))])
    H.stub('encoding/json.Marshal', jmarshal)
    H.stub('encoding/json.Indent', lambda ex_, st, a, ins: nilerr())
    H.add_hints(nonnil_iface(r'^\*state\.Signer$', 'mainSigner'), lens(r'^len\(\*r\.(Post)?Form\[', [1]))
    return H, issuer


def clients(ir, ex, st, n=2):
    CT = ir.typeid(M + '.OpenIDConnectClientConfig'); cs = []; ids = []; secrets = []
    for i in range(n):
        cid = z3.String(f'client{i}.id'); sec = z3.String(f'client{i}.secret'); ids.append(cid); secrets.append(sec)
        v = []
        for f in ir.fields(CT):
            v.append({'ClientID': cid, 'ClientSecret': sec}.get(f['name']) if f['name'] in ('ClientID', 'ClientSecret') else Lazy(f['type'], f'client{i}.{f["name"]}'))
        cs.append(StructV(v))
    for i in range(n):
        for j in range(i + 1, n): st.pc.append(ids[i] != ids[j])
    return cs, ids, secrets


def ob_token(chk, ir):
    t = time.time(); name = f'(*{M}.RuntimeState).idpOpenIDCTokenHandler'
    if name not in ir.funcs: chk.obligation('token-endpoint', '-', 'inconclusive', 'ANCHOR-LOST ' + name); return
    H, issuer = common(ir); ex = H.ex
    st, state, w, r = H.mkstate()
    cs, ids, secrets = clients(ir, ex, st)
    H.add_hints(pin(r'OpenIDConnectIDP\.Client$', lambda ex_, s, tid, nm: ex_.mkslice(s, [clone(c) for c in cs])))
    # PKCE blob
    H.stub(f'(*{M}.RuntimeState).deserializeKeysetIntoPlaintextKey', lambda ex_, s, a, ins: fork_results(ex_, s, ins, [(None, lambda s2: (NILSLICE(), mk_error(s2, SV('keys'), 'keys'))), (None, (BytesV(z3.Function('keyset.key', S, S)(a[1].s if isinstance(a[1], BytesV) else z3.String('ks'))), nilerr()))]))
    def decode_open(ex_, s, a, ins):
        ct = a[0]; aad = a[1].s if isinstance(a[1], BytesV) else z3.String('aad'); key = a[2].s if isinstance(a[2], BytesV) else z3.String('key')
        pt = OPEN(ct, aad, key)
        return fork_results(ex_, s, ins, [(None, lambda s2: (NILSLICE(), mk_error(s2, SV('open'), 'open'))), (None, (BytesV(pt), nilerr()))])
    H.stub(f'{M}.decodeOpenData', decode_open)
    def junmarshal(ex_, s, a, ins):
        src = a[0].s if isinstance(a[0], BytesV) else z3.String('json')
        dst = a[1].val if isinstance(a[1], IfaceV) else a[1]
        PD = ir.typeid(M + '.keymasterdIDPCodeProtectedData')
        def ok(s2):
            ex_.store(s2, dst, StructV({'CodeChallenge': CHALLENGE(src), 'CodeChallengeMethod': METHOD(src)}[f['name']] for f in ir.fields(PD)))
            s2.ev('pkce', blob=src); return nilerr()
        return fork_results(ex_, s, ins, [(None, lambda s2: mk_error(s2, SV('json'), 'json')), (None, ok)])
    H.stub('encoding/json.Unmarshal', junmarshal)
    H.stub('crypto/sha256.Sum256', lambda ex_, s, a, ins: Opaque('sha256sum', of=a[0].s if isinstance(a[0], BytesV) else z3.String('x')))
    def b64enc(ex_, s, a, ins):
        src = a[1]
        if isinstance(src, Opaque) and src.what == 'sha256sum': return B64(SHA(src.of))
        if isinstance(src, BytesV): return B64(src.s)
        return lib.fresh_str(s, 'b64')
    H.stub_pat(r'encoding/base64\.Encoding\)\.EncodeToString$', b64enc)
    H.ex.stub_pats.insert(0, (re.compile(r'^NEVER$'), None))
    # slicing an opaque array value (sum[:]) keeps the opaque
    orig_slice = ex.slice_op
    def slice_op(st_, fr, ins):
        x = ex.val(st_, fr, ins['x'])
        if isinstance(x, Ptr):
            v = st_.heap.get(x.obj)
            if isinstance(v, Opaque) and v.what == 'sha256sum': fr.regs[ins['reg']] = v; return None
        return orig_slice(st_, fr, ins)
    ex.slice_op = slice_op
    out = {'verdict': 'holds', 'mints': 0, 'unknown': False}
    code = z3.Select if False else None
    def on_mint(ex_, s, e):
        out['mints'] += 1
        decs = [d for d in s.evs('decode') if 'keymasterdCodeToken' in d['into']]
        if not decs: viol('token-endpoint/no-code', 'a token is minted without decoding an authorization code'); return
        tok = decs[-1]['token']
        def mem(n, kind='str'):
            key = f'jwt[{jose.tokid(tok)}].{n}'
            return z3.String(key) if kind == 'str' else z3.BitVec(key, 64)
        form = lambda k: z3.If(z3.Bool(f'*r.Form["{k}"].present'), z3.String(f'*r.Form["{k}"][0]'), SV(''))
        now = s.aux.get('now')
        nowsec = z3.Extract(63, 0, lib.floordiv(now, 10**9)) if now is not None else None
        bu, bp, bok = z3.String('basic.user'), z3.String('basic.pass'), z3.Bool('basic.ok')
        UNQ = z3.Function('url.QueryUnescape', S, S)
        # presented credentials (independent reading of the request): header (percent-decoded when decodable) or form
        cid_alts = [z3.And(bok, z3.Or(cidv == bu, cidv == UNQ(bu))) for cidv in []]
        kind = e.get('kind') or ''
        claims = e['claims']
        sub = mem('sub'); exp = mem('exp', 'int'); typ = mem('type'); red = mem('redirect_uri'); user = mem('username'); nonce = mem('nonce'); authexp = mem('auth_exp', 'int'); scope = mem('scope')
        pdk = mem('protected_data_key'); pd = mem('protected_data'); jti = mem('jti')
        blob = OPEN(pd, jti, z3.Function('keyset.key', S, S)(pdk))
        verifier = form('code_verifier')
        pkce_ok = z3.And(verifier != SV(''), z3.Or(z3.And(z3.Or(METHOD(blob) == SV(''), METHOD(blob) == SV('plain')), verifier == CHALLENGE(blob)), z3.And(METHOD(blob) == SV('S256'), B64(SHA(verifier)) == CHALLENGE(blob))))
        proofs = []
        for i in range(len(ids)):
            for presented_id, presented_pw in ((bu, bp), (UNQ(bu), bp), (bu, UNQ(bp)), (UNQ(bu), UNQ(bp)), (form('client_id'), form('client_secret'))):
                by_secret = z3.And(secrets[i] != SV(''), presented_pw == secrets[i])
                by_pkce = z3.And(secrets[i] == SV(''), pkce_ok)
                proofs.append(z3.And(presented_id == ids[i], sub == ids[i], z3.Or(by_secret, by_pkce)))
        conj = [('code verified by a keymaster key', jose.Verifies(tok)), ('client proves it is the client the code was issued to (secret, or PKCE for a secret-less client)', z3.Or(proofs)),
                ('code unexpired', exp >= nowsec if nowsec is not None else z3.BoolVal(False)), ('same redirect_uri', red == form('redirect_uri')), ('code is of kind token_endpoint', typ == SV('token_endpoint')),
                ('POST', z3.String('*r.Method') == SV('POST'))]
        if kind.endswith('openIDConnectIDToken'):
            aud = claims.get('aud'); audv = ex_.slice_values(s, aud) if isinstance(aud, SliceV) else None
            conj += [('id token issuer', claims['iss'] == issuer), ('id token subject = user of the code', claims['sub'] == user), ('nonce echoed', claims['nonce'] == nonce), ('id token expiry = session expiry bound into the code', claims['exp'] == authexp),
                     ('id token audience = [client]', z3.And(audv[0] == sub) if audv is not None and len(audv) == 1 else z3.BoolVal(False))]
        elif kind.endswith('bearerAccessToken'):
            conj += [('access token user = user of the code', claims['username'] == user), ('access token kind bearer', claims['type'] == SV('bearer')), ('access token issuer', claims['iss'] == issuer), ('access token expiry', claims['exp'] == authexp)]
        else:
            viol('token-endpoint/unknown-mint', f'unexpected token kind minted: {kind}'); return
        for cname, c in conj:
            r_, m = ex_.model_fresh(s.pc, z3.Not(c), 30000)
            if r_ == 'unknown': out['unknown'] = True
            if r_ == 'sat': viol(f'token-endpoint/{cname}', f'tokens are released although: not ({cname})', m)
    def viol(site, what, m=None):
        if chk.violation('token-endpoint', site, what, model_dict(m) if m is not None else None) == 'new': out['verdict'] = 'violated'
    ex.on_mint = on_mint
    paths = ex.run(name, [state, w, r], st)
    bad = [p for p in paths if p.status in ('unsupported', 'unwind')]
    chk.absorb(ex, paths)
    if bad: chk.obligation('token-endpoint', '-', 'inconclusive', bad[0].result); return
    if out['unknown']: chk.obligation('token-endpoint', '-', 'inconclusive', 'solver unknown'); return
    for p in paths:
        if p.status == 'panic':
            r_, m = ex.model(p.pc)
            viol('token-endpoint/panic', 'handler panics: ' + p.result, m)
    if out['mints'] == 0: chk.obligation('token-endpoint', '-', 'inconclusive', 'vacuous: no token minted'); return
    chk.witnesses += out['mints']
    chk.obligation('token-endpoint: tokens only to the client the code was issued to (secret / PKCE), fresh code, same redirect; ID and access token claims', '2 clients, credentials in header or form, all claim values', out['verdict'], paths=len(paths), witness=f"{out['mints']} mint events", t=time.time() - t)
    chk.sample({'obligation': 'token-endpoint', 'paths': len(paths), 'mints': out['mints']})


def ob_authorize(chk, ir, sp_login=False):
    """sp_login=True (used by C20): paths are followed past the mint to the redirect, and the service-provider login event is checked"""
    t = time.time(); name = f'(*{M}.RuntimeState).idpOpenIDCAuthorizationHandler'
    if name not in ir.funcs: chk.obligation('authorization', '-', 'inconclusive', 'ANCHOR-LOST ' + name); return
    H, issuer = common(ir); ex = H.ex
    H.stub(gate.CHECKAUTH, gate.st_checkauth_any(ir))
    H.stub(f'(*{M}.RuntimeState).sendFailureToClientIfLocked', lambda ex_, s, a, ins: z3.BoolVal(False))
    st, state, w, r = H.mkstate()
    cs, ids, secrets = clients(ir, ex, st)
    H.add_hints(pin(r'OpenIDConnectIDP\.Client$', lambda ex_, s, tid, nm: ex_.mkslice(s, [clone(c) for c in cs])))
    canred = z3.Function('CanRedirectToURL', S, S, z3.BoolSort())
    def can_redirect(ex_, s, a, ins):
        CT = ir.typeid(M + '.OpenIDConnectClientConfig'); c = ex_.load(s, a[0]); cid = ex_.getfield(s, c, CT, 'ClientID')
        s.ev('canredirect', client=cid, url=a[1])
        U = ir.typeid('net/url.URL')
        return fork_results(ex_, s, ins, [(None, lambda s2: (z3.BoolVal(False), NIL, mk_error(s2, SV('re'), 'canredirect'))),
                                          (None, lambda s2: (canred(cid, a[1]), Ptr(s2.alloc(Lazy(U, lib.fresh_name(s2, '*redirurl')))), nilerr()))])
    H.stub(f'(*{M}.OpenIDConnectClientConfig).CanRedirectToURL', can_redirect)
    for nm in ('encryptKeyAndSerialize',):
        H.stub(f'(*{M}.RuntimeState).{nm}', lambda ex_, s, a, ins: fork_results(ex_, s, ins, [(None, lambda s2: (NILSLICE(), mk_error(s2, SV('enc'), 'enc'))), (None, (BytesV(lib.fresh_str(s, 'keyset')), nilerr()))]))
    H.stub(f'{M}.genRandomBytes', lambda ex_, s, a, ins: fork_results(ex_, s, ins, [(None, lambda s2: (NILSLICE(), mk_error(s2, SV('rand'), 'rand'))), (None, (BytesV(lib.fresh_str(s, 'randkey')), nilerr()))]))
    H.stub(f'{M}.sealEncodeData', lambda ex_, s, a, ins: fork_results(ex_, s, ins, [(None, lambda s2: (SV(''), mk_error(s2, SV('seal'), 'seal'))), (None, (lib.fresh_str(s, 'sealed'), nilerr()))]))
    H.stub('strings.Split', lambda ex_, s, a, ins: ex_.mkslice(s, [z3.String('scope.part0'), z3.String('scope.part1')]))
    H.stub_pat(r'net/url\.URL\)\.Redacted$', lambda ex_, s, a, ins: lib.fresh_str(s, 'redacted'))
    out = {'verdict': 'holds', 'mints': 0}
    def viol(site, what, m=None):
        if chk.violation('authorization', site, what, model_dict(m) if m is not None else None) == 'new': out['verdict'] = 'violated'
    def on_mint(ex_, s, e):
        out['mints'] += 1
        adm = s.evs('admitted'); c = e['claims']
        if not adm: viol('authorization/ungated', 'code minted without an authenticated session'); return
        now = s.aux.get('now'); nowsec = z3.Extract(63, 0, lib.floordiv(now, 10**9)) if now is not None else None
        form = lambda k: z3.If(z3.Bool(f'*r.Form["{k}"].present'), z3.String(f'*r.Form["{k}"][0]'), SV(''))
        cr = s.evs('canredirect')
        conj = [('code names the logged-in user', c['username'] == adm[-1]['user']), ('code issued to the requesting client_id', c['sub'] == form('client_id')),
                ('client_id is a configured client', z3.Or([form('client_id') == i for i in ids])), ('code kind', c['type'] == SV('token_endpoint')), ('code binds the redirect_uri', c['redirect_uri'] == form('redirect_uri')),
                ('redirect_uri was accepted for that client', z3.Or([z3.And(x['client'] == form('client_id'), x['url'] == form('redirect_uri'), canred(x['client'], x['url'])) for x in cr]) if cr else z3.BoolVal(False)),
                ('session bound <= 16h', z3.And(c['auth_exp'] <= nowsec + H16, c['auth_exp'] >= nowsec) if nowsec is not None else z3.BoolVal(False)),
                ('code lifetime <= 5 min', z3.And(c['exp'] <= nowsec + 300, c['exp'] <= c['auth_exp']) if nowsec is not None else z3.BoolVal(False)), ('issuer', c['iss'] == issuer), ('nonce bound', c['nonce'] == form('nonce'))]
        for cname, cc in conj:
            r_, m = ex_.model_fresh(s.pc, z3.Not(cc), 30000)
            if r_ == 'sat': viol(f'authorization/{cname}', f'authorization code minted although: not ({cname})', m)
        if not sp_login: raise PathCut('sink stop')
    ex.on_mint = on_mint
    if sp_login: H.stub_pat(r'eventnotifier\.EventNotifier\)\.Publish(\w+)$', sweep.st_publish_any)
    paths = ex.run(name, [state, w, r], st)
    if sp_login:
        n = 0; verdict = 'holds'
        for p in paths:
            if p.status != 'returned' or not p.evs('mint') or not p.evs('redirect'): continue
            n += 1; adm = p.evs('admitted')
            first = min(p.events.index(e) for e in p.evs('redirect'))
            pubs = [e for e in p.evs('publish') if 'ServiceProviderLogin' in str(e['kind']) and p.events.index(e) < first]
            form = lambda k: z3.If(z3.Bool(f'*r.Form["{k}"].present'), z3.String(f'*r.Form["{k}"][0]'), SV(''))
            if not pubs:
                if chk.violation('sp-logins-reported', 'idpOpenIDCAuthorizationHandler/not-reported', 'an authorization code is handed to a service provider without a service-provider login event', None) == 'new': verdict = 'violated'
                continue
            a_ = pubs[-1].get('args') or []
            ok_ = len(a_) >= 2 and adm and ex.check(p.pc, z3.Or(a_[1] != adm[-1]['user'], a_[0] != form('redirect_uri')))[0] == 'unsat'
            if not ok_:
                if chk.violation('sp-logins-reported', 'idpOpenIDCAuthorizationHandler/wrong-event', 'the service-provider login event does not name the logged-in user and the redirect URL the code is sent to', None) == 'new': verdict = 'violated'
        chk.absorb(ex, paths)
        bad = [p for p in paths if p.status in ('unsupported', 'unwind')]
        if bad: chk.obligation('sp-logins-reported', '-', 'inconclusive', bad[0].result); return
        if n == 0: chk.obligation('sp-logins-reported', '-', 'inconclusive', 'vacuous: no completed authorization'); return
        chk.witnesses += n
        chk.obligation('sp-logins-reported: every authorization code handed to a service provider is preceded by a service-provider login event naming the logged-in user and that redirect URL', '2 clients, all form values', verdict if out['verdict'] == 'holds' else out['verdict'], paths=len(paths), witness=f'{n} completed authorizations', t=time.time() - t)
        return
    bad = [p for p in paths if p.status in ('unsupported', 'unwind')]
    chk.absorb(ex, paths)
    if bad: chk.obligation('authorization', '-', 'inconclusive', bad[0].result); return
    if out['mints'] == 0: chk.obligation('authorization', '-', 'inconclusive', 'vacuous: no code minted'); return
    chk.witnesses += out['mints']
    chk.obligation('authorization: the code binds the logged-in user, the client, the accepted redirect_uri, the nonce; session bound <= 16h, code <= 5 min', '2 clients, all form values', out['verdict'], paths=len(paths), witness=f"{out['mints']} mint events", t=time.time() - t)


def ob_userinfo(chk, ir):
    t = time.time(); name = f'(*{M}.RuntimeState).idpOpenIDCUserinfoHandler'
    if name not in ir.funcs: chk.obligation('userinfo', '-', 'inconclusive', 'ANCHOR-LOST ' + name); return
    H, issuer = common(ir); ex = H.ex
    st, state, w, r = H.mkstate()
    H.stub(f'(*{M}.RuntimeState).getUserAttributes', lambda ex_, s, a, ins: fork_results(ex_, s, ins, [(None, lambda s2: (NIL, mk_error(s2, SV('ldap'), 'ldap'))), (None, (NIL, nilerr()))]))
    H.stub('strings.Split', lambda ex_, s, a, ins: SliceV(s.alloc(LazyArr(ir.typeid('string'), lib.fresh_name(s, 'authz.split'))), 0, None, None))
    H.add_hints(lens(r'^len\(authz\.split', [0, 2]), lens(r'\.aud\)$', [0, 1, 2]))
    out = {'verdict': 'holds', 'bodies': 0}
    UI = ir.typeid(M + '.openidConnectUserInfo')
    def viol(site, what, m=None):
        if chk.violation('userinfo', site, what, model_dict(m) if m is not None else None) == 'new': out['verdict'] = 'violated'
    orig = ex.stubs['encoding/json.Marshal']
    def jmarshal(ex_, s, a, ins):
        v = a[0]
        if isinstance(v, IfaceV) and not str(v.tid).startswith('dyn:') and ir.tstr(v.tid) == M + '.openidConnectUserInfo':
            out['bodies'] += 1
            decs = [d for d in s.evs('decode') if 'bearerAccessToken' in d['into']]
            if not decs: viol('userinfo/no-token', 'user information produced without decoding an access token')
            else:
                tok = decs[-1]['token']
                def mem(n, kind='str'):
                    key = f'jwt[{jose.tokid(tok)}].{n}'
                    return z3.String(key) if kind == 'str' else z3.BitVec(key, 64)
                now = s.aux.get('now'); nowsec = z3.Extract(63, 0, lib.floordiv(now, 10**9)) if now is not None else None
                sv = v.val; ex_.forceall(s, sv)
                subj = ex_.getfield(s, sv, UI, 'Subject'); uname = ex_.getfield(s, sv, UI, 'Username')
                n_aud = s.memo.get(f'len(jwt[{jose.tokid(tok)}].aud)')
                audok = z3.BoolVal(True)
                if n_aud:
                    audok = z3.Or([z3.String(f'jwt[{jose.tokid(tok)}].aud[{i}]') == z3.Concat(issuer, SV('/idp/oauth2/userinfo')) for i in range(n_aud)])
                elif n_aud is None: audok = z3.BoolVal(False)
                conj = [('access token verified by a keymaster key', jose.Verifies(tok)), ('kind bearer', mem('type') == SV('bearer')), ('this issuer', mem('iss') == issuer), ('unexpired', mem('exp', 'int') >= nowsec if nowsec is not None else z3.BoolVal(False)),
                        ('audience empty or contains the userinfo endpoint', audok), ('names the token\'s user', z3.And(subj == mem('username'), uname == mem('username')))]
                for cname, cc in conj:
                    r_, m = ex_.model_fresh(s.pc, z3.Not(cc), 30000)
                    if r_ == 'sat': viol(f'userinfo/{cname}', f'user information is returned although: not ({cname})', m)
            raise PathCut('sink stop')
        return orig(ex_, s, a, ins)
    H.stub('encoding/json.Marshal', jmarshal)
    paths = ex.run(name, [state, w, r], st)
    bad = [p for p in paths if p.status in ('unsupported', 'unwind')]
    chk.absorb(ex, paths)
    if bad: chk.obligation('userinfo', '-', 'inconclusive', bad[0].result); return
    if out['bodies'] == 0: chk.obligation('userinfo', '-', 'inconclusive', 'vacuous: no body produced'); return
    chk.witnesses += out['bodies']
    chk.obligation('userinfo: only for a verified, unexpired bearer token of this issuer with the right audience; names that token\'s user', 'all claim values, audience list 0..2', out['verdict'], paths=len(paths), witness=f"{out['bodies']} bodies", t=time.time() - t)


def main(chk):
    ir = chk.load_ir()
    chk.assumptions = ['Contract J (go-jose): a token verifies or not; its verified payload is an arbitrary JSON object', 'AEAD open/seal, SHA-256, base64url, percent-decoding: uninterpreted functions',
                       'CanRedirectToURL / CORS decisions are C13\'s subject (uninterpreted predicate of (client, url) here)', 'checkAuth admits an arbitrary user (C06)']
    chk.bounds = {'clients': 2, 'audience list': '0..2', 'strings': 'unbounded'}
    ob_token(chk, ir)
    ob_authorize(chk, ir)
    ob_userinfo(chk, ir)


if __name__ == '__main__':
    run_check('C12', main)
