"""symx: symbolic executor for the go/ssa JSON IR exported from /repo.

Values
  z3 BitVec / Bool / String / FP      Go ints (wrapping), bool, string, float64
  IntV(e)                             Go int carried as mathematical integer (string lengths / indices)
  Ptr(obj, path) | NIL                concrete reference into the path's heap
  SliceV(obj, off, len, cap)          len None => lazily sized input slice (length chosen by Choice)
  StructV / ArrayV                    python lists of values (copied by value)
  MapV(obj)                           heap cell {'base','writes','elem','key'}
  IfaceV(tid, val)                    tid None => nil interface; tid 'dyn:<name>' => unknown dynamic type
  FuncV(name, bindings)               function value / closure
  Opaque(what)                        uninterpreted value
  Lazy(tid, name)                     not yet materialised symbolic input (materialised on first use)
All laziness is resolved through State.memo (keyed by access path), so copies stay consistent.
"""
import z3, time, re, itertools
from .ir import *


class Nil:
    def __repr__(self): return 'nil'
NIL = Nil()


class Ptr:
    __slots__ = ('obj', 'path')
    def __init__(self, obj, path=()): self.obj = obj; self.path = tuple(path)
    def __repr__(self): return f'&{self.obj}{list(self.path)}'
    def __eq__(self, o): return isinstance(o, Ptr) and o.obj == self.obj and o.path == self.path
    def __hash__(self): return hash((self.obj, self.path))


class SliceV:
    __slots__ = ('obj', 'off', 'len', 'cap')
    def __init__(self, obj, off, ln, cap): self.obj, self.off, self.len, self.cap = obj, off, ln, cap
    def __repr__(self): return f'slice({self.obj},{self.off},{self.len},{self.cap})'
NILSLICE = lambda: SliceV(None, 0, 0, 0)


class IfaceV:
    __slots__ = ('tid', 'val')
    def __init__(self, tid, val): self.tid, self.val = tid, val
    def __repr__(self): return f'iface({self.tid},{self.val})'
    @property
    def isnil(self): return self.tid is None


class FuncV:
    __slots__ = ('name', 'bindings')
    def __init__(self, name, bindings=()): self.name, self.bindings = name, tuple(bindings)
    def __repr__(self): return f'func({self.name})'


class StructV(list): pass
class ArrayV(list): pass


class MapV:
    __slots__ = ('obj',)
    def __init__(self, obj): self.obj = obj
    def __repr__(self): return f'map({self.obj})'


class IntV:
    """Go int carried as a mathematical integer (string lengths / indices); wrap-around is not modelled for these"""
    __slots__ = ('e',)
    def __init__(self, e): self.e = e
    def __repr__(self): return f'IntV({self.e})'


class Opaque:
    n = 0
    def __init__(self, what, **kw):
        Opaque.n += 1; self.id = Opaque.n; self.what = what; self.__dict__.update(kw)
    def __repr__(self): return f'<{self.what}#{self.id}>'


class BytesV:
    """[]byte view of a string term (conversion []byte(s)); string(b) recovers the term"""
    __slots__ = ('s',)
    def __init__(self, s): self.s = s
    def __repr__(self): return f'bytes({self.s})'


class Lazy:
    __slots__ = ('tid', 'name')
    def __init__(self, tid, name): self.tid, self.name = tid, name
    def __repr__(self): return f'lazy({self.name})'


class LazyArr:
    """backing store of an input slice whose length has not been chosen yet"""
    __slots__ = ('elem', 'name')
    def __init__(self, elem, name): self.elem, self.name = elem, name


class TimeV:
    """time.Time in the integer-instant model: nanoseconds since the Unix epoch as a mathematical integer; zero => IsZero"""
    __slots__ = ('ns',)
    def __init__(self, ns): self.ns = ns
    def __repr__(self): return f'time({self.ns})'


def as_int(x):
    if isinstance(x, IntV): return x.e
    if isinstance(x, int): return z3.IntVal(x)
    x = z3.simplify(x)
    if z3.is_bv_value(x): return z3.IntVal(x.as_signed_long())
    return z3.BV2Int(x, True)


def clone(v):
    if isinstance(v, StructV): return StructV(clone(x) for x in v)
    if isinstance(v, ArrayV): return ArrayV(clone(x) for x in v)
    if isinstance(v, dict): return {k: clone(x) for k, x in v.items()}
    if isinstance(v, list): return [clone(x) for x in v]
    return v


class Panic(Exception): pass
class Unsupported(Exception): pass
class PathCut(Exception):
    """harness-requested end of a path (sink stop / gate cut)"""
    def __init__(self, why): self.why = why


class Choice(Exception):
    """an input has to be resolved before the current instruction can proceed; alts = [value or callable(state)->value]"""
    def __init__(self, key, alts): self.key, self.alts = key, alts


class Frame:
    __slots__ = ('fn', 'regs', 'block', 'prev', 'ip', 'defers', 'ret', 'visits', 'tag')
    def __init__(self, fn, args, bindings=()):
        self.fn = fn; self.regs = {}; self.block = 0; self.prev = None; self.ip = 0; self.defers = []; self.visits = {}; self.tag = None
        for p, a in zip(fn['params'] or [], args): self.regs[p['name']] = a
        for p, a in zip(fn['freevars'] or [], bindings): self.regs[p['name']] = a
        self.ret = None
    def copy(self):
        g = Frame.__new__(Frame); g.fn = self.fn; g.regs = dict(self.regs); g.block = self.block; g.prev = self.prev; g.ip = self.ip
        g.defers = list(self.defers); g.ret = self.ret; g.visits = dict(self.visits); g.tag = self.tag
        return g


class State:
    def __init__(self):
        self.heap = {}; self.nobj = 0; self.frames = []; self.pc = []; self.events = []; self.status = 'run'; self.result = None
        self.decisions = 0; self.memo = {}; self.aux = {}; self.counter = 0; self.notes = []
    def fork(self):
        s = State(); s.heap = {k: clone(v) for k, v in self.heap.items()}; s.nobj = self.nobj
        s.frames = [f.copy() for f in self.frames]
        s.pc = list(self.pc); s.events = list(self.events); s.status = self.status; s.decisions = self.decisions
        s.memo = dict(self.memo); s.aux = clone(self.aux); s.counter = self.counter; s.notes = list(self.notes)
        return s
    def alloc(self, v):
        self.nobj += 1; self.heap[self.nobj] = v; return self.nobj
    def ev(self, _k, **kw):
        d = dict(kw); d['k'] = _k; d['locks'] = tuple(sorted(self.aux.get('locks', ())))
        who = None
        for f in self.frames:
            if f.tag is not None: who = f.tag
        d['who'] = who or 'A'
        self.events.append(d); return d
    def evs(self, kind):
        return [e for e in self.events if e['k'] == kind]


PURE = {'FieldAddr', 'UnOp', 'BinOp', 'Convert', 'ChangeType', 'ChangeInterface', 'Extract', 'MakeInterface', 'Jump', 'If', 'Phi', 'Field'}


class Exec:
    def __init__(self, ir, loop_bound=8, max_paths=20000, qtimeout_ms=20000):
        self.ir = ir; self.stubs = {}; self.stub_pats = []; self.inline = None
        self.solver = z3.Solver(); self.solver.set('timeout', qtimeout_ms); self.qtimeout_ms = qtimeout_ms
        self.cur_pc = []; self.nq = 0; self.tsolve = 0.0; self.unknowns = 0
        self.loop_bound = loop_bound; self.max_paths = max_paths
        self.done = []; self.stats = {'instr': 0, 'forks': 0, 'ifconv': 0, 'choices': 0}
        self.hints = []; self.ignore = None; self.ifconv = True
        self.havocked = {}      # callee -> count (default-havoc stubs used)  -> evidence
        self.encoded = set()    # functions executed from SSA               -> evidence
        self.slice_lens = [0, 1]
        self.ptr_nilable = True
        self.go_inline = None
        self.trace = False
        self.max_depth = 40
        self.deadline = None
        self.global_init = {}
        self.on_call = {}
        self.on_return = {}
        self.xsample = []           # decided oracle queries (sliced), a sample of which is re-decided by the other solvers
        self.watch_maps = None      # regex over symbolic map base names: accesses leave 'shared' events (lockset analysis)
        self.watch_fields = {}      # (obj, path) -> label
        self.trace_slow = bool(__import__('os').environ.get('SYMX_TRACE_SLOW'))
        self.fresh_cache = {}
        self.use_portfolio = True
        self.portfolio_log = []
        self.external = None  # external solver fallback callable(list_of_asserts) -> 'sat'|'unsat'|'unknown'

    # ------------------------------------------------------------------ solver
    def sync(self, pc):
        cur = self.cur_pc; k = 0
        while k < len(cur) and k < len(pc) and cur[k] is pc[k]: k += 1
        for _ in range(len(cur) - k): self.solver.pop()
        del cur[k:]
        for c in pc[k:]:
            self.solver.push(); self.solver.add(c); cur.append(c)

    def check(self, pc, extra=None, want_model=False):
        """returns ('sat'|'unsat'|'unknown', model|None)"""
        self.nq += 1; t = time.time()
        if self.deadline and time.process_time() > self.deadline: raise Unsupported('CPU-time budget exhausted')      # CPU time: robust when several checks share the machine
        self.sync(pc)
        if extra is not None:
            self.solver.push(); self.solver.add(extra)
        r = self.solver.check(); m = None
        if r == z3.sat and want_model: m = self.solver.model()
        if extra is not None: self.solver.pop()
        res = 'sat' if r == z3.sat else 'unsat' if r == z3.unsat else 'unknown'
        if res == 'unknown' and self.external is not None:
            res2 = self.external(list(pc) + ([extra] if extra is not None else []))
            if res2 in ('sat', 'unsat'):
                res = res2
                if res == 'sat' and want_model:
                    # obtain a model from a fresh solver (non-incremental z3 is usually able to)
                    s2 = z3.Solver(); s2.set('timeout', self.qtimeout_ms); s2.add(*pc)
                    if extra is not None: s2.add(extra)
                    if s2.check() == z3.sat: m = s2.model()
        if res == 'unknown': self.unknowns += 1
        dt = time.time() - t; self.tsolve += dt
        if dt > 1.0 and self.trace_slow: print(f'[slow {dt:.1f}s {res}] extra={str(extra)[:300]} pc_len={len(pc)}', flush=True)
        return res, m

    def model_fresh(self, pc, extra=None, timeout_ms=None):
        """one-shot (non-incremental) query: FP / wide bit-vector oracles are far faster outside the push/pop solver"""
        self.nq += 1; t = time.time()
        s = z3.Solver(); s.set('timeout', timeout_ms or self.qtimeout_ms)
        if extra is not None: pc = slice_pc(pc, extra)
        key = tuple(sorted(c.get_id() for c in pc)) + ((extra.get_id(),) if extra is not None else ())
        hit = self.fresh_cache.get(key)
        if hit is not None: return hit
        s.add(*pc)
        if extra is not None: s.add(extra)
        r = s.check(); m = s.model() if r == z3.sat else None
        self.tsolve += time.time() - t
        res = 'sat' if r == z3.sat else 'unsat' if r == z3.unsat else 'unknown'
        if res == 'unknown' and self.use_portfolio:
            from . import portfolio
            res, who = portfolio.solve(list(pc) + ([extra] if extra is not None else []), timeout_s=(timeout_ms or self.qtimeout_ms) / 1000)
            self.portfolio_log.append((res, who))
            if res == 'sat':   # a model is needed by callers: retry in-process with a longer limit, else report sat without model
                s2 = z3.Solver(); s2.set('timeout', 60000); s2.add(*pc)
                if extra is not None: s2.add(extra)
                m = s2.model() if s2.check() == z3.sat else None
            self.tsolve = self.tsolve
        if res == 'unknown': self.unknowns += 1
        if res in ('sat', 'unsat') and len(self.xsample) < 400: self.xsample.append((list(pc), extra, res))
        self.fresh_cache[key] = (res, m, pc, extra)[:2]
        self._keep = getattr(self, '_keep', []); self._keep.append((pc, extra))   # keep ASTs alive so ids stay unique
        return res, m

    def feasible(self, pc, extra=None):
        return self.check(pc, extra)[0] != 'unsat'

    def model(self, pc, extra=None):
        return self.check(pc, extra, want_model=True)

    # ------------------------------------------------------------------ values
    def sym(self, tid, name):
        """fresh symbolic value of a basic type, named deterministically"""
        utid, t = self.ir.under(tid); k = t['kind']
        if k == 'basic':
            bk = t['bkind']
            if bk in INTBITS: return z3.BitVec(name, INTBITS[bk])
            if bk in (BOOL, UNTYPED_BOOL): return z3.Bool(name)
            if bk in (STRING, UNTYPED_STRING): return z3.String(name)
            if bk in (FLOAT64, UNTYPED_FLOAT): return z3.FP(name, z3.Float64())
            if bk == FLOAT32: return z3.FP(name, z3.Float32())
            if bk == UNSAFEPTR: return Opaque(name)
        raise Unsupported(f'sym of {t}')

    def zero(self, tid):
        utid, t = self.ir.under(tid); k = t['kind']
        if k == 'basic':
            bk = t['bkind']
            if bk in INTBITS: return z3.BitVecVal(0, INTBITS[bk])
            if bk in (BOOL, UNTYPED_BOOL): return z3.BoolVal(False)
            if bk in (STRING, UNTYPED_STRING): return z3.StringVal('')
            if bk in (FLOAT64, UNTYPED_FLOAT): return z3.FPVal(0.0, z3.Float64())
            if bk == FLOAT32: return z3.FPVal(0.0, z3.Float32())
            if bk == UNSAFEPTR: return NIL
            if bk == UNTYPED_NIL: return NIL
        if k == 'struct':
            if self.ir.tstr(tid) == 'time.Time' and self.time_model == 'int': return TimeV(z3.BitVecVal(-62135596800 * 10**9, 96))
            return StructV(self.zero(f['type']) for f in (t['fields'] or []))
        if k == 'array':
            if t['len'] > 256: return Opaque('bigarray')
            return ArrayV(self.zero(t['elem']) for _ in range(t['len']))
        if k == 'slice': return NILSLICE()
        if k == 'interface': return IfaceV(None, None)
        if k == 'tuple': return tuple(self.zero(e) for e in (t['elems'] or []))
        return NIL
    time_model = 'int'

    def const(self, c):
        utid, t = self.ir.under(c['type']); k = t['kind']
        if c.get('nil'): return self.zero(c['type'])
        if k == 'basic':
            bk = t['bkind']
            if 'int' in c and bk in INTBITS: return z3.BitVecVal(int(c['int']), INTBITS[bk])
            if 'bool' in c: return z3.BoolVal(c['bool'])
            if 'str' in c: return z3.StringVal(c['str'])
            if bk in (FLOAT64, UNTYPED_FLOAT):
                if 'exact' in c:
                    ex = c['exact']
                    if '/' in ex:
                        a, b = ex.split('/'); return z3.FPVal(int(a) / int(b), z3.Float64())
                return z3.FPVal(float(c.get('float', c.get('int', 0))), z3.Float64())
        raise Unsupported(f'const {c}')

    def signed(self, tid):
        return self.ir.under(tid)[1].get('bkind') in SIGNED

    # ------------------------------------------------------------------ laziness
    def materialise(self, st, lz):
        name = lz.name
        if name in st.memo: return st.memo[name]
        v = self._materialise(st, lz.tid, name)
        st.memo[name] = v
        return v

    def _materialise(self, st, tid, name):
        for pat, fn in self.hints:
            if pat.search(name):
                v = fn(self, st, tid, name)
                if v is not NotImplemented: return v
        utid, t = self.ir.under(tid); k = t['kind']
        if k == 'struct':
            if self.ir.tstr(tid) == 'time.Time' and self.time_model == 'int':
                return TimeV(z3.BitVec(name, 96))
            return StructV(Lazy(f['type'], name + '.' + f['name']) for f in (t['fields'] or []))
        if k == 'array':
            if t['len'] > 64: return Opaque(name)
            return ArrayV(Lazy(t['elem'], f'{name}[{i}]') for i in range(t['len']))
        if k == 'pointer':
            if self.ptr_nilable:
                raise Choice(name, [NIL, lambda s: Ptr(s.alloc(Lazy(t['elem'], '*' + name)))])
            return Ptr(st.alloc(Lazy(t['elem'], '*' + name)))
        if k == 'basic': return self.sym(tid, name)
        if k == 'slice': return SliceV(st.alloc(LazyArr(t['elem'], name)), 0, None, None)
        if k == 'interface':
            raise Choice(name, [IfaceV(None, None), IfaceV('dyn:' + name, Opaque(name))])
        if k == 'map': return MapV(st.alloc({'base': name, 'elem': t['elem'], 'key': t['key'], 'writes': [], 'lazy': {}}))
        return Opaque(name)

    def fresh(self, st, tid, name, nonnil=True):
        """fresh symbolic value of any type (used for stub results); pointers/interfaces non-nil when nonnil"""
        st.counter += 1; name = f'{name}!{st.counter}'
        utid, t = self.ir.under(tid); k = t['kind']
        if k == 'basic': return self.sym(tid, name)
        if k == 'pointer' and nonnil: return Ptr(st.alloc(Lazy(t['elem'], '*' + name)))
        if k == 'interface' and nonnil: return IfaceV('dyn:' + name, Opaque(name))
        if k == 'tuple': return tuple(self.fresh(st, e, f'{name}.{i}', nonnil) for i, e in enumerate(t['elems'] or []))
        if k == 'struct' and self.ir.tstr(tid) == 'time.Time' and self.time_model == 'int': return TimeV(z3.BitVec(name, 96))
        if k in ('struct', 'array', 'slice', 'map', 'pointer', 'interface'):
            lz = Lazy(tid, name)
            return lz
        return Opaque(name)

    def resolve_slice(self, st, s):
        """make sure the slice has a concrete length; may raise Choice"""
        if s.len is not None: return s
        cell = st.heap[s.obj]
        if isinstance(cell, LazyArr):
            key = 'len(' + cell.name + ')'
            if key not in st.memo:
                lens = self.slice_lens
                for pat, fn in self.hints:
                    if pat.search(key):
                        r = fn(self, st, None, key)
                        if r is not NotImplemented: lens = r; break
                if len(lens) == 1: st.memo[key] = lens[0]
                else: raise Choice(key, list(lens))
            n = st.memo[key]
            st.heap[s.obj] = ArrayV(Lazy(cell.elem, f'{cell.name}[{i}]') for i in range(n))
            cell = st.heap[s.obj]
        n = len(cell)
        return SliceV(s.obj if n else None, 0, n, n) if s.off == 0 else SliceV(s.obj, s.off, n - s.off, n - s.off)

    def walk(self, st, p):
        """(container, key) of the cell addressed by p, materialising lazies on the way"""
        v = st.heap[p.obj]
        if isinstance(v, Lazy): v = st.heap[p.obj] = self.own(st, self.materialise(st, v))
        if not p.path: return st.heap, p.obj
        for i in p.path[:-1]:
            x = v[i]
            if isinstance(x, Lazy): x = v[i] = self.own(st, self.materialise(st, x))
            v = x
        return v, p.path[-1]

    def own(self, st, v):
        # a materialised aggregate stored in a cell must not be shared with the memo copy
        return clone(v) if isinstance(v, (StructV, ArrayV)) else v

    def note_map(self, st, m, kind):
        if self.watch_maps is None or not isinstance(m, MapV): return
        cell = st.heap.get(m.obj)
        b = cell.get('base') if isinstance(cell, dict) else None
        if b and self.watch_maps.search(b): st.ev('shared', obj=b, kind=kind, where=self.where(st))

    def load(self, st, p):
        if self.watch_fields and isinstance(p, Ptr) and (p.obj, p.path) in self.watch_fields:
            st.ev('shared', obj=self.watch_fields[(p.obj, p.path)], kind='r', where=self.where(st))
        if not isinstance(p, Ptr): raise Panic('nil pointer dereference')
        c, k = self.walk(st, p)
        v = c[k]
        if isinstance(v, Lazy): v = c[k] = self.own(st, self.materialise(st, v))
        return clone(v) if isinstance(v, (StructV, ArrayV)) else v

    def store(self, st, p, val):
        if self.watch_fields and isinstance(p, Ptr) and (p.obj, p.path) in self.watch_fields:
            st.ev('shared', obj=self.watch_fields[(p.obj, p.path)], kind='w', where=self.where(st))
        if not isinstance(p, Ptr): raise Panic('nil pointer dereference (store)')
        c, k = self.walk(st, p)
        c[k] = clone(val)

    def force(self, st, v):
        if isinstance(v, Lazy): return self.materialise(st, v)
        return v

    def field(self, st, sv, i):
        v = sv[i]
        if isinstance(v, Lazy): v = sv[i] = self.own(st, self.materialise(st, v))
        return v

    def getfield(self, st, sv, tid, name):
        return self.field(st, sv, self.ir.field_index(tid, name))

    # ------------------------------------------------------------------ operands
    def val(self, st, fr, o):
        k = o['k']
        if k == 'reg' or k == 'free':
            v = fr.regs[o['name']]
            if isinstance(v, Lazy): v = fr.regs[o['name']] = self.materialise(st, v)
            return v
        if k == 'const': return self.const(o)
        if k == 'func': return FuncV(o['name'])
        if k == 'global':
            g = st.aux.setdefault('G', {}); name = o['name']
            if name not in g:
                self.partial_init(st, name.rsplit('.', 1)[0])
            if name not in g:
                g[name] = st.alloc(self.init_global(st, name, o))
            return Ptr(g[name])
        if k == 'builtin': return FuncV('builtin:' + o['name'])
        raise Unsupported(k)

    INIT_OPS = {'Alloc', 'Store', 'MakeMap', 'MapUpdate', 'MakeSlice', 'Slice', 'IndexAddr', 'FieldAddr', 'Convert', 'ChangeType', 'MakeInterface',
                'ChangeInterface', 'BinOp', 'UnOp', 'MakeClosure', 'Field', 'Index'}

    INIT_CALLS = {'regexp.MustCompile', 'errors.New'}

    def partial_init(self, st, pkg):
        """evaluate the side-effect-free part of a package initialiser (composite literals, tables of constants) so that package-level
        tables are concrete instead of symbolic; anything that depends on a call stays lazily symbolic"""
        done = st.aux.setdefault('initdone', [])
        if pkg in done: return
        done.append(pkg)
        fn = self.ir.funcs.get(pkg + '.init')
        if fn is None: return
        g = st.aux.setdefault('G', {})
        fr = Frame(fn, [])
        stored = set()
        for b in fn['blocks']:
            for ins in b['instrs']:
                if ins['op'] == 'Call' and ins['call'].get('mode') == 'static' and ins['call'].get('callee') in self.INIT_CALLS:
                    try:
                        stub = self.find_stub(ins['call']['callee'])
                        if stub is not None:
                            fr.regs[ins['reg']] = stub(self, st, [self.val(st, fr, a) for a in ins['call']['args']], ins)
                    except Exception:
                        pass
                    continue
                if ins['op'] not in self.INIT_OPS: continue
                try:
                    if ins['op'] == 'Store':
                        a = ins['addr']
                        if a['k'] == 'global':
                            if a['name'] == pkg + '.init$guard': continue
                            v = self.val(st, fr, ins['val'])
                            if a['name'] not in g: g[a['name']] = st.alloc(clone(v))
                            else: st.heap[g[a['name']]] = clone(v)
                            stored.add(a['name']); continue
                    if ins['op'] == 'UnOp' and ins['tok'] == '*' and ins['x']['k'] == 'global' and ins['x']['name'] not in stored: continue
                    fr.block = b['index']
                    r = self.exec(st, fr, ins)
                    if r is not None: return
                except (KeyError, Panic, Unsupported, Choice, AttributeError, TypeError, z3.Z3Exception, IndexError):
                    continue

    def init_global(self, st, name, o):
        if name in self.global_init: return self.global_init[name](self, st)
        ptid = o['type']; elem = self.ir.T(ptid)['elem']
        return Lazy(elem, 'G:' + name)

    # ------------------------------------------------------------------ run
    def run(self, fname, args, st=None, bindings=()):
        st = st or State()
        st.frames.append(Frame(self.ir.funcs[fname], args, bindings)); self.encoded.add(fname)
        work = [st]; self.done = []
        while work:
            s = work.pop()
            if len(self.done) + len(work) > self.max_paths: raise Unsupported('path budget exceeded')
            if s.status != 'run':
                if s.status not in ('infeasible', 'split'): self.done.append(s)
                continue
            try:
                more = self.step_until_fork(s)
                work.extend(more)
            except Panic as e:
                s.status = 'panic'; s.result = str(e) + ' @ ' + self.where(s); self.done.append(s)
            except PathCut as e:
                s.status = 'cut'; s.result = e.why; self.done.append(s)
            except Unsupported as e:
                s.status = 'unsupported'; s.result = str(e) + ' @ ' + self.where(s); self.done.append(s)
            except (z3.Z3Exception, TypeError, AttributeError, KeyError, IndexError, ValueError) as e:
                import traceback
                tb = traceback.extract_tb(e.__traceback__)[-1]
                s.status = 'unsupported'; s.result = f'engine error {type(e).__name__}: {e} ({tb.filename.split("/")[-1]}:{tb.lineno}) @ ' + self.where(s); self.done.append(s)
        return self.done

    def where(self, st):
        try:
            fr = st.frames[-1]; ins = fr.fn['blocks'][fr.block]['instrs'][max(0, fr.ip - 1)]
            return f"{fr.fn['name']} {ins.get('pos', '')}"
        except Exception:
            return '?'

    def step_until_fork(self, st):
        while True:
            fr = st.frames[-1]
            blk = fr.fn['blocks'][fr.block]
            if fr.ip >= len(blk['instrs']): raise Unsupported('fell off block')
            ins = blk['instrs'][fr.ip]; fr.ip += 1; self.stats['instr'] += 1
            ne, npc = len(st.events), len(st.pc)
            try:
                r = self.exec(st, fr, ins)
            except Choice as ch:
                del st.events[ne:]; del st.pc[npc:]
                fr.ip -= 1; self.stats['choices'] += 1
                out = []
                for alt in ch.alts:
                    s2 = st.fork()
                    s2.memo[ch.key] = alt(s2) if callable(alt) else alt
                    out.append(s2)
                return out
            if r is not None: return r
            if st.status != 'run':
                if st.status not in ('infeasible', 'split'): self.done.append(st)
                return []

    def goto(self, st, fr, b):
        fr.prev = fr.block; fr.block = b; fr.ip = 0
        n = fr.visits.get(b, 0) + 1; fr.visits[b] = n
        if n > self.loop_bound:
            st.status = 'unwind'; st.result = f'unwinding bound {self.loop_bound} reached at {fr.fn["name"]} block {b}'

    def branch(self, st, cond, fn_true, fn_false):
        cond = z3.simplify(cond)
        if z3.is_true(cond): fn_true(st); return None
        if z3.is_false(cond): fn_false(st); return None
        st.decisions += 1
        t_ok = self.feasible(st.pc, cond); f_ok = True if not t_ok else self.feasible(st.pc, z3.Not(cond))
        if t_ok and f_ok:
            self.stats['forks'] += 1
            s2 = st.fork(); s2.pc.append(z3.Not(cond)); fn_false(s2)
            st.pc.append(cond); fn_true(st); return [s2, st]
        if t_ok: st.pc.append(cond); fn_true(st); return None
        if f_ok: st.pc.append(z3.Not(cond)); fn_false(st); return None
        st.status = 'infeasible'; return []

    def ipdom(self, fn):
        if '_ipdom' in fn: return fn['_ipdom']
        blocks = fn['blocks']; n = len(blocks); EXIT = n
        succ = {b['index']: (b['succs'] or [EXIT]) for b in blocks}
        allb = set(range(n + 1)); pd = {i: set(allb) for i in range(n)}; pd[EXIT] = {EXIT}
        ch = True
        while ch:
            ch = False
            for i in range(n - 1, -1, -1):
                new = set.intersection(*[pd[x] for x in succ[i]]) | {i}
                if new != pd[i]: pd[i] = new; ch = True
        ip = {}
        for i in range(n):
            cands = pd[i] - {i}; best = None
            for c in cands:
                if all((d in pd[c]) for d in cands): best = c
            ip[i] = best
        fn['_ipdom'] = ip; return ip

    def try_ifconv(self, st, fr, cond):
        """if-convert the single-entry pure region between this If and its immediate post-dominator"""
        fn = fr.fn; blocks = fn['blocks']; b0 = fr.block; J = self.ipdom(fn).get(b0)
        if J is None or J >= len(blocks): return False
        region = []; seen = set(); stack = list(blocks[b0]['succs'])
        while stack:
            x = stack.pop()
            if x == J or x in seen: continue
            if x == b0: return False
            seen.add(x); region.append(x); stack.extend(blocks[x]['succs'])
            if len(seen) > 12: return False
        for x in region:
            if any(p != b0 and p not in seen for p in blocks[x]['preds']): return False
            for ins in blocks[x]['instrs']:
                if ins['op'] not in PURE: return False
                if ins['op'] == 'BinOp' and ins['tok'] in ('/', '%'): return False
                if ins['op'] == 'Phi': return False
        order = []; tmp = set()
        def visit(x):
            if x in tmp or x == J or x == b0: return
            tmp.add(x)
            for p in blocks[x]['preds']:
                if p in seen: visit(p)
            order.append(x)
        for x in region: visit(x)
        regs = dict(fr.regs); edge = {}
        s0 = blocks[b0]['succs']; edge[(b0, s0[0])] = cond; edge[(b0, s0[1])] = z3.Not(cond)
        tmpfr = Frame.__new__(Frame); tmpfr.fn = fn; tmpfr.regs = regs; tmpfr.defers = []; tmpfr.ret = None; tmpfr.visits = {}; tmpfr.tag = None
        try:
            for x in order:
                g = z3.Or([edge[(p, x)] for p in blocks[x]['preds'] if (p, x) in edge])
                tmpfr.block = x
                for ins in blocks[x]['instrs']:
                    op = ins['op']
                    if op == 'Jump': edge[(x, blocks[x]['succs'][0])] = g
                    elif op == 'If':
                        c = self.val(st, tmpfr, ins['cond']); sx = blocks[x]['succs']
                        if not z3.is_expr(c): return False
                        edge[(x, sx[0])] = z3.And(g, c); edge[(x, sx[1])] = z3.And(g, z3.Not(c))
                    else:
                        tmpfr.ip = 0
                        if op == 'UnOp' and ins['tok'] == '*':
                            p = self.val(st, tmpfr, ins['x'])
                            if not isinstance(p, Ptr): return False
                        if op == 'UnOp' and ins['tok'] == '<-': return False
                        r = self.exec(st, tmpfr, ins)
                        if r is not None: return False
        except (Panic, Unsupported, KeyError, Choice, z3.Z3Exception):
            return False
        jb = blocks[J]; newvals = {}; k = 0
        try:
            while k < len(jb['instrs']) and jb['instrs'][k]['op'] == 'Phi':
                pi = jb['instrs'][k]; val = None
                inc = [(p, i) for i, p in enumerate(jb['preds']) if (p, J) in edge]
                for p, i in inc:
                    v = self.val(st, tmpfr, pi['edges'][i])
                    if isinstance(v, IntV): v = z3.Int2BV(v.e, 64) if not z3.is_int_value(z3.simplify(v.e)) else z3.BitVecVal(z3.simplify(v.e).as_long(), 64)
                    if not z3.is_expr(v):
                        if val is None or v is val or (isinstance(v, (Ptr, Nil)) and v == val): val = v; continue
                        return False
                    if val is not None and not z3.is_expr(val): return False
                    val = v if val is None else z3.If(edge[(p, J)], v, val)
                newvals[pi['reg']] = val; k += 1
        except (Choice, Unsupported, z3.Z3Exception):
            return False
        fr.regs.update({kk: vv for kk, vv in regs.items() if kk not in fr.regs})
        fr.regs.update(newvals)
        fr.prev = b0; fr.block = J; fr.ip = k
        n = fr.visits.get(J, 0) + 1; fr.visits[J] = n
        if n > self.loop_bound:
            st.status = 'unwind'; st.result = f'unwinding bound at {fn["name"]} block {J}'
        self.stats['ifconv'] += 1
        return True

    def check_fault(self, st, fault, what):
        """if the fault is feasible: record a panic path (forked); continue on 'not fault'"""
        fault = z3.simplify(fault)
        if z3.is_false(fault): return
        if z3.is_true(fault): raise Panic(what)
        if self.feasible(st.pc, fault):
            s2 = st.fork(); s2.pc.append(fault); s2.status = 'panic'; s2.result = what + ' @ ' + self.where(st); self.done.append(s2)
        st.pc.append(z3.Not(fault))

    # ------------------------------------------------------------------ instructions
    def exec(self, st, fr, ins):
        op = ins['op']; R = fr.regs; V = lambda o: self.val(st, fr, o)
        if op == 'Alloc':
            R[ins['reg']] = Ptr(st.alloc(self.zero(ins['elem'])))
        elif op == 'Store':
            self.store(st, V(ins['addr']), V(ins['val']))
        elif op == 'UnOp':
            x = V(ins['x']); tok = ins['tok']
            if tok == '*': R[ins['reg']] = self.load(st, x)
            elif tok == '!': R[ins['reg']] = z3.Not(x)
            elif tok == '-':
                R[ins['reg']] = IntV(-x.e) if isinstance(x, IntV) else (z3.fpNeg(x) if z3.is_fp(x) else -x)
            elif tok == '^': R[ins['reg']] = ~x
            elif tok == '<-': return self.chan_recv(st, fr, ins, x)
            else: raise Unsupported('unop ' + tok)
        elif op == 'FieldAddr':
            p = V(ins['x'])
            if not isinstance(p, Ptr): raise Panic('nil pointer dereference (field)')
            R[ins['reg']] = Ptr(p.obj, p.path + (ins['field'],))
        elif op == 'Field':
            x = V(ins['x'])
            if isinstance(x, TimeV): raise Unsupported('field of time.Time in integer model')
            R[ins['reg']] = clone(self.field(st, x, ins['field']))
        elif op == 'IndexAddr':
            x = V(ins['x']); i = V(ins['index'])
            if isinstance(x, SliceV):
                x = self.resolve_slice(st, x); base, ln, path0, off = x.obj, x.len, (), x.off
            elif isinstance(x, Ptr):
                arr = self.load(st, x); base, ln, path0, off = x.obj, len(arr), x.path, 0
            elif isinstance(x, BytesV): raise Unsupported('index into []byte(string)')
            else: raise Panic('index of nil')
            return self.index_fork(st, fr, ins, i, ln, lambda s, f, k: f.regs.__setitem__(ins['reg'], Ptr(base, path0 + (off + k,))))
        elif op == 'Index':
            x = V(ins['x']); i = V(ins['index'])
            if isinstance(x, ArrayV):
                return self.index_fork(st, fr, ins, i, len(x), lambda s, f, k: f.regs.__setitem__(ins['reg'], self.force(s, x[k])))
            if z3.is_expr(x) and z3.is_string(x):
                ii = as_int(i); n = z3.Length(x)
                self.check_fault(st, z3.Or(ii < 0, ii >= n), 'index out of range (string)')
                R[ins['reg']] = str_byte(x, ii); return None
            raise Unsupported('Index on ' + repr(x))
        elif op == 'BinOp':
            R[ins['reg']] = self.binop(st, ins, V(ins['x']), V(ins['y']))
        elif op == 'Phi':
            blk = fr.fn['blocks'][fr.block]; idx = blk['preds'].index(fr.prev)
            vals = {}; j = fr.ip - 1
            while j < len(blk['instrs']) and blk['instrs'][j]['op'] == 'Phi':
                pi = blk['instrs'][j]; vals[pi['reg']] = V(pi['edges'][idx]); j += 1
            R.update(vals); fr.ip = j
        elif op == 'Jump':
            self.goto(st, fr, fr.fn['blocks'][fr.block]['succs'][0])
        elif op == 'If':
            succs = fr.fn['blocks'][fr.block]['succs']; c = V(ins['cond'])
            if not z3.is_expr(c): raise Unsupported('non-boolean condition ' + repr(c))
            cs = z3.simplify(c)
            if self.ifconv and not z3.is_true(cs) and not z3.is_false(cs) and self.try_ifconv(st, fr, c): return None
            return self.branch(st, c, lambda s: self.goto(s, s.frames[-1], succs[0]), lambda s: self.goto(s, s.frames[-1], succs[1]))
        elif op == 'Return':
            vals = [V(o) for o in ins['results']]
            return self.do_return(st, vals)
        elif op == 'Extract':
            t = V(ins['x'])
            if not isinstance(t, tuple): raise Unsupported('extract from ' + repr(t))
            v = t[ins['index']]
            if isinstance(v, Lazy): v = self.materialise(st, v)
            R[ins['reg']] = v
        elif op == 'Call':
            return self.call(st, fr, ins)
        elif op == 'MakeInterface':
            x = V(ins['x'])
            R[ins['reg']] = IfaceV(ins['xtype'], x)
        elif op == 'ChangeInterface' or op == 'ChangeType':
            R[ins['reg']] = V(ins['x'])
        elif op == 'TypeAssert':
            return self.type_assert(st, fr, ins)
        elif op == 'Slice':
            return self.slice_op(st, fr, ins)
        elif op == 'Convert':
            R[ins['reg']] = self.convert(st, ins, V(ins['x']))
        elif op == 'MakeSlice':
            n = V(ins['len'])
            if isinstance(n, IntV): n = z3.simplify(n.e); nn = n.as_long() if z3.is_int_value(n) else None
            else:
                n = z3.simplify(n); nn = n.as_signed_long() if z3.is_bv_value(n) else None
            et = self.ir.under(ins['type'])[1]['elem']
            if nn is None:
                # symbolic size: contents opaque (only used by library stubs)
                R[ins['reg']] = SliceV(st.alloc(LazyArr(et, f'make!{st.counter}')), 0, None, None); st.counter += 1
            else:
                if nn < 0: raise Panic('makeslice: len out of range')
                if nn > 4096: R[ins['reg']] = SliceV(st.alloc(Opaque('bigslice')), 0, nn, nn)
                else: R[ins['reg']] = SliceV(st.alloc(ArrayV(self.zero(et) for _ in range(nn))), 0, nn, nn)
        elif op == 'Lookup':
            return self.lookup(st, fr, ins)
        elif op == 'MakeMap':
            t = self.ir.under(ins['type'])[1]
            R[ins['reg']] = MapV(st.alloc({'base': None, 'elem': t['elem'], 'key': t['key'], 'writes': [], 'lazy': {}}))
        elif op == 'MapUpdate':
            m = V(ins['map']); key = V(ins['key']); val = V(ins['value'])
            if not isinstance(m, MapV): raise Panic('assignment to entry in nil map')
            self.note_map(st, m, 'w')
            st.heap[m.obj]['writes'].append(['set', key, clone(val)])
        elif op == 'MakeClosure':
            R[ins['reg']] = FuncV(ins['fn']['name'], [V(b) for b in ins['bindings']])
        elif op == 'RunDefers':
            if fr.defers:
                fr.ip -= 1
                fv, args, dins = fr.defers.pop()
                return self.invoke(st, fr, dins, fv, args, None)
        elif op == 'Defer':
            c = ins['call']; args = [V(a) for a in c['args']]
            fr.defers.append((self.callee_of(st, fr, c, args), args, ins))
        elif op == 'Go':
            c = ins['call']; args = [V(a) for a in c['args']]
            tgt = self.callee_of(st, fr, c, args)
            name = tgt[0] if isinstance(tgt, tuple) else tgt
            st.ev('go', callee=name)
            if self.go_inline is not None and self.go_inline.search(name):
                return self.invoke(st, fr, ins, tgt, args, None)
        elif op == 'Panic':
            raise Panic('explicit panic')
        elif op == 'Range':
            x = V(ins['x'])
            if isinstance(x, MapV):
                self.note_map(st, x, 'r')
                R[ins['reg']] = ('mapiter', x.obj, st.alloc({'pos': 0}))
            elif z3.is_expr(x) and z3.is_string(x):
                R[ins['reg']] = ('striter', x, st.alloc({'pos': 0}))
            elif isinstance(x, Nil):
                R[ins['reg']] = ('mapiter', None, st.alloc({'pos': 0}))
            else: raise Unsupported('range over ' + repr(x))
        elif op == 'Next':
            return self.next_iter(st, fr, ins)
        elif op == 'MakeChan':
            R[ins['reg']] = Ptr(st.alloc({'chan': [], 'cap': None}))
        elif op == 'Send':
            ch = V(ins['chan']); cell = self.chan_cell(st, ch)
            if cell is not None and cell.get('room') is not None:
                room = cell['room']
                def go_(s):
                    c2 = self.chan_cell(s, ch); c2['chan'].append(V(ins['x'])); c2['room'] = None; s.ev('send', chan=repr(ch), val=V(ins['x']))
                def block(s):
                    s.status = 'blocked'; s.result = 'send blocks: channel full @ ' + self.where(s)
                return self.branch(st, room, go_, block)
            st.ev('send', chan=repr(ch), val=V(ins['x']))
            if cell is not None: cell['chan'].append(V(ins['x']))
        elif op == 'Select':
            return self.select(st, fr, ins)
        else:
            raise Unsupported(op + ' in ' + fr.fn['name'])
        return None

    # channels: minimal model, overridable
    def chan_recv(self, st, fr, ins, ch):
        if isinstance(ch, Ptr) and isinstance(st.heap.get(ch.obj), dict) and st.heap[ch.obj].get('chan'):
            v = st.heap[ch.obj]['chan'].pop(0)
            fr.regs[ins['reg']] = (v, z3.BoolVal(True)) if ins.get('commaok') else v
            return None
        v = self.fresh(st, ins['type'], 'recv')
        fr.regs[ins['reg']] = v
        return None

    def chan_cell(self, st, ch):
        if isinstance(ch, Ptr) and isinstance(st.heap.get(ch.obj), dict) and 'chan' in st.heap[ch.obj]: return st.heap[ch.obj]
        return None

    def select(self, st, fr, ins):
        """select over channel operations.  Channel cells: {'chan': [values], 'room': Bool|None}.  A send to a channel whose cell has a
        symbolic 'room' forks on it; receives take a queued value if any.  Nothing ready: default branch (index -1) when non-blocking,
        else the path ends as 'blocked'."""
        states = ins['states']; blocking = ins['blocking']; reg = ins['reg']
        tt = self.ir.under(ins['type'])[1]['elems'] or []
        def result(s, idx, recvvals=None):
            vals = [z3.BitVecVal(idx, 64), z3.BoolVal(recvvals is not None)]
            k = 0
            for j, sd in enumerate(states):
                if sd['dir'] == 2:
                    vals.append((recvvals[0] if (recvvals is not None and j == idx) else self.zero(tt[2 + k])) if 2 + k < len(tt) else None); k += 1
            s.frames[-1].regs[reg] = tuple(vals[:len(tt)]) if tt else tuple(vals)
        out = []; cur = st
        def is_timer(sd):
            try:
                c = self.chan_cell(st, self.val(st, fr, sd['chan'])); return c is not None and c.get('tick') is not None
            except Exception: return False
        order = sorted(range(len(states)), key=lambda j: 0 if is_timer(states[j]) else 1)     # a timer may win the race against a ready channel
        for i in order:
            sd = states[i]
            ch = self.val(cur, fr if cur is st else cur.frames[-1], sd['chan'])
            cell = self.chan_cell(cur, ch)
            if sd['dir'] == 1:      # send
                v = self.val(cur, cur.frames[-1], sd['send'])
                if cell is None:
                    cur.ev('send', chan=repr(ch), val=v); result(cur, i); return (out + [cur]) if out else None
                room = cell.get('room')
                if room is None:
                    cell['chan'].append(v); cur.ev('send', chan=repr(ch), val=v); result(cur, i); return (out + [cur]) if out else None
                if self.feasible(cur.pc, room):
                    s2 = cur.fork(); s2.pc.append(room); c2 = self.chan_cell(s2, ch); c2['chan'].append(clone(v)); c2['room'] = None
                    s2.ev('send', chan=repr(ch), val=v); result(s2, i); out.append(s2)
                if not self.feasible(cur.pc, z3.Not(room)):
                    cur.status = 'infeasible'; return out
                cur.pc.append(z3.Not(room))
            else:                   # receive
                if cell is not None and cell.get('tick') is not None:
                    # timer channel (time.After): may fire before the other operations complete (symbolic)
                    tick = cell['tick']
                    if self.feasible(cur.pc, tick):
                        s2 = cur.fork(); s2.pc.append(tick); c2 = self.chan_cell(s2, ch); c2['tick'] = None
                        result(s2, i, [self.zero(tt[2 + sum(1 for sd2 in states[:i] if sd2['dir'] == 2)]) if len(tt) > 2 else None]); out.append(s2)
                    if not self.feasible(cur.pc, z3.Not(tick)): cur.status = 'infeasible'; return out
                    cur.pc.append(z3.Not(tick)); continue
                if cell is not None and cell['chan']:
                    v = cell['chan'].pop(0); result(cur, i, [v]); return (out + [cur]) if out else None
        if not blocking:
            result(cur, -1); return (out + [cur]) if out else None
        cur.status = 'blocked'; cur.result = 'select blocks: no channel operation is ready @ ' + self.where(cur)
        return out + [cur] if out else None if False else (out + [cur])

    def next_iter(self, st, fr, ins):
        it = self.val(st, fr, ins['iter']); R = fr.regs
        tt = self.ir.under(ins['type'])[1]['elems']
        if it[0] == 'striter':
            _, s, cell = it; pos = st.heap[cell]['pos']; n = z3.Length(s)
            def more(s2):
                s2.heap[cell] = {'pos': pos + 1}
                ch = z3.SubString(s, pos, 1)
                s2.frames[-1].regs[ins['reg']] = (z3.BoolVal(True), z3.BitVecVal(pos, 64), z3.Int2BV(z3.StrToCode(ch), 32))
            def nomore(s2):
                s2.frames[-1].regs[ins['reg']] = (z3.BoolVal(False), z3.BitVecVal(0, 64), z3.BitVecVal(0, 32))
            return self.branch(st, n > pos, more, nomore)
        _, mobj, cell = it; pos = st.heap[cell]['pos']
        if mobj is None:
            R[ins['reg']] = (z3.BoolVal(False), self.zero(tt[1]), self.zero(tt[2])); return None
        m = st.heap[mobj]
        ents = self.map_entries(st, mobj)
        if pos < len(ents):
            k, v, present = ents[pos]
            st.heap[cell] = {'pos': pos + 1}
            present = z3.simplify(present)
            if z3.is_true(present):
                R[ins['reg']] = (z3.BoolVal(True), k, v); return None
            # entry may have been deleted / may be absent: skip when not present
            def take(s2): s2.frames[-1].regs[ins['reg']] = (z3.BoolVal(True), k, v)
            def skip(s2): s2.frames[-1].ip -= 1
            return self.branch(st, present, take, skip)
        R[ins['reg']] = (z3.BoolVal(False), self.zero(tt[1]), self.zero(tt[2])); return None

    # ------------------------------------------------------------------ maps
    def keyeq(self, a, b):
        if z3.is_expr(a) and z3.is_expr(b): return a == b
        if isinstance(a, IntV) or isinstance(b, IntV): return as_int(a) == as_int(b)
        if isinstance(a, (StructV, ArrayV)) and isinstance(b, (StructV, ArrayV)):
            return z3.And([self.keyeq(x, y) for x, y in zip(a, b)]) if len(a) else z3.BoolVal(True)
        if isinstance(a, IfaceV) and isinstance(b, IfaceV):
            if a.tid != b.tid: return z3.BoolVal(False)
            return self.keyeq(a.val, b.val)
        return z3.BoolVal(a == b)

    def map_entries(self, st, mobj):
        """concrete list of (key, value, present-condition) for a map: symbolic base entries (bounded) + writes"""
        m = st.heap[mobj]; ents = []
        if m['base'] is not None:
            key = 'range(' + m['base'] + ')'
            if key not in st.memo:
                lens = [0, 1]
                for pat, fn in self.hints:
                    if pat.search(key):
                        r = fn(self, st, None, key)
                        if r is not NotImplemented: lens = r; break
                if len(lens) == 1: st.memo[key] = lens[0]
                else: raise Choice(key, list(lens))
            for i in range(st.memo[key]):
                kname = f"{m['base']}.key{i}"
                k = self.materialise(st, Lazy(m['key'], kname))
                v, ok = self.map_base_lookup(st, m, k)
                st.pc.append(ok) if not z3.is_true(z3.simplify(ok)) else None
                ents.append([k, v, z3.BoolVal(True)])
            # distinct keys
            for a, b in itertools.combinations(ents, 2): st.pc.append(z3.Not(self.keyeq(a[0], b[0])))
        for w in m['writes']:
            if w[0] == 'set':
                for e in ents: e[2] = z3.And(e[2], z3.Not(self.keyeq(e[0], w[1])))
                ents.append([w[1], w[2], z3.BoolVal(True)])
            else:
                for e in ents: e[2] = z3.And(e[2], z3.Not(self.keyeq(e[0], w[1])))
        return ents

    def map_base_lookup(self, st, m, key):
        ks = (z3.simplify(key).sexpr() if z3.is_expr(key) else repr(key))
        hit = m['lazy'].get(ks)
        if hit is None:
            nm = f"{m['base']}[{ks}]"
            val = Lazy(m['elem'], nm)
            ok = z3.Bool(nm + '.present')
            hit = m['lazy'][ks] = (val, ok)
        return hit

    def lookup(self, st, fr, ins):
        x = self.val(st, fr, ins['x']); key = self.val(st, fr, ins['index']); R = fr.regs; commaok = ins['commaok']
        if z3.is_expr(x) and z3.is_string(x):
            i = as_int(key); n = z3.Length(x)
            self.check_fault(st, z3.Or(i < 0, i >= n), 'index out of range (string)')
            R[ins['reg']] = str_byte(x, i); return None
        et = self.ir.under(ins['xtype'])[1]['elem']
        def setres(s, v, ok):
            if isinstance(v, (StructV, ArrayV)): v = clone(v)
            s.frames[-1].regs[ins['reg']] = (v, ok) if commaok else v
        if isinstance(x, Nil):
            setres(st, self.zero(et), z3.BoolVal(False)); return None
        if not isinstance(x, MapV): raise Unsupported('lookup on ' + repr(x))
        self.note_map(st, x, 'r')
        m = st.heap[x.obj]
        # walk writes from the latest; fork on key equality when it cannot be decided syntactically
        out = []; cur = st; miss = []
        for w in reversed(m['writes']):
            eq = z3.simplify(self.keyeq(key, w[1]))
            if z3.is_false(eq): continue
            hitc = z3.And(miss + [eq]) if miss else eq
            if z3.is_true(eq) and not miss:
                if w[0] == 'set': setres(cur, w[2], z3.BoolVal(True))
                else: setres(cur, self.zero(et), z3.BoolVal(False))
                return None if not out else out + [cur]
            if self.feasible(cur.pc, hitc):
                s2 = cur.fork(); s2.pc.append(hitc)
                if w[0] == 'set': setres(s2, w[2], z3.BoolVal(True))
                else: setres(s2, self.zero(et), z3.BoolVal(False))
                out.append(s2)
            miss.append(z3.Not(eq))
        if miss:
            c = z3.And(miss)
            if not self.feasible(cur.pc, c):
                cur.status = 'infeasible'; return out
            cur.pc.append(c)
        if m['base'] is None:
            setres(cur, self.zero(et), z3.BoolVal(False))
        else:
            v, ok = self.map_base_lookup(st, st.heap[x.obj], key)
            cur.heap[x.obj]['lazy'] = st.heap[x.obj]['lazy']
            if commaok:
                setres(cur, v, ok)
            else:
                # value or zero: fork on presence
                def pres(s): setres(s, v, z3.BoolVal(True))
                def absent(s): setres(s, self.zero(et), z3.BoolVal(False))
                r = self.branch(cur, ok, pres, absent)
                if r is not None: return out + r
        return None if not out else out + [cur]

    # ------------------------------------------------------------------ type assertions
    def implements(self, tid, iface_tid):
        t = self.ir.T(tid); want = self.ir.under(iface_tid)[1].get('methods') or []
        if not want: return True
        ms = t.get('mset')
        if ms is None: return True   # unknown method set: assume (recorded as over-approximation)
        return all(m in ms for m in want)

    def type_assert(self, st, fr, ins):
        x = self.val(st, fr, ins['x']); want = ins['asserted']; R = fr.regs; commaok = ins['commaok']
        if not isinstance(x, IfaceV): raise Unsupported('typeassert on ' + repr(x))
        wk = self.ir.kind(want)
        def ok_val(s):
            return x if wk == 'interface' else x.val
        if x.tid is None:
            if commaok: R[ins['reg']] = (self.zero(want), z3.BoolVal(False)); return None
            raise Panic('interface conversion: nil')
        if isinstance(x.tid, str) and x.tid.startswith('dyn:'):
            key = 'type(' + x.tid[4:] + ')'
            if wk == 'interface':
                # unknown dynamic type asserted to an interface: both outcomes possible unless hinted
                k2 = key + ' implements ' + self.ir.tstr(want)
                if k2 not in st.memo:
                    for pat, fn in self.hints:
                        if pat.search(k2):
                            r = fn(self, st, None, k2)
                            if r is not NotImplemented: st.memo[k2] = r; break
                    else: raise Choice(k2, [True, False])
                if st.memo[k2]:
                    R[ins['reg']] = (x, z3.BoolVal(True)) if commaok else x; return None
                if commaok: R[ins['reg']] = (self.zero(want), z3.BoolVal(False)); return None
                raise Panic('interface conversion (dynamic)')
            bound = st.memo.get(key)
            if bound is None:
                excl = st.memo.get(key + '.not', ())
                ws = self.ir.tstr(want)
                if ws in excl:
                    if commaok: R[ins['reg']] = (self.zero(want), z3.BoolVal(False)); return None
                    raise Panic('interface conversion (dynamic)')
                nm = x.tid[4:]
                def bind(s):
                    s.memo[key + '.val'] = self.fresh(s, want, nm + '.(' + ws + ')')
                    return ws
                def unbind(s):
                    s.memo[key + '.not'] = tuple(excl) + (ws,)
                    return None
                raise Choice(key, [bind, unbind])
            if bound == self.ir.tstr(want):
                v = st.memo[key + '.val']
                if isinstance(v, Lazy): v = st.memo[key + '.val'] = self.materialise(st, v)
                R[ins['reg']] = (v, z3.BoolVal(True)) if commaok else v; return None
            if commaok: R[ins['reg']] = (self.zero(want), z3.BoolVal(False)); return None
            raise Panic('interface conversion (dynamic)')
        if wk == 'interface': ok = self.implements(x.tid, want)
        else: ok = self.ir.tstr(x.tid) == self.ir.tstr(want)
        if commaok:
            R[ins['reg']] = (ok_val(st) if ok else self.zero(want), z3.BoolVal(ok))
        else:
            if not ok: raise Panic('interface conversion: wrong dynamic type')
            R[ins['reg']] = ok_val(st)
        return None

    # ------------------------------------------------------------------ indexing / slicing
    def index_fork(self, st, fr, ins, i, ln, setter):
        if isinstance(i, IntV):
            e = z3.simplify(i.e)
            if z3.is_int_value(e): i = z3.BitVecVal(e.as_long(), 64)
            else: i = z3.Int2BV(e, 64)
        i = z3.simplify(i)
        if z3.is_bv_value(i):
            k = i.as_signed_long() if self_signed_index(i) else i.as_long()
            if k < 0 or k >= ln: raise Panic(f'index out of range [{k}] with length {ln}')
            setter(st, fr, k); return None
        self.check_fault(st, z3.Or(i < 0, i >= ln) if i.size() == 64 else z3.UGE(z3.ZeroExt(64 - i.size(), i), ln), f'index out of range (len {ln})')
        out = []
        for k in range(ln):
            c = i == k
            if self.feasible(st.pc, c):
                s2 = st.fork(); s2.pc.append(c); setter(s2, s2.frames[-1], k); out.append(s2)
        st.status = 'split'; return out

    def slice_op(self, st, fr, ins):
        x = self.val(st, fr, ins['x']); lo = ins['low']; hi = ins['high']; R = fr.regs
        def cv(o, dflt):
            if o is None: return dflt
            v = self.val(st, fr, o)
            if isinstance(v, IntV):
                e = z3.simplify(v.e)
                if z3.is_int_value(e): return e.as_long()
                raise Unsupported('symbolic slice bound')
            v = z3.simplify(v)
            if not z3.is_bv_value(v): raise Unsupported('symbolic slice bound')
            return v.as_signed_long()
        if z3.is_expr(x) and z3.is_string(x):
            lov = z3.IntVal(0) if lo is None else as_int(self.val(st, fr, lo))
            n = z3.Length(x)
            hiv = n if hi is None else as_int(self.val(st, fr, hi))
            self.check_fault(st, z3.Or(lov < 0, hiv < lov, hiv > n), 'slice bounds out of range (string)')
            R[ins['reg']] = z3.SubString(x, lov, hiv - lov); return None
        if isinstance(x, BytesV):
            lov = z3.IntVal(0) if lo is None else as_int(self.val(st, fr, lo))
            n = z3.Length(x.s)
            hiv = n if hi is None else as_int(self.val(st, fr, hi))
            self.check_fault(st, z3.Or(lov < 0, hiv < lov, hiv > n), 'slice bounds out of range ([]byte)')
            R[ins['reg']] = BytesV(z3.SubString(x.s, lov, hiv - lov)); return None
        if isinstance(x, Ptr):
            arr = self.load(st, x); n = len(arr); l = cv(lo, 0); h = cv(hi, n)
            if l < 0 or h < l or h > n: raise Panic('slice bounds out of range')
            if x.path:
                raise Unsupported('slice of nested array')
            R[ins['reg']] = SliceV(x.obj, l, h - l, n - l); return None
        if isinstance(x, SliceV):
            x = self.resolve_slice(st, x)
            try:
                l = cv(lo, 0); h = cv(hi, x.len)
            except Unsupported:
                return self.slice_sym(st, fr, ins, x)
            if l < 0 or h < l or h > x.cap: raise Panic(f'slice bounds out of range [{l}:{h}] with capacity {x.cap}')
            R[ins['reg']] = SliceV(x.obj, x.off + l, h - l, x.cap - l); return None
        raise Unsupported('slice of ' + repr(x))

    def slice_sym(self, st, fr, ins, x):
        """symbolic bounds on a concrete-length slice: fault check, then case split"""
        lo = ins['low']; hi = ins['high']
        lov = z3.IntVal(0) if lo is None else as_int(self.val(st, fr, lo))
        hiv = z3.IntVal(x.len) if hi is None else as_int(self.val(st, fr, hi))
        self.check_fault(st, z3.Or(lov < 0, hiv < lov, hiv > x.cap), 'slice bounds out of range')
        out = []
        for l in range(0, x.cap + 1):
            for h in range(l, x.cap + 1):
                c = z3.And(lov == l, hiv == h)
                if self.feasible(st.pc, c):
                    s2 = st.fork(); s2.pc.append(c); s2.frames[-1].regs[ins['reg']] = SliceV(x.obj, x.off + l, h - l, x.cap - l); out.append(s2)
        st.status = 'split'; return out

    # ------------------------------------------------------------------ operators
    def binop(self, st, ins, x, y):
        tok = ins['tok']; s = self.signed(ins['xtype'])
        if isinstance(x, TimeV) or isinstance(y, TimeV):
            eq = x.ns == y.ns
            return eq if tok == '==' else z3.Not(eq)
        if isinstance(x, IntV) or isinstance(y, IntV):
            a, b = as_int(x), as_int(y)
            if tok in ('+', '-', '*'): return IntV({'+': a + b, '-': a - b, '*': a * b}[tok])
            if tok in ('==', '!=', '<', '<=', '>', '>='):
                return {'==': a == b, '!=': a != b, '<': a < b, '<=': a <= b, '>': a > b, '>=': a >= b}[tok]
            if tok == '/': return IntV(z3.If(b == 0, 0, z3.If(a >= 0, a / b, -((-a) / b))))
            if tok == '%': return IntV(z3.If(b == 0, 0, z3.If(a >= 0, a % b, -((-a) % b))))
            x = z3.Int2BV(a, 64); y = z3.Int2BV(b, 64)
        if isinstance(x, (Ptr, Nil)) or isinstance(y, (Ptr, Nil)):
            if isinstance(x, (MapV, SliceV, FuncV, Opaque)) or isinstance(y, (MapV, SliceV, FuncV, Opaque)):
                other = x if isinstance(y, Nil) else y
                isnil = isinstance(other, Nil) or (isinstance(other, SliceV) and other.obj is None and other.len == 0)
                return z3.BoolVal(isnil if tok == '==' else not isnil)
            same = (isinstance(x, Nil) and isinstance(y, Nil)) or (isinstance(x, Ptr) and isinstance(y, Ptr) and x == y)
            return z3.BoolVal(same if tok == '==' else not same)
        if isinstance(x, IfaceV) or isinstance(y, IfaceV):
            if not isinstance(x, IfaceV) or not isinstance(y, IfaceV): raise Unsupported('iface compare with ' + repr((x, y)))
            xn = x.tid is None; yn = y.tid is None
            if xn or yn: eq = z3.BoolVal(xn and yn)
            elif x.tid == y.tid:
                try: eq = self.keyeq(x.val, y.val)
                except Exception: eq = z3.BoolVal(x.val is y.val)
                if isinstance(x.val, Opaque) or isinstance(y.val, Opaque): eq = z3.BoolVal(x.val is y.val)
            elif str(x.tid).startswith('dyn:') or str(y.tid).startswith('dyn:'):
                st.counter += 1; eq = z3.Bool(f'ifaceeq!{st.counter}')
            else: eq = z3.BoolVal(False)
            return eq if tok == '==' else z3.Not(eq)
        if isinstance(x, BytesV) or isinstance(y, BytesV):
            # []byte(string) compared with nil: a converted / decoded byte string is a non-nil slice
            return z3.BoolVal(tok != '==')
        if isinstance(x, SliceV):
            x = self.resolve_slice(st, x)
            eq = x.obj is None and x.len == 0
            return z3.BoolVal(eq if tok == '==' else not eq)
        if isinstance(y, SliceV):
            y = self.resolve_slice(st, y)
            eq = y.obj is None and y.len == 0
            return z3.BoolVal(eq if tok == '==' else not eq)
        if isinstance(x, (MapV, FuncV)) or isinstance(y, (MapV, FuncV)):
            return z3.BoolVal(tok != '==')
        if isinstance(x, (StructV, ArrayV)):
            eq = self.keyeq(self.forceall(st, x), self.forceall(st, y))
            return eq if tok == '==' else z3.Not(eq)
        if isinstance(x, Opaque) or isinstance(y, Opaque):
            eq = z3.BoolVal(x is y) if (isinstance(x, Opaque) and isinstance(y, Opaque)) else z3.BoolVal(False)
            return eq if tok == '==' else z3.Not(eq)
        if z3.is_string(x):
            if tok == '+': return z3.Concat(x, y)
            if tok == '==': return x == y
            if tok == '!=': return x != y
            if tok == '<': return x < y
            if tok == '<=': return x <= y
            if tok == '>': return y < x
            if tok == '>=': return y <= x
            raise Unsupported('string op ' + tok)
        if z3.is_bool(x):
            return {'==': lambda: x == y, '!=': lambda: x != y, '&&': lambda: z3.And(x, y), '||': lambda: z3.Or(x, y)}[tok]()
        if z3.is_fp(x):
            rm = z3.RNE()
            return {'+': lambda: z3.fpAdd(rm, x, y), '-': lambda: z3.fpSub(rm, x, y), '*': lambda: z3.fpMul(rm, x, y), '/': lambda: z3.fpDiv(rm, x, y),
                    '<': lambda: z3.fpLT(x, y), '<=': lambda: z3.fpLEQ(x, y), '>': lambda: z3.fpGT(x, y), '>=': lambda: z3.fpGEQ(x, y), '==': lambda: z3.fpEQ(x, y), '!=': lambda: z3.Not(z3.fpEQ(x, y))}[tok]()
        if tok in ('<<', '>>'):
            if isinstance(y, IntV): y = z3.Int2BV(y.e, 64)
            if y.size() != x.size(): y = z3.ZeroExt(x.size() - y.size(), y) if y.size() < x.size() else z3.If(z3.UGE(y, x.size()), z3.BitVecVal(x.size(), x.size()), z3.Extract(x.size() - 1, 0, y))
            big = z3.UGE(y, x.size())
            if tok == '<<': return z3.If(big, z3.BitVecVal(0, x.size()), x << y)
            return z3.If(big, (x >> (x.size() - 1)) if s else z3.BitVecVal(0, x.size()), (x >> y) if s else z3.LShR(x, y))
        if tok in ('/', '%'):
            self.check_fault(st, y == 0, 'integer divide by zero')
        tbl = {'+': lambda: x + y, '-': lambda: x - y, '*': lambda: x * y, '&': lambda: x & y, '|': lambda: x | y, '^': lambda: x ^ y, '&^': lambda: x & ~y,
               '==': lambda: x == y, '!=': lambda: x != y,
               '<': lambda: (x < y) if s else z3.ULT(x, y), '<=': lambda: (x <= y) if s else z3.ULE(x, y),
               '>': lambda: (x > y) if s else z3.UGT(x, y), '>=': lambda: (x >= y) if s else z3.UGE(x, y),
               '/': lambda: (x / y) if s else z3.UDiv(x, y), '%': lambda: z3.SRem(x, y) if s else z3.URem(x, y)}
        return tbl[tok]()

    def forceall(self, st, v):
        if isinstance(v, (StructV, ArrayV)):
            for i in range(len(v)):
                if isinstance(v[i], Lazy): v[i] = self.materialise(st, v[i])
                self.forceall(st, v[i])
        return v

    def convert(self, st, ins, x):
        ft = self.ir.under(ins['xtype'])[1]; tt = self.ir.under(ins['type'])[1]
        if ft['kind'] == 'basic' and tt['kind'] == 'basic':
            fb, tb = ft['bkind'], tt['bkind']
            if isinstance(x, IntV):
                if tb in INTBITS and INTBITS[tb] == 64: return x   # stays a mathematical integer (documented: no wrap for lengths)
                x = z3.Int2BV(x.e, 64); fb = INT
            if fb in INTBITS and tb in INTBITS:
                fw, tw = INTBITS[fb], INTBITS[tb]
                if tw == fw: return x
                if tw < fw: return z3.Extract(tw - 1, 0, x)
                return z3.SignExt(tw - fw, x) if fb in SIGNED else z3.ZeroExt(tw - fw, x)
            if fb in INTBITS and tb in (FLOAT64, UNTYPED_FLOAT):
                return z3.fpSignedToFP(z3.RNE(), x, z3.Float64()) if fb in SIGNED else z3.fpUnsignedToFP(z3.RNE(), x, z3.Float64())
            if fb in (FLOAT64, UNTYPED_FLOAT) and tb in INTBITS:
                w = INTBITS[tb]
                if tb in SIGNED: return z3.fpToSBV(z3.RTZ(), x, z3.BitVecSort(w))
                # amd64 uint64(float64): signed conversion below 2^63, offset above (cvttsd2sq)
                two63 = z3.FPVal(2.0 ** 63, z3.Float64())
                lowc = z3.fpToSBV(z3.RTZ(), x, z3.BitVecSort(64))
                hic = z3.fpToSBV(z3.RTZ(), z3.fpSub(z3.RNE(), x, two63), z3.BitVecSort(64)) ^ z3.BitVecVal(1 << 63, 64)
                r = z3.If(z3.fpLT(x, two63), lowc, hic)
                return r if w == 64 else z3.Extract(w - 1, 0, r)
            if fb in (FLOAT64, UNTYPED_FLOAT) and tb in (FLOAT64, UNTYPED_FLOAT): return x
            if fb in INTBITS and tb in (STRING,):
                # string(rune)
                return z3.StrFromCode(z3.BV2Int(x, False))
            if fb == STRING and tb == STRING: return x
        if ft['kind'] == 'basic' and ft['bkind'] in (STRING, UNTYPED_STRING) and tt['kind'] == 'slice':
            return BytesV(x)
        if tt['kind'] == 'basic' and tt.get('bkind') == STRING:
            if isinstance(x, BytesV): return x.s
            if isinstance(x, SliceV):
                x = self.resolve_slice(st, x)
                if x.len == 0: return z3.StringVal('')
                arr = st.heap[x.obj]
                if isinstance(arr, ArrayV):
                    parts = []
                    for k in range(x.off, x.off + x.len):
                        b = arr[k]
                        if isinstance(b, Lazy): b = arr[k] = self.materialise(st, b)
                        parts.append(z3.StrFromCode(z3.BV2Int(b, False)))
                    return z3.Concat(*parts) if len(parts) > 1 else parts[0]
                st.counter += 1; return z3.String(f'string(bytes)!{st.counter}')
            if isinstance(x, (Opaque, Nil)):
                st.counter += 1; return z3.String(f'string({x})!{st.counter}')
        if tt['kind'] == 'slice' and isinstance(x, (SliceV, BytesV, Opaque)): return x
        if tt['kind'] == 'pointer' or ft['kind'] == 'pointer': return x
        raise Unsupported(f'convert {ft} -> {tt}')

    # ------------------------------------------------------------------ calls
    def do_return(self, st, vals):
        fr = st.frames.pop()
        hook = self.on_return.get(fr.fn['name'])
        if hook is not None: hook(self, st, vals)
        rv = vals[0] if len(vals) == 1 else tuple(vals)
        if not st.frames:
            st.status = 'returned'; st.result = vals; return None
        caller = st.frames[-1]
        if fr.ret is not None: caller.regs[fr.ret] = rv
        return None

    def callee_of(self, st, fr, c, args):
        """-> name (static / resolved invoke) or (name, bindings) for closures; prepends receiver to args for invoke"""
        mode = c['mode']
        if mode == 'builtin': return 'builtin:' + c['callee']
        if mode == 'static': return c['callee']
        if mode == 'invoke':
            recv = self.val(st, fr, c['recv'])
            if isinstance(recv, IfaceV) and recv.tid is not None and not str(recv.tid).startswith('dyn:'):
                tstr = self.ir.tstr(recv.tid)
                for cand, rv in ((f'({tstr}).{c["method"]}', recv.val),):
                    if cand in self.ir.funcs or self.find_stub(cand):
                        args.insert(0, rv); return cand
                if tstr.startswith('*'):
                    cand = f'({tstr[1:]}).{c["method"]}'
                    if cand in self.ir.funcs or self.find_stub(cand):
                        args.insert(0, self.load(st, recv.val)); return cand
                # method promoted through embedding or not exported: fall back to interface-level stub with concrete type name
                args.insert(0, recv.val)
                return f'({tstr}).{c["method"]}'
            if isinstance(recv, IfaceV) and recv.tid is None:
                raise Panic('nil interface method call ' + c['method'])
            args.insert(0, recv)
            return f'{c["iface"]}.{c["method"]}'
        f = self.val(st, fr, c['fn'])
        if isinstance(f, FuncV): return (f.name, f.bindings)
        if isinstance(f, Nil): raise Panic('call of nil func')
        args.insert(0, f)
        return 'dynamic:' + repr(f)

    def find_stub(self, name):
        s = self.stubs.get(name)
        if s is not None: return s
        for pat, fn in self.stub_pats:
            if pat.search(name): return fn
        return None

    def call(self, st, fr, ins):
        c = ins['call']; args = [self.val(st, fr, a) for a in c['args']]
        tgt = self.callee_of(st, fr, c, args)
        return self.invoke(st, fr, ins, tgt, args, ins.get('reg'))

    def invoke(self, st, fr, ins, tgt, args, reg):
        bindings = ()
        if isinstance(tgt, tuple): name, bindings = tgt
        else: name = tgt
        if name.startswith('builtin:'):
            return self.builtin(st, fr, ins, name[8:], args, reg)
        if name.endswith('$bound') and bindings:
            name = name[:-6]; args = list(bindings) + list(args); bindings = ()
        stub = self.find_stub(name)
        if stub is not None:
            r = stub(self, st, args, ins)
            if type(r) is list: return r
            if reg is not None: fr.regs[reg] = r
            return None
        if self.ignore is not None and self.ignore.search(name):
            if reg is not None:
                rt = ins.get('type')
                fr.regs[reg] = self.fresh(st, rt, 'ignored') if rt else None
            return None
        if name in self.ir.funcs and (self.inline is None or self.inline(name)):
            hook = self.on_call.get(name)
            if hook is not None: hook(self, st, args)
            f2 = Frame(self.ir.funcs[name], args, bindings); f2.ret = reg
            if len(st.frames) > self.max_depth: raise Unsupported('call depth')
            st.frames.append(f2); self.encoded.add(name); return None
        return self.havoc_call(st, fr, ins, name, args, reg)

    def havoc_call(self, st, fr, ins, name, args, reg):
        """default model of an un-modelled callee: fresh results; an error result forks nil / non-nil"""
        self.havocked[name] = self.havocked.get(name, 0) + 1
        st.ev('havoc', callee=name)
        rt = ins.get('type') if ins['op'] == 'Call' else None
        if rt is None or reg is None: return None
        short = name.split('/')[-1]
        res = self.havoc_result(st, rt, short)
        if type(res) is list:
            out = []
            for (s2, v) in res:
                s2.frames[-1].regs[reg] = v; out.append(s2)
            return out
        fr.regs[reg] = res
        return None

    def havoc_result(self, st, rt, short):
        utid, t = self.ir.under(rt)
        if t['kind'] == 'tuple':
            elems = t['elems'] or []
            if not elems: return ()
            if self.ir.is_error(elems[-1]):
                s2 = st.fork()
                okv = tuple(self.fresh(st, e, short) for e in elems[:-1]) + (IfaceV(None, None),)
                errv = tuple(self.zero(e) for e in elems[:-1]) + (self.mkerr(s2, short),)
                return [(s2, errv), (st, okv)]
            return tuple(self.fresh(st, e, short) for e in elems)
        if self.ir.is_error(rt):
            s2 = st.fork()
            return [(s2, self.mkerr(s2, short)), (st, IfaceV(None, None))]
        return self.fresh(st, rt, short)

    def mkerr(self, st, what):
        st.counter += 1
        return IfaceV('dyn:err!' + what + f'!{st.counter}', Opaque('err:' + what))

    def builtin(self, st, fr, ins, name, args, reg):
        R = fr.regs
        if name == 'len' or name == 'cap':
            x = args[0]
            if isinstance(x, SliceV):
                x = self.resolve_slice(st, x); R[reg] = z3.BitVecVal(x.len if name == 'len' else x.cap, 64)
            elif z3.is_expr(x) and z3.is_string(x): R[reg] = IntV(z3.Length(x))
            elif isinstance(x, BytesV): R[reg] = IntV(z3.Length(x.s))
            elif isinstance(x, MapV):
                self.note_map(st, x, 'r')
                m = st.heap[x.obj]
                if m['base'] is None:
                    ents = self.map_entries(st, x.obj)
                    R[reg] = IntV(z3.Sum([z3.If(e[2], 1, 0) for e in ents]) if ents else z3.IntVal(0))
                else:
                    st.counter += 1; n = z3.Int(f'len({m["base"]})!{st.counter}'); st.pc.append(n >= 0); R[reg] = IntV(n)
            elif isinstance(x, Nil): R[reg] = z3.BitVecVal(0, 64)
            elif isinstance(x, Ptr):
                v = self.load(st, x)
                if isinstance(v, ArrayV): R[reg] = z3.BitVecVal(len(v), 64)
                elif isinstance(v, dict) and 'chan' in v: R[reg] = z3.BitVecVal(len(v['chan']), 64)
                else: raise Unsupported('len of ' + repr(v))
            elif isinstance(x, Opaque):
                st.counter += 1; n = z3.Int(f'len({x})!{st.counter}'); st.pc.append(n >= 0); R[reg] = IntV(n)
            else: raise Unsupported('len of ' + repr(x))
            return None
        if name == 'append':
            s, t = args
            if isinstance(s, BytesV) or isinstance(t, BytesV):
                a = s.s if isinstance(s, BytesV) else (z3.StringVal('') if isinstance(s, SliceV) and self.resolve_slice(st, s).len == 0 else None)
                b = t.s if isinstance(t, BytesV) else (t if z3.is_expr(t) and z3.is_string(t) else (z3.StringVal('') if isinstance(t, SliceV) and self.resolve_slice(st, t).len == 0 else None))
                if a is None or b is None: R[reg] = Opaque('bytes-append'); return None
                R[reg] = BytesV(z3.Concat(a, b)); return None
            if z3.is_expr(t) and z3.is_string(t):   # append([]byte, string...)
                if isinstance(s, SliceV) and self.resolve_slice(st, s).len == 0: R[reg] = BytesV(t); return None
                R[reg] = Opaque('bytes-append'); return None
            if isinstance(s, Opaque) or isinstance(t, Opaque): R[reg] = Opaque('append'); return None
            s = self.resolve_slice(st, s); t = self.resolve_slice(st, t)
            olds = [] if s.len == 0 else [self.cellval(st, s.obj, s.off + i) for i in range(s.len)]
            news = [] if t.len == 0 else [self.cellval(st, t.obj, t.off + i) for i in range(t.len)]
            n = len(olds) + len(news)
            if n == 0: R[reg] = s; return None
            # always reallocate (Go may alias when cap allows; first-party code here never relies on aliasing after append)
            R[reg] = SliceV(st.alloc(ArrayV(clone(v) for v in olds + news)), 0, n, n); return None
        if name == 'delete':
            m, key = args
            if isinstance(m, Nil): return None
            self.note_map(st, m, 'w')
            st.heap[m.obj]['writes'].append(['del', key]); return None
        if name == 'copy':
            d, s = args
            if isinstance(d, SliceV) and isinstance(s, SliceV):
                d = self.resolve_slice(st, d); s = self.resolve_slice(st, s); n = min(d.len, s.len)
                vals = [self.cellval(st, s.obj, s.off + i) for i in range(n)]
                for i, v in enumerate(vals): st.heap[d.obj][d.off + i] = clone(v)
                if reg: R[reg] = z3.BitVecVal(n, 64)
                return None
            if isinstance(d, SliceV) and (isinstance(s, BytesV) or (z3.is_expr(s) and z3.is_string(s))):
                d = self.resolve_slice(st, d)
                if d.len: st.heap[d.obj] = Opaque('copied-bytes')
                if reg: st.counter += 1; R[reg] = z3.BitVec(f'copy!{st.counter}', 64)
                return None
            raise Unsupported('copy ' + repr((d, s)))
        if name == 'close':
            st.ev('close', chan=repr(args[0])); return None
        if name in ('print', 'println'): return None
        if name == 'min' or name == 'max':
            a, b = args[0], args[1]
            sg = self.signed(ins['type'])
            lt = (a < b) if sg else z3.ULT(a, b)
            R[reg] = z3.If(lt, a, b) if name == 'min' else z3.If(lt, b, a); return None
        if name == 'recover':
            R[reg] = IfaceV(None, None); return None
        if name.startswith('ssa:wrapnilchk'):
            R[reg] = args[0]; return None
        raise Unsupported('builtin ' + name)

    def cellval(self, st, obj, i):
        arr = st.heap[obj]
        if isinstance(arr, Opaque): return Opaque('elem')
        v = arr[i]
        if isinstance(v, Lazy): v = arr[i] = self.own(st, self.materialise(st, v))
        return v

    def slice_values(self, st, s):
        s = self.resolve_slice(st, s)
        return [self.cellval(st, s.obj, s.off + i) for i in range(s.len)]

    def mkslice(self, st, vals):
        vals = list(vals)
        if not vals: return NILSLICE()
        return SliceV(st.alloc(ArrayV(vals)), 0, len(vals), len(vals))


def bytes_string(name, n):
    """a Go string of exactly n arbitrary bytes as a z3 sequence of unit characters (byte loops then simplify per index)"""
    bs = [z3.BitVec(f'{name}[{i}]', 8) for i in range(n)]
    if n == 0: return z3.StringVal(''), bs
    us = [z3.Unit(z3.CharFromBv(z3.ZeroExt(10, b))) for b in bs]
    return (z3.Concat(*us) if n > 1 else us[0]), bs


def str_byte(x, i):
    """x[i] as an 8-bit vector; recognises unit-character strings so that byte loops stay in the bit-vector theory"""
    sub = z3.simplify(z3.SubString(x, i, 1))
    try:
        if sub.decl().kind() == z3.Z3_OP_SEQ_UNIT:
            c = sub.children()[0]
            if c.decl().kind() == z3.Z3_OP_CHAR_FROM_BV:
                b = c.children()[0]
                return z3.simplify(z3.Extract(7, 0, b))
            if c.decl().kind() == z3.Z3_OP_CHAR_CONST:
                return z3.BitVecVal(c.params()[0] & 0xff, 8)
        if z3.is_string_value(sub) and len(sub.as_string()) >= 1:
            import re as _re
            t = _re.sub(r'\\u\{([0-9a-fA-F]+)\}', lambda m: chr(int(m.group(1), 16)), sub.as_string())
            if len(t) == 1: return z3.BitVecVal(ord(t) & 0xff, 8)
    except Exception:
        pass
    return z3.Int2BV(z3.StrToCode(sub), 8)


def free_consts(e, acc=None, seen=None):
    acc = set() if acc is None else acc; seen = set() if seen is None else seen
    stack = [e]
    while stack:
        x = stack.pop()
        i = x.get_id()
        if i in seen: continue
        seen.add(i)
        if z3.is_const(x) and x.decl().kind() == z3.Z3_OP_UNINTERPRETED: acc.add(x.decl().name())
        elif z3.is_app(x):
            if x.decl().kind() == z3.Z3_OP_UNINTERPRETED: acc.add('fn:' + x.decl().name())
            stack.extend(x.children())
        elif z3.is_quantifier(x): stack.append(x.body())
    return acc


def slice_pc(pc, extra):
    """cone of influence: keep only the path-condition conjuncts that (transitively) share symbols with the query.
    Sound because the whole path condition is feasible: the dropped part is satisfiable independently."""
    want = free_consts(extra)
    items = [(c, free_consts(c)) for c in pc]
    keep = [False] * len(items); changed = True
    while changed:
        changed = False
        for i, (c, fv) in enumerate(items):
            if not keep[i] and (fv & want):
                keep[i] = True; want |= fv; changed = True
    return [c for i, (c, fv) in enumerate(items) if keep[i]]


def self_signed_index(i):
    return True
