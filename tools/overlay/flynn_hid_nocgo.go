package hid

// Pure-Go stand-in for the cgo-only Linux implementation (type-checking only: /verif exports the client's SSA with CGO_ENABLED=0;
// the USB HID transport is outside every property and is never executed).

import "errors"

func Devices() ([]*DeviceInfo, error) { return nil, errors.New("hid: not available") }

func (d *DeviceInfo) Open() (Device, error) { return nil, errors.New("hid: not available") }
