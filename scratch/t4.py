import sys; sys.path.insert(0,'/verif')
from checks.c03 import *
from symx.check import Check
chk = Check('C03','quick'); ir = chk.load_ir()
t=time.time(); ob_handler(chk, ir, handler_for(ir, PREFIX)); print(chk.obligations[-1], time.time()-t)
t=time.time(); ob_x509_kernels(chk, ir); print(chk.obligations[-1], time.time()-t)
t=time.time(); ob_automation(chk, ir); print(chk.obligations[-1], time.time()-t)
