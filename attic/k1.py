import time, z3
from ir import IR
from symx import *
t0 = time.time()
ir = IR('/tmp/spike/ir'); print('ir load', round(time.time() - t0, 2), 's', len(ir.funcs), 'funcs')
stubs = {
    'net.IPv4': lambda ex, st, args, ins: Opaque('ip'),
    'net.CIDRMask': lambda ex, st, args, ins: Opaque('mask'),
}
F = 'github.com/Cloud-Foundations/keymaster/lib/certgen.decodeIPV4AddressChoice'
tot = {'returned': 0, 'panic': 0}
t1 = time.time()
for L in range(0, 7):
    ex = Exec(ir, stubs)
    st = State()
    arr = st.alloc(ArrayV(z3.BitVec(f'b{i}', 8) for i in range(L)))
    bl = z3.BitVec('BitLength', 64)
    st.pc += [bl >= 0, bl <= 64, z3.BitVecVal(L, 64) == (bl + 7) / 8]
    bs = StructV([SliceV(arr, 0, L, L), bl])
    for s in ex.run(F, [bs], st):
        tot[s.status] = tot.get(s.status, 0) + 1
        if s.status == 'panic':
            r, m = ex.model(s.pc)
            print(f'  L={L} PANIC {s.result}: BitLength={m[bl]}')
print(tot, 'time', round(time.time() - t1, 2), 's')
