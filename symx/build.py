"""Regenerate the IR from /repo's current working tree (cached by content hash of every Go source / go.mod / go.sum)."""
import hashlib, os, subprocess, fcntl, sys, time, json, shutil
from .ir import IR

REPO = os.environ.get('VERIF_REPO', '/repo')
VERIF = os.path.dirname(os.path.dirname(os.path.abspath(__file__)))
OUT = os.environ.get('VERIF_OUT') or os.path.join(VERIF, 'out')      # VERIF_OUT / VERIF_REPO / VERIF_EVIDENCE: used by tools/seed_matrix.py to run checks against scratch copies
BIN = os.path.join(VERIF, 'out', 'bin', 'ssaexport')

SERVER_ROOTS = ['./cmd/keymasterd', './lib/certgen', './lib/pwauth/ldap', './lib/pwauth/command', './lib/pwauth/htpassword',
                './lib/authutil', './lib/util', './lib/server/aws_identity_cert', './lib/instrumentedwriter', './lib/webapi/v0/proto',
                './keymasterd/admincache', './keymasterd/eventnotifier', './eventmon/eventrecorder', './proto/eventmon',
                'net', 'net/url', 'time', 'strings', 'crypto/rsa', 'golang.org/x/time/rate', 'github.com/pquerna/otp/totp']
CLIENT_ROOTS = ['./cmd/keymaster', './lib/client/twofa', './lib/client/sshagent', './lib/client/util', './lib/client/config', './lib/client/aws_role']


def goenv():
    e = dict(os.environ)
    e.update({'GOFLAGS': '-mod=mod', 'GOPROXY': 'off'})
    e.pop('GOSUMDB', None)
    return e


def tree_files():
    out = []
    for root, dirs, files in os.walk(REPO):
        dirs[:] = [d for d in dirs if d != '.git' and d != 'node_modules']
        for f in files:
            if f.endswith('.go') or f in ('go.mod', 'go.sum'):
                out.append(os.path.join(root, f))
    return sorted(out)


def tree_hash():
    h = hashlib.sha256()
    files = {}
    for p in tree_files():
        b = open(p, 'rb').read()
        d = hashlib.sha256(b).hexdigest()
        files[os.path.relpath(p, REPO)] = d
        h.update(p.encode()); h.update(d.encode())
    try:
        h.update(open(os.path.join(VERIF, 'tools', 'ssaexport', 'main.go'), 'rb').read())
    except OSError:
        pass
    return h.hexdigest()[:24], files


def ensure_bin():
    if os.path.exists(BIN) and os.path.getmtime(BIN) >= os.path.getmtime(os.path.join(VERIF, 'tools', 'ssaexport', 'main.go')):
        return
    os.makedirs(os.path.dirname(BIN), exist_ok=True)
    e = goenv(); e['GOTOOLCHAIN'] = 'local'
    subprocess.run(['go1.26.8', 'build', '-o', BIN, '.'], cwd=os.path.join(VERIF, 'tools', 'ssaexport'), env=e, check=True, timeout=600)


def export(kind='server'):
    """returns (ir_dir, tree_hash, files) -- builds if not cached"""
    th, files = tree_hash()
    d = os.path.join(OUT, 'cache', th, kind)
    os.makedirs(os.path.join(OUT, 'cache'), exist_ok=True)
    lock = open(os.path.join(OUT, 'cache', f'.lock-{kind}'), 'w')
    fcntl.flock(lock, fcntl.LOCK_EX)
    try:
        if not os.path.exists(os.path.join(d, '_types.json')):
            ensure_bin()
            tmp = d + '.tmp'
            shutil.rmtree(tmp, ignore_errors=True)
            os.makedirs(tmp)
            e = goenv()
            roots = SERVER_ROOTS if kind == 'server' else CLIENT_ROOTS
            args = [BIN, '-o', tmp, '-dir', REPO]
            if kind == 'client':
                e['CGO_ENABLED'] = '0'
                # the USB HID dependency is cgo-only on Linux: the client packages are type-checked against a pure-Go stand-in
                # (tools/overlay), wired in through an alternate go.mod (-modfile) that replaces github.com/flynn/hid
                hd = subprocess.run(['go', 'list', '-m', '-f', '{{.Dir}}', 'github.com/flynn/hid'], cwd=REPO, env=e, capture_output=True, text=True).stdout.strip()
                cm = os.path.join(OUT, 'clientmod'); shutil.rmtree(cm, ignore_errors=True); os.makedirs(os.path.join(cm, 'hid'))
                shutil.copy(os.path.join(hd, 'hid.go'), os.path.join(cm, 'hid', 'hid.go')); os.chmod(os.path.join(cm, 'hid', 'hid.go'), 0o644)
                shutil.copy(os.path.join(VERIF, 'tools', 'overlay', 'flynn_hid_nocgo.go'), os.path.join(cm, 'hid', 'nocgo.go'))
                open(os.path.join(cm, 'hid', 'go.mod'), 'w').write('module github.com/flynn/hid\n\ngo 1.12\n')
                open(os.path.join(cm, 'go.mod'), 'w').write(open(os.path.join(REPO, 'go.mod')).read() + f'\nreplace github.com/flynn/hid => {os.path.join(cm, "hid")}\n')
                shutil.copy(os.path.join(REPO, 'go.sum'), os.path.join(cm, 'go.sum'))
                e['GOFLAGS'] = e.get('GOFLAGS', '-mod=mod') + ' -modfile=' + os.path.join(cm, 'go.mod')
            t = time.time()
            r = subprocess.run(args + roots, cwd=REPO, env=e, capture_output=True, text=True, timeout=900)
            if r.returncode != 0:
                sys.stderr.write(r.stdout + r.stderr)
                raise SystemExit(2)
            json.dump({'tree_hash': th, 'export_s': round(time.time() - t, 1), 'files': files}, open(os.path.join(tmp, '_meta.json'), 'w'))
            os.rename(tmp, d)
            # keep the cache small: drop other trees' IR
            for o in os.listdir(os.path.join(OUT, 'cache')):
                p = os.path.join(OUT, 'cache', o)
                if os.path.isdir(p) and o != th and time.time() - os.path.getmtime(p) > 3600:
                    shutil.rmtree(p, ignore_errors=True)
    finally:
        fcntl.flock(lock, fcntl.LOCK_UN)
    return d, th, files


def load(kind='server'):
    d, th, files = export(kind)
    ir = IR(d)
    ir.tree_hash = th
    ir.files = files
    return ir
