import sys; sys.path.insert(0,'/verif')
from checks.c03 import *
from symx.check import Check
chk = Check('C03','quick'); ir = chk.load_ir()
name = CG + '.GenSSHCertFileString'
nowsec = z3.BitVec('now.unix', 64)
H = kernel_exec(ir); ex = H.ex
class NowT(TimeV): pass
H.stub('time.Now', lambda ex_, st, a, ins: NowT(z3.ZeroExt(32, nowsec) * lib.T(10**9)))
H.stub('(time.Time).Unix', lambda ex_, st, a, ins: nowsec)
d = z3.BitVec('duration', 64)
st = State(); st.pc += [z3.UGE(nowsec, 1577836800), z3.ULE(nowsec, 3976214400), d <= H24]
paths = ex.run(name, [z3.String('username'), z3.String('pubkey'), IfaceV('dyn:s', Opaque('s')), z3.String('hostid'), d, NIL], st)
p = [p for p in paths if p.evs('sign')][0]
e = p.evs('sign')[0]; va, vb = e['cert']['ValidAfter'], e['cert']['ValidBefore']
print('vb =', z3.simplify(vb))
secs = z3.simplify(vb - nowsec)
print('secs =', secs)
def ask(label, cons, tmo=300):
    s = z3.Solver(); s.set('timeout', tmo*1000); s.add(*cons); t=time.time(); r=s.check(); print(label, r, round(time.time()-t,1), flush=True)
    if r==z3.sat: m=s.model(); print('   d=', m.eval(d).as_signed_long(), 'secs=', m.eval(secs))
ask('A d>=0 wrap-only: secs > 86400', [d>=0, d<=H24, z3.UGT(secs, 86400)])
ask('B d>=0 tight: secs>0 and (secs-1)*1e9 > d', [d>=0, d<=H24, z3.ULE(secs,86400), secs!=0, (secs-1)*1000000000 > d])
ask('C d<0: secs != 0 and not wrapped-past (interval nonempty)', [d<0, z3.UGE(nowsec, 1577836800), z3.ULE(nowsec, 3976214400), z3.UGT(vb, va), z3.UGT(vb, nowsec)])
print('----')
x = z3.fpDiv(z3.RNE(), z3.fpSignedToFP(z3.RNE(), d, z3.Float64()), z3.FPVal(1e9, z3.Float64()))
ask('B2 d>=0 FP-tight: fp(secs) > x', [d>=0, d<=H24, z3.ULE(secs,86400), z3.fpGT(z3.fpUnsignedToFP(z3.RNE(), secs, z3.Float64()), x)], 120)
ask('B1 d in [0,1h] tight', [d>=0, d<=3600*10**9, z3.ULE(secs,86400), secs!=0, (secs-1)*1000000000 > d], 120)
ask('B3 d in [0,24h], tight via division: secs > d/1e9 + 1', [d>=0, d<=H24, z3.UGT(secs, z3.UDiv(d, z3.BitVecVal(10**9,64)) + 1)], 120)
