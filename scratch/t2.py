import sys; sys.path.insert(0,'/verif')
from checks.c01 import *
from symx.check import Check
chk = Check('C01','quick'); ir = chk.load_ir()
H, paths, cfg, path, method = explore(chk, ir, handler_for(ir, PREFIX), 1, [1], 'any')
print(len(paths))
okf = ok_bits(cfg)
n=0
for p in paths:
    for e in p.evs('fail'):
        msg = z3.simplify(e['msg'])
        if z3.is_string_value(msg) and 'Not enough' in msg.as_string():
            n+=1
            if n>2: continue
            print('PC:'); 
            for c in p.pc: print('   ', term(c, 400))
            print('creds', [(c['kind'], term(c['bits'])) for c in p.evs('cred')])
            print([e['k'] for e in p.events])
n=0
for p in paths:
    for e in p.evs('fail'):
        msg = z3.simplify(e['msg'])
        if z3.is_string_value(msg) and 'Not enough' in msg.as_string():
            creds = p.evs('cred')
            suff = z3.And([okf(c['bits']) for c in creds])
            r, m = H.ex.model(p.pc, suff)
            n+=1
            if r=='sat' and n<50:
                print(r, term(suff,500)); print(model_dict(m)); 
                s=z3.Solver(); s.add(*p.pc); s.add(suff); print('fresh:', s.check())
                break
print('=====')
for p in paths:
    if [c['kind'] for c in p.evs('cred')]==['jwt'] and any('Not enough' in term(e['msg']) for e in p.evs('fail')):
        for c in p.pc[-6:]: print('   ', term(c, 1500))
        break
