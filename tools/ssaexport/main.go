// Spike: export go/ssa of root packages as JSON IR.
package main

import (
	"encoding/json"
	"flag"
	"fmt"
	"go/constant"
	"go/token"
	"go/types"
	"os"
	"path/filepath"
	"sort"
	"strings"

	"golang.org/x/tools/go/packages"
	"golang.org/x/tools/go/ssa"
	"golang.org/x/tools/go/ssa/ssautil"
)

type J = map[string]any

var (
	typeIDs  = map[types.Type]string{}
	typeTab  = map[string]J{}
	typeKeys = map[string]string{} // type string -> id
	fset     *token.FileSet
)

func tid(t types.Type) string {
	if t == nil {
		return ""
	}
	if id, ok := typeIDs[t]; ok {
		return id
	}
	key := types.TypeString(t, nil)
	if _, isAlias := t.(*types.Alias); isAlias {
		key = "alias " + key
	}
	if id, ok := typeKeys[key]; ok {
		typeIDs[t] = id
		return id
	}
	id := fmt.Sprintf("T%d", len(typeKeys))
	typeKeys[key] = id
	typeIDs[t] = id
	d := J{"str": key}
	typeTab[id] = d
	switch u := t.(type) {
	case *types.Named:
		d["kind"] = "named"
		d["name"] = u.Obj().Name()
		if u.Obj().Pkg() != nil {
			d["pkg"] = u.Obj().Pkg().Path()
		}
		d["underlying"] = tid(u.Underlying())
		d["mset"] = msetNames(u)
	case *types.Alias:
		d["kind"] = "alias"
		d["underlying"] = tid(types.Unalias(u))
	case *types.Basic:
		d["kind"] = "basic"
		d["name"] = u.Name()
		d["info"] = int(u.Info())
		d["bkind"] = int(u.Kind())
	case *types.Pointer:
		d["kind"] = "pointer"
		d["elem"] = tid(u.Elem())
		if _, ok := types.Unalias(u.Elem()).(*types.Named); ok {
			d["mset"] = msetNames(u)
		}
	case *types.Slice:
		d["kind"] = "slice"
		d["elem"] = tid(u.Elem())
	case *types.Array:
		d["kind"] = "array"
		d["elem"] = tid(u.Elem())
		d["len"] = u.Len()
	case *types.Map:
		d["kind"] = "map"
		d["key"] = tid(u.Key())
		d["elem"] = tid(u.Elem())
	case *types.Chan:
		d["kind"] = "chan"
		d["elem"] = tid(u.Elem())
	case *types.Struct:
		d["kind"] = "struct"
		var fs []J
		for i := 0; i < u.NumFields(); i++ {
			f := u.Field(i)
			fs = append(fs, J{"name": f.Name(), "type": tid(f.Type()), "tag": u.Tag(i), "embedded": f.Embedded()})
		}
		d["fields"] = fs
	case *types.Interface:
		d["kind"] = "interface"
		var ms []string
		for i := 0; i < u.NumMethods(); i++ {
			ms = append(ms, u.Method(i).Name())
		}
		d["methods"] = ms
	case *types.Signature:
		d["kind"] = "func"
		var ps, rs []string
		for i := 0; i < u.Params().Len(); i++ {
			ps = append(ps, tid(u.Params().At(i).Type()))
		}
		for i := 0; i < u.Results().Len(); i++ {
			rs = append(rs, tid(u.Results().At(i).Type()))
		}
		d["params"], d["results"], d["variadic"] = ps, rs, u.Variadic()
	case *types.Tuple:
		d["kind"] = "tuple"
		var es []string
		for i := 0; i < u.Len(); i++ {
			es = append(es, tid(u.At(i).Type()))
		}
		d["elems"] = es
	case *types.TypeParam:
		d["kind"] = "typeparam"
	default:
		d["kind"] = fmt.Sprintf("%T", t)
	}
	return id
}

func msetNames(t types.Type) []string {
	ms := types.NewMethodSet(t)
	out := []string{}
	for i := 0; i < ms.Len(); i++ {
		out = append(out, ms.At(i).Obj().Name())
	}
	return out
}

func pos(p token.Pos) string {
	if !p.IsValid() {
		return ""
	}
	pp := fset.Position(p)
	return fmt.Sprintf("%s:%d", pp.Filename, pp.Line)
}

func operand(v ssa.Value) any {
	switch x := v.(type) {
	case nil:
		return nil
	case *ssa.Const:
		d := J{"k": "const", "type": tid(x.Type())}
		if x.Value == nil {
			d["nil"] = true
		} else {
			switch x.Value.Kind() {
			case constant.Bool:
				d["bool"] = constant.BoolVal(x.Value)
			case constant.String:
				d["str"] = constant.StringVal(x.Value)
			case constant.Int:
				d["int"] = x.Value.ExactString()
			case constant.Float:
				f, _ := constant.Float64Val(x.Value)
				d["float"] = f
				d["exact"] = x.Value.ExactString()
			default:
				d["other"] = x.Value.ExactString()
			}
		}
		return d
	case *ssa.Global:
		return J{"k": "global", "name": x.String(), "type": tid(x.Type())}
	case *ssa.Function:
		return J{"k": "func", "name": x.String()}
	case *ssa.Builtin:
		return J{"k": "builtin", "name": x.Name()}
	case *ssa.Parameter:
		return J{"k": "reg", "name": x.Name()}
	case *ssa.FreeVar:
		return J{"k": "free", "name": x.Name()}
	default:
		return J{"k": "reg", "name": v.Name()}
	}
}

func ops(vs []ssa.Value) []any {
	out := make([]any, len(vs))
	for i, v := range vs {
		out[i] = operand(v)
	}
	return out
}

func callCommon(c *ssa.CallCommon) J {
	d := J{"args": ops(c.Args)}
	if c.IsInvoke() {
		d["mode"] = "invoke"
		d["recv"] = operand(c.Value)
		d["method"] = c.Method.Name()
		d["iface"] = types.TypeString(c.Value.Type(), nil)
	} else {
		switch v := c.Value.(type) {
		case *ssa.Builtin:
			d["mode"] = "builtin"
			d["callee"] = v.Name()
		case *ssa.Function:
			d["mode"] = "static"
			d["callee"] = v.String()
		default:
			d["mode"] = "dynamic"
			d["fn"] = operand(c.Value)
		}
	}
	return d
}

func instr(in ssa.Instruction) J {
	d := J{"op": strings.TrimPrefix(fmt.Sprintf("%T", in), "*ssa."), "pos": pos(in.Pos())}
	if v, ok := in.(ssa.Value); ok {
		d["reg"] = v.Name()
		d["type"] = tid(v.Type())
	}
	switch x := in.(type) {
	case *ssa.Alloc:
		d["heap"] = x.Heap
		d["elem"] = tid(x.Type().(*types.Pointer).Elem())
		d["comment"] = x.Comment
	case *ssa.BinOp:
		d["tok"] = x.Op.String()
		d["x"], d["y"] = operand(x.X), operand(x.Y)
		d["xtype"] = tid(x.X.Type())
	case *ssa.UnOp:
		d["tok"] = x.Op.String()
		d["x"] = operand(x.X)
		d["commaok"] = x.CommaOk
	case *ssa.Call:
		d["call"] = callCommon(&x.Call)
	case *ssa.Go:
		d["call"] = callCommon(&x.Call)
	case *ssa.Defer:
		d["call"] = callCommon(&x.Call)
	case *ssa.ChangeInterface, *ssa.ChangeType, *ssa.Convert, *ssa.MakeInterface, *ssa.MultiConvert, *ssa.SliceToArrayPointer:
		var xv ssa.Value
		switch y := in.(type) {
		case *ssa.ChangeInterface:
			xv = y.X
		case *ssa.ChangeType:
			xv = y.X
		case *ssa.Convert:
			xv = y.X
		case *ssa.MakeInterface:
			xv = y.X
		case *ssa.MultiConvert:
			xv = y.X
		case *ssa.SliceToArrayPointer:
			xv = y.X
		}
		d["x"] = operand(xv)
		d["xtype"] = tid(xv.Type())
	case *ssa.Extract:
		d["x"], d["index"] = operand(x.Tuple), x.Index
	case *ssa.Field:
		d["x"], d["field"] = operand(x.X), x.Field
	case *ssa.FieldAddr:
		d["x"], d["field"] = operand(x.X), x.Field
	case *ssa.Index:
		d["x"], d["index"] = operand(x.X), operand(x.Index)
	case *ssa.IndexAddr:
		d["x"], d["index"] = operand(x.X), operand(x.Index)
		d["xtype"] = tid(x.X.Type())
	case *ssa.Lookup:
		d["x"], d["index"], d["commaok"] = operand(x.X), operand(x.Index), x.CommaOk
		d["xtype"] = tid(x.X.Type())
	case *ssa.MakeClosure:
		d["fn"] = operand(x.Fn)
		d["bindings"] = ops(x.Bindings)
	case *ssa.MakeMap:
		d["reserve"] = operand(x.Reserve)
	case *ssa.MakeSlice:
		d["len"], d["cap"] = operand(x.Len), operand(x.Cap)
	case *ssa.MakeChan:
		d["size"] = operand(x.Size)
	case *ssa.Next:
		d["iter"], d["isstring"] = operand(x.Iter), x.IsString
	case *ssa.Phi:
		d["edges"] = ops(x.Edges)
		d["comment"] = x.Comment
	case *ssa.Range:
		d["x"] = operand(x.X)
		d["xtype"] = tid(x.X.Type())
	case *ssa.Select:
		var st []J
		for _, s := range x.States {
			st = append(st, J{"dir": int(s.Dir), "chan": operand(s.Chan), "send": operand(s.Send)})
		}
		d["states"], d["blocking"] = st, x.Blocking
	case *ssa.Slice:
		d["x"], d["low"], d["high"], d["max"] = operand(x.X), operand(x.Low), operand(x.High), operand(x.Max)
		d["xtype"] = tid(x.X.Type())
	case *ssa.TypeAssert:
		d["x"], d["asserted"], d["commaok"] = operand(x.X), tid(x.AssertedType), x.CommaOk
	case *ssa.If:
		d["cond"] = operand(x.Cond)
	case *ssa.Jump, *ssa.RunDefers:
	case *ssa.MapUpdate:
		d["map"], d["key"], d["value"] = operand(x.Map), operand(x.Key), operand(x.Value)
	case *ssa.Panic:
		d["x"] = operand(x.X)
	case *ssa.Return:
		d["results"] = ops(x.Results)
	case *ssa.Send:
		d["chan"], d["x"] = operand(x.Chan), operand(x.X)
	case *ssa.Store:
		d["addr"], d["val"] = operand(x.Addr), operand(x.Val)
	case *ssa.DebugRef:
	default:
		d["unknown"] = true
	}
	return d
}

func function(fn *ssa.Function) J {
	d := J{"name": fn.String(), "pos": pos(fn.Pos()), "synthetic": fn.Synthetic}
	if fn.Pkg != nil {
		d["pkg"] = fn.Pkg.Pkg.Path()
	}
	var ps, fvs []J
	for _, p := range fn.Params {
		ps = append(ps, J{"name": p.Name(), "type": tid(p.Type())})
	}
	for _, p := range fn.FreeVars {
		fvs = append(fvs, J{"name": p.Name(), "type": tid(p.Type())})
	}
	d["params"], d["freevars"] = ps, fvs
	d["sig"] = tid(fn.Signature)
	if fn.Recover != nil {
		d["recover"] = fn.Recover.Index
	}
	var bs []J
	for _, b := range fn.Blocks {
		bd := J{"index": b.Index, "comment": b.Comment}
		var succ, pred []int
		for _, s := range b.Succs {
			succ = append(succ, s.Index)
		}
		for _, s := range b.Preds {
			pred = append(pred, s.Index)
		}
		bd["succs"], bd["preds"] = succ, pred
		var is []J
		for _, in := range b.Instrs {
			if _, ok := in.(*ssa.DebugRef); ok {
				continue
			}
			is = append(is, instr(in))
		}
		bd["instrs"] = is
		bs = append(bs, bd)
	}
	d["blocks"] = bs
	return d
}

func main() {
	out := flag.String("o", "ir", "output dir")
	dir := flag.String("dir", "/repo", "module dir")
	overlay := flag.String("overlay", "", "JSON file {\"Replace\": {virtual path: real path}} of extra source files (pure-Go stand-ins for cgo-only files)")
	flag.Parse()
	cfg := &packages.Config{
		Mode: packages.NeedName | packages.NeedFiles | packages.NeedCompiledGoFiles | packages.NeedImports |
			packages.NeedTypes | packages.NeedTypesSizes | packages.NeedSyntax | packages.NeedTypesInfo,
		Dir: *dir,
	}
	if *overlay != "" {
		raw, err := os.ReadFile(*overlay)
		if err != nil {
			panic(err)
		}
		var ov struct{ Replace map[string]string }
		if err := json.Unmarshal(raw, &ov); err != nil {
			panic(err)
		}
		cfg.Overlay = map[string][]byte{}
		for virt, real := range ov.Replace {
			b, err := os.ReadFile(real)
			if err != nil {
				panic(err)
			}
			cfg.Overlay[virt] = b
		}
	}
	pkgs, err := packages.Load(cfg, flag.Args()...)
	if err != nil {
		panic(err)
	}
	bad := false
	packages.Visit(pkgs, nil, func(p *packages.Package) {
		for _, e := range p.Errors {
			fmt.Fprintln(os.Stderr, "ERR", p.PkgPath, e)
			bad = true
		}
	})
	if bad {
		os.Exit(2)
	}
	fset = pkgs[0].Fset
	prog, spkgs := ssautil.Packages(pkgs, ssa.InstantiateGenerics)
	roots := map[*ssa.Package]bool{}
	for _, sp := range spkgs {
		if sp != nil {
			sp.Build()
			roots[sp] = true
		}
	}
	os.MkdirAll(*out, 0755)
	perPkg := map[string][]J{}
	n := 0
	for fn := range ssautil.AllFunctions(prog) {
		if fn.Blocks == nil {
			continue
		}
		var pk *ssa.Package
		if fn.Pkg != nil {
			pk = fn.Pkg
		} else if fn.Origin() != nil && fn.Origin().Pkg != nil {
			pk = fn.Origin().Pkg
		} else if fn.Parent() != nil {
			pk = fn.Parent().Pkg
		}
		if pk == nil || !roots[pk] {
			// wrappers/bound methods have no Pkg: keep those whose object is in a root package
			if fn.Synthetic == "" {
				continue
			}
			if fn.Object() == nil || fn.Object().Pkg() == nil {
				continue
			}
			found := false
			for r := range roots {
				if r.Pkg == fn.Object().Pkg() {
					pk = r
					found = true
				}
			}
			if !found {
				continue
			}
		}
		perPkg[pk.Pkg.Path()] = append(perPkg[pk.Pkg.Path()], function(fn))
		n++
	}
	// globals
	globals := J{}
	for sp := range roots {
		for _, m := range sp.Members {
			if g, ok := m.(*ssa.Global); ok {
				globals[g.String()] = J{"type": tid(g.Type().(*types.Pointer).Elem())}
			}
		}
	}
	for p, fs := range perPkg {
		sort.Slice(fs, func(i, j int) bool { return fs[i]["name"].(string) < fs[j]["name"].(string) })
		f, _ := os.Create(filepath.Join(*out, strings.ReplaceAll(p, "/", "_")+".json"))
		json.NewEncoder(f).Encode(J{"pkg": p, "funcs": fs})
		f.Close()
	}
	f, _ := os.Create(filepath.Join(*out, "_types.json"))
	json.NewEncoder(f).Encode(J{"types": typeTab, "globals": globals})
	f.Close()
	fmt.Println("exported functions:", n, "types:", len(typeTab))
}
