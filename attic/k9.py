"""C16 obligation 2 spike: lost update between two u2fTokenManagerHandler requests on the same user"""
import time, z3, re, signal, faulthandler
faulthandler.register(signal.SIGALRM); signal.alarm(560)
from ir import IR
from symx import *
ir = IR('/tmp/spike/ir')
M = 'github.com/Cloud-Foundations/keymaster/cmd/keymasterd'
RS = ir.typeid(M + '.RuntimeState'); REQ = ir.typeid('net/http.Request'); STR = ir.typeid('string')
UP = ir.typeid(M + '.userProfile'); U2 = ir.typeid(M + '.u2fAuthData'); AI = ir.typeid(M + '.authInfo')
PU2 = ir.typeid('*' + M + '.u2fAuthData')
IGN = re.compile(r'log\.DebugLogger\.|SetUsername|\(\*sync\.Mutex\)|metricLog|prometheus|net/http\.Error|WriteHeader|fmt\.Fprintf|net/http\.Redirect')
def nilerr(): return IfaceV(None, None)
def someerr(): return IfaceV(STR, Opaque('err'))
upf = [f['name'] for f in ir.under(UP)[1]['fields']]; u2f_ = [f['name'] for f in ir.under(U2)[1]['fields']]
K = [z3.BitVec('k1', 64), z3.BitVec('k2', 64)]
def run_handler(tag, store):
    """store: list of (key, present, enabled, name). returns list of (pc, saved_store|None)"""
    ex = Exec(ir, {}, max_paths=5000); ex.ignore = IGN
    st = State()
    state = Ptr(st.alloc(Lazy(RS, 'state'))); r = Ptr(st.alloc(Lazy(REQ, 'r')))
    w = IfaceV(ir.typeid('*github.com/Cloud-Foundations/keymaster/lib/instrumentedwriter.LoggingWriter'), Ptr(st.alloc(Opaque('w'))))
    idx = z3.BitVec(f'{tag}.index', 64); action = z3.String(f'{tag}.action'); newname = z3.String(f'{tag}.name')
    form = {'"username"': z3.StringVal('u'), '"index"': z3.String(f'{tag}.indexstr'), '"action"': action, '"name"': newname}
    def st_get(ex, st, a, ins): return form.get(str(a[1]), z3.StringVal(''))
    def st_load(ex, st, a, ins):
        ents = []
        for (k, pres, en, nm) in store:
            tok = StructV(ex.zero(f['type']) for f in ir.under(U2)[1]['fields'])
            tok[u2f_.index('Enabled')] = en; tok[u2f_.index('Name')] = nm
            ents.append([k, Ptr(st.alloc(tok)), pres])
        prof = StructV(ex.zero(f['type']) for f in ir.under(UP)[1]['fields'])
        prof[upf.index('U2fAuthData')] = MapV(st.alloc({'assoc': ents, 'elem': PU2}))
        prof[upf.index('WebauthnData')] = MapV(st.alloc({'assoc': [], 'elem': PU2}))
        return (Ptr(st.alloc(prof)), z3.BoolVal(True), z3.BoolVal(False), nilerr())
    def st_save(ex, st, a, ins):
        prof = ex.load(st, a[2]); m = prof[upf.index('U2fAuthData')]; snap = []
        for (k, p, pres) in st.heap[m.obj]['assoc']:
            tok = ex.load(st, p); snap.append((k, pres, tok[u2f_.index('Enabled')], tok[u2f_.index('Name')]))
        st.events.append(('save', snap)); return nilerr()
    ex.stubs = {
        f'(*{M}.RuntimeState).sendFailureToClientIfLocked': lambda *a: z3.BoolVal(False),
        f'(*{M}.RuntimeState).getRequiredWebUIAuthLevel': lambda *a: z3.BitVecVal(2, 64),
        f'(*{M}.RuntimeState).checkAuth': lambda ex, st, a, ins: (Ptr(st.alloc(StructV([z3.BitVecVal(2, 64), ('T', 0), ('T', 0), z3.StringVal('u')]))), nilerr()),
        '(*net/http.Request).ParseForm': lambda *a: nilerr(),
        f'(*{M}.RuntimeState).writeFailureResponse': lambda ex, st, a, ins: st.events.append(('fail', a[3])),
        '(net/url.Values).Get': st_get,
        f'(*{M}.RuntimeState).IsAdminUserAndU2F': lambda *a: z3.BoolVal(False),
        'strconv.ParseInt': lambda ex, st, a, ins: (idx, nilerr()),
        f'(*{M}.RuntimeState).LoadUserProfile': st_load, f'(*{M}.RuntimeState).SaveUserProfile': st_save,
        'regexp.MatchString': lambda ex, st, a, ins: (z3.BoolVal(True), nilerr()),
        f'{M}.getPreferredAcceptType': lambda *a: z3.StringVal('application/json'),
    }
    out = ex.run(f'(*{M}.RuntimeState).u2fTokenManagerHandler', [state, w, r], st)
    res = []
    for s in out:
        if s.status != 'returned': continue
        sv = [e[1] for e in s.events if e[0] == 'save']
        res.append((s.pc, sv[0] if sv else None))
    return res, ex
def eq_store(a, b):
    return z3.And([z3.And(x[1] == y[1], z3.Implies(x[1], z3.And(x[2] == y[2], x[3] == y[3]))) for x, y in zip(a, b)])
t0 = time.time()
S0 = [(K[0], z3.BoolVal(True), z3.Bool('en1'), z3.String('nm1')), (K[1], z3.BoolVal(True), z3.Bool('en2'), z3.String('nm2'))]
RA, ex = run_handler('A', S0); RB, _ = run_handler('B', S0)
print('paths A on S0:', len(RA), 'saving:', sum(1 for p, v in RA if v), '| B on S0:', len(RB), f'({time.time()-t0:.1f}s)')
sol = z3.Solver(); sol.set('timeout', 60000); sol.add(K[0] != K[1])
found = 0; checked = 0
for pcA, vA in RA:
    if vA is None: continue
    RB_after_A, _ = run_handler('B', vA)
    for pcB, vB in RB:
        if vB is None: continue
        RA_after_B, _ = run_handler('A', vB)
        for pcB2, vAB in RB_after_A:
            if vAB is None: continue
            for pcA2, vBA in RA_after_B:
                if vBA is None: continue
                checked += 1
                # interleaving L_A L_B S_A S_B -> final = vB ; both requests were answered success (they saved)
                sol.push(); sol.add(*pcA, *pcB, *pcB2, *pcA2, z3.Not(eq_store(vB, vAB)), z3.Not(eq_store(vB, vBA)))
                r = sol.check()
                if r == z3.sat:
                    found += 1
                    if found == 1:
                        m = sol.model(); print('  LOST UPDATE witness:', {str(d): m[d] for d in m.decls() if re.match(r'^(A|B)\.(action|index|name)$|^k[12]$|^en[12]$', str(d))})
                sol.pop()
print(f'path quadruples checked={checked} lost-update satisfiable on {found}; wall={time.time()-t0:.1f}s')
