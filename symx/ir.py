"""Loader for the JSON IR written by tools/ssaexport (go/ssa of /repo's current tree)."""
import json, os, glob

# basic kinds from go/types
BOOL, INT, INT8, INT16, INT32, INT64, UINT, UINT8, UINT16, UINT32, UINT64, UINTPTR, FLOAT32, FLOAT64, COMPLEX64, COMPLEX128, STRING, UNSAFEPTR = range(1, 19)
UNTYPED_BOOL, UNTYPED_INT, UNTYPED_RUNE, UNTYPED_FLOAT, UNTYPED_COMPLEX, UNTYPED_STRING, UNTYPED_NIL = range(19, 26)
INTBITS = {INT: 64, INT8: 8, INT16: 16, INT32: 32, INT64: 64, UINT: 64, UINT8: 8, UINT16: 16, UINT32: 32, UINT64: 64, UINTPTR: 64, UNTYPED_INT: 64, UNTYPED_RUNE: 32}
SIGNED = {INT, INT8, INT16, INT32, INT64, UNTYPED_INT, UNTYPED_RUNE}


class IR:
    def __init__(self, d):
        self.dir = d
        t = json.load(open(os.path.join(d, '_types.json')))
        self.types = t['types']
        self.globals = t['globals']
        self.meta = t.get('meta', {})
        self.funcs = {}
        self.bystr = {}
        for k, v in self.types.items():
            self.bystr.setdefault(v['str'], k)
        for f in sorted(glob.glob(os.path.join(d, '*.json'))):
            if os.path.basename(f).startswith('_'):
                continue
            for fn in json.load(open(f))['funcs']:
                self.funcs[fn['name']] = fn
        self._under = {}

    def T(self, tid):
        return self.types[tid]

    def under(self, tid):
        r = self._under.get(tid)
        if r is None:
            t0 = tid
            t = self.types[tid]
            while t['kind'] in ('named', 'alias'):
                tid = t['underlying']
                t = self.types[tid]
            r = self._under[t0] = (tid, t)
        return r

    def kind(self, tid):
        return self.under(tid)[1]['kind']

    def typeid(self, s):
        return self.bystr[s]

    def has_type(self, s):
        return s in self.bystr

    def tstr(self, tid):
        return self.types[tid]['str']

    def fields(self, tid):
        return self.under(tid)[1]['fields'] or []

    def field_index(self, tid, name):
        for i, f in enumerate(self.fields(tid)):
            if f['name'] == name:
                return i
        raise KeyError(name)

    def basic(self, tid):
        u = self.under(tid)[1]
        return u.get('bkind') if u['kind'] == 'basic' else None

    def is_error(self, tid):
        return self.types[tid]['str'] == 'error'

    # ---- structural queries used by the checks (anchors are resolved by role, not only by name)
    def calls_in(self, fname):
        """yield (block, idx, ins) for every Call/Go/Defer in a function"""
        fn = self.funcs[fname]
        for b in fn['blocks']:
            for i, ins in enumerate(b['instrs']):
                if ins['op'] in ('Call', 'Go', 'Defer'):
                    yield b['index'], i, ins

    def callers_of(self, callee_pred, pkgs=None):
        out = []
        for name, fn in self.funcs.items():
            if pkgs and fn.get('pkg') not in pkgs:
                continue
            for b in fn['blocks']:
                for ins in b['instrs']:
                    if ins['op'] in ('Call', 'Go', 'Defer'):
                        c = ins['call']
                        cal = c.get('callee') or (c.get('iface', '') + '.' + c.get('method', ''))
                        if callee_pred(cal):
                            out.append((name, cal, ins))
        return out

    def static_callees(self, fname):
        s = set()
        for _, _, ins in self.calls_in(fname):
            c = ins['call']
            if c['mode'] == 'static':
                s.add(c['callee'])
        return s

    def reachable(self, roots, within=None):
        """static call-graph closure (incl. closures created inside) restricted to functions with bodies"""
        seen = set()
        work = list(roots)
        while work:
            f = work.pop()
            if f in seen or f not in self.funcs:
                continue
            if within and not within(f):
                continue
            seen.add(f)
            fn = self.funcs[f]
            for b in fn['blocks']:
                for ins in b['instrs']:
                    if ins['op'] in ('Call', 'Go', 'Defer'):
                        c = ins['call']
                        if c['mode'] == 'static':
                            work.append(c['callee'])
                    if ins['op'] == 'MakeClosure':
                        work.append(ins['fn']['name'])
                    for k in ('x', 'y', 'val'):
                        o = ins.get(k)
                        if isinstance(o, dict) and o.get('k') == 'func':
                            work.append(o['name'])
                    for o in (ins.get('call', {}).get('args') or []):
                        if isinstance(o, dict) and o.get('k') == 'func':
                            work.append(o['name'])
        return seen
