#!/usr/bin/env python3
"""run the repository's baseline suite (guard off; there are no hooks) and compare with /root/.vp/BASELINE.json stable_pass"""
import json, os, subprocess, sys
BASE = json.load(open('/root/.vp/BASELINE.json'))['stable_pass']
env = dict(os.environ, GOFLAGS='-mod=mod', GOPROXY='off'); env.pop('GOSUMDB', None)
repo = sys.argv[1] if len(sys.argv) > 1 else '/repo'
def run():
    cmd = 'go test -json -vet=off -count=1 -timeout 25m ./... 2>&1'
    full = ['unshare', '-n', 'sh', '-c', 'ip link set lo up 2>/dev/null; ' + cmd]
    if subprocess.run(['unshare', '-n', 'true'], capture_output=True).returncode != 0: full = ['sh', '-c', cmd]
    r = subprocess.run(full, cwd=repo, env=env, capture_output=True, text=True)
    p = set()
    for l in r.stdout.splitlines():
        try: d = json.loads(l)
        except Exception: continue
        if d.get('Action') == 'pass' and d.get('Test'): p.add(d['Package'] + '::' + d['Test'])
    return p
p = run(); missing = [t for t in BASE if t not in p]
if missing: p |= run(); missing = [t for t in BASE if t not in p]
print(f'baseline: {len(BASE) - len(missing)}/{len(BASE)} stable tests pass')
for m in missing: print('MISSING', m)
sys.exit(1 if missing else 0)
