import faulthandler, sys, signal
faulthandler.register(signal.SIGALRM, all_threads=True, chain=False)
signal.alarm(40)
import k3lib
