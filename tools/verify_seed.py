#!/usr/bin/env python3
"""Confirm a seeded change: demo passes on the pinned tree, fails with the change; change builds and keeps the baseline suite green.
usage: verify_seed.py <seed-dir> ...   (uses scratch worktrees under /tmp/vs, removed afterwards)"""
import json, os, re, subprocess, sys, shutil, time

BASE = json.load(open('/root/.vp/BASELINE.json'))['stable_pass']
ENV = dict(os.environ, GOFLAGS='-mod=mod', GOPROXY='off')
ENV.pop('GOSUMDB', None)


def sh(cmd, cwd, timeout=1500):
    # private network namespace: the suite binds fixed TCP ports
    full = ['unshare', '-n', 'sh', '-c', 'ip link set lo up 2>/dev/null; ' + cmd]
    r = subprocess.run(full, cwd=cwd, env=ENV, capture_output=True, text=True, timeout=timeout)
    return r.returncode, r.stdout + r.stderr


def suite(wt):
    rc, out = sh('go test -json -vet=off -count=1 -timeout 25m ./... 2>&1', wt)
    passed = set()
    for line in out.splitlines():
        try: d = json.loads(line)
        except Exception: continue
        if d.get('Action') == 'pass' and d.get('Test'):
            passed.add(d['Package'] + '::' + d['Test'])
    return passed


def verify(seed):
    sid = os.path.basename(seed.rstrip('/'))
    wt = f'/tmp/vs/{sid}'
    subprocess.run(['git', '-C', '/repo', 'worktree', 'remove', '--force', wt], capture_output=True)
    os.makedirs('/tmp/vs', exist_ok=True)
    commit = open('/root/.vp/repo_root_sha').read().strip() if os.environ.get('SEED_BASE') == 'pinned' else 'HEAD'
    subprocess.run(['git', '-C', '/repo', 'worktree', 'add', '--detach', wt, commit], check=True, capture_output=True)
    res = {'seed': sid, 'base': subprocess.run(['git', '-C', wt, 'rev-parse', 'HEAD'], capture_output=True, text=True).stdout.strip()}
    try:
        demo = open(os.path.join(seed, 'demo_test.go')).read()
        m = re.search(r'PATH:\s*(\S+)', demo)
        dpath = m.group(1)
        pkg = './' + os.path.dirname(dpath) + '/'
        tests = re.findall(r'^func (Test\w+)\(', demo, re.M)
        runre = '^(' + '|'.join(tests) + ')$'
        race = '-race ' if 'needs `-race`' in demo or '-race' in (re.search(r'go test[^\n]*', demo) or [''])[0] else ''
        open(os.path.join(wt, dpath), 'w').write(demo)
        cmd = f"go test {race}-vet=off -count=1 -run '{runre}' {pkg}"
        am = json.load(open(os.path.join(seed, 'agent_meta.json'))) if os.path.exists(os.path.join(seed, 'agent_meta.json')) else {}
        if '-modfile' in (am.get('demo_cmd') or ''):
            # client packages: cgo-only HID dependency replaced by a pure-Go stand-in through an alternate go.mod (as symx/build.py does)
            cm = f'/tmp/vs/clientmod_{sid}'; shutil.rmtree(cm, ignore_errors=True); os.makedirs(cm + '/hid')
            hd = subprocess.run(['go', 'list', '-m', '-f', '{{.Dir}}', 'github.com/flynn/hid'], cwd=wt, env=ENV, capture_output=True, text=True).stdout.strip()
            shutil.copy(hd + '/hid.go', cm + '/hid/hid.go'); os.chmod(cm + '/hid/hid.go', 0o644)
            shutil.copy('/verif/tools/overlay/flynn_hid_nocgo.go', cm + '/hid/nocgo.go')
            open(cm + '/hid/go.mod', 'w').write('module github.com/flynn/hid\n\ngo 1.12\n')
            open(cm + '/go.mod', 'w').write(open(wt + '/go.mod').read() + f'\nreplace github.com/flynn/hid => {cm}/hid\n'); shutil.copy(wt + '/go.sum', cm + '/go.sum')
            cmd = f"CGO_ENABLED=0 GOFLAGS='-mod=mod -modfile={cm}/go.mod' " + cmd
        res['demo_cmd'] = cmd
        rc0, out0 = sh(cmd, wt); res['demo_passes_without_change'] = rc0 == 0
        if rc0 != 0: res['demo_without_output'] = out0[-1500:]
        rc, out = subprocess.run(['git', '-C', wt, 'apply', os.path.join(os.path.abspath(seed), 'patch_on_fixed_tree.diff' if (commit == 'HEAD' and os.path.exists(os.path.join(seed, 'patch_on_fixed_tree.diff'))) else 'patch.diff')], capture_output=True, text=True).returncode, ''
        res['patch_applies'] = rc == 0
        if rc == 0:
            rcb, outb = sh('go build ./cmd/keymasterd/ ./lib/... ./keymasterd/... ./eventmon/... 2>&1 | grep -v libudev | grep -v "^#" ; true', wt)
            rc1, out1 = sh(cmd, wt); res['demo_fails_with_change'] = rc1 != 0
            res['demo_with_output_tail'] = out1[-600:]
            os.remove(os.path.join(wt, dpath))
            p = suite(wt)
            missing = [t for t in BASE if t not in p]
            if missing:   # retry once (port flake)
                p |= suite(wt); missing = [t for t in BASE if t not in p]
            res['suite_passes_with_change'] = not missing
            res['suite_missing'] = missing
    finally:
        subprocess.run(['git', '-C', '/repo', 'worktree', 'remove', '--force', wt], capture_output=True)
        shutil.rmtree(wt, ignore_errors=True)
    res['ok'] = bool(res.get('demo_passes_without_change') and res.get('demo_fails_with_change') and res.get('suite_passes_with_change'))
    res['patch_file'] = 'patch_on_fixed_tree.diff' if (commit == 'HEAD' and os.path.exists(os.path.join(seed, 'patch_on_fixed_tree.diff'))) else 'patch.diff'
    json.dump(res, open(os.path.join(seed, 'verified_on_fixed_tree.json' if res['patch_file'] != 'patch.diff' else 'verified.json'), 'w'), indent=1)
    print(sid, 'OK' if res['ok'] else 'NOT-OK', {k: v for k, v in res.items() if k in ('demo_passes_without_change', 'demo_fails_with_change', 'suite_passes_with_change', 'patch_applies')}, flush=True)


if __name__ == '__main__':
    for s in sys.argv[1:]:
        try: verify(s)
        except Exception as e: print(os.path.basename(s), 'ERROR', e, flush=True)
