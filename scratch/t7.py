import sys, faulthandler; sys.path.insert(0,'/verif')
faulthandler.dump_traceback_later(60, exit=True)
from checks.c03 import *
from symx.check import Check
chk = Check('C03','quick'); ir = chk.load_ir()
t=time.time(); ob_ssh_kernel(chk, ir, [('d>=0', lambda d: [d >= 0])]); print(chk.obligations[-1], time.time()-t, chk.violations)
