"""database/sql at the API boundary, for the storage functions of keymasterd (C15).

Tables are z3 arrays, so the content of a database is *arbitrary* (not bounded): user_profile : username -> (present, profile_data);
expiring_signed_user_data : (username, type) -> (present, jws_data, expiration_epoch, update_epoch).  A database that is iterated
(the source of a copy) additionally carries its explicit bounded row list.  Statements are recognised from their (constant) SQL text.
Transactions: a *sql.Tx works on a copy taken at its first statement (SQLite deferred transaction), Commit publishes the copy, Rollback
drops it; a write outside the transaction while the transaction holds its copy fails ("database is locked").  Every call can fail
(fault injection = a fork per call).  db.Query with a non-SELECT statement is driver dependent (the SQLite driver steps the statement
only when rows are read): both behaviours are explored.  Every call leaves an 'sql' event carrying the committed tables of every
database at that point (= what a crash at that point leaves behind)."""
import z3, re
from .engine import *
from . import lib
from .lib import nilerr, mk_error, fork_results

S = z3.StringSort(); B64 = z3.BitVecSort(64); BOOL = z3.BoolSort()
A_SB = z3.ArraySort(S, BOOL); A_SS = z3.ArraySort(S, S)
A_TB = z3.ArraySort(B64, BOOL); A_TS = z3.ArraySort(B64, S); A_TI = z3.ArraySort(B64, B64)
SV = z3.StringVal


def arbitrary_tables(tag):
    return {'up_p': z3.Const(f'{tag}.user_profile.present', A_SB), 'up_d': z3.Const(f'{tag}.user_profile.data', A_SS),
            'sg_p': z3.Const(f'{tag}.signed.present', z3.ArraySort(S, A_TB)), 'sg_j': z3.Const(f'{tag}.signed.jws', z3.ArraySort(S, A_TS)),
            'sg_e': z3.Const(f'{tag}.signed.exp', z3.ArraySort(S, A_TI)), 'sg_u': z3.Const(f'{tag}.signed.upd', z3.ArraySort(S, A_TI))}


def empty_tables():
    return {'up_p': z3.K(S, z3.BoolVal(False)), 'up_d': z3.K(S, SV('')),
            'sg_p': z3.K(S, z3.K(B64, z3.BoolVal(False))), 'sg_j': z3.K(S, z3.K(B64, SV(''))),
            'sg_e': z3.K(S, z3.K(B64, z3.BitVecVal(0, 64))), 'sg_u': z3.K(S, z3.K(B64, z3.BitVecVal(0, 64)))}


def put_user(t, u, d):
    t = dict(t); t['up_p'] = z3.Store(t['up_p'], u, z3.BoolVal(True)); t['up_d'] = z3.Store(t['up_d'], u, d); return t


def put_signed(t, u, ty, j, e, up):
    t = dict(t)
    for k, v in (('sg_p', z3.BoolVal(True)), ('sg_j', j), ('sg_e', e), ('sg_u', up)):
        t[k] = z3.Store(t[k], u, z3.Store(z3.Select(t[k], u), ty, v))
    return t


def tables_from_rows(users, signed):
    t = empty_tables()
    for u, d in users: t = put_user(t, u, d)
    for r in signed: t = put_signed(t, *r)
    return t


def users_differ(a, b, k):
    """the two user tables differ at key k"""
    pa, pb = z3.Select(a['up_p'], k), z3.Select(b['up_p'], k)
    return z3.Or(pa != pb, z3.And(pa, z3.Select(a['up_d'], k) != z3.Select(b['up_d'], k)))


def signed_view(t, u, ty, theta):
    p = z3.Select(z3.Select(t['sg_p'], u), ty); e = z3.Select(z3.Select(t['sg_e'], u), ty)
    return z3.And(p, e > theta), z3.Select(z3.Select(t['sg_j'], u), ty), e


def signed_differ(a, b, u, ty, theta):
    """the unexpired (at theta) views of the two signed-record tables differ at key (u, ty)"""
    va, ja, ea = signed_view(a, u, ty, theta); vb, jb, eb = signed_view(b, u, ty, theta)
    return z3.Or(va != vb, z3.And(va, z3.Or(ja != jb, ea != eb)))


class DB:
    def __init__(self, name, tables, rows=None):
        self.name, self.tables, self.rows = name, tables, rows     # rows: {'users': [(u,d)], 'signed': [(u,t,j,e,up)]} for iterable databases


def install(H, dbs):
    """dbs: {name: DB}; returns {name: Ptr} (the *sql.DB values to hand to the code)"""
    ex = H.ex
    ptrs = {}
    def mk(st):
        st.aux['sql'] = {n: {'tables': d.tables, 'rows': d.rows, 'tx': None} for n, d in dbs.items()}
        for n in dbs: ptrs[n] = Ptr(st.alloc(Opaque('sqldb', db=n)))
        return ptrs
    def dbname(st, p):
        c = st.heap.get(p.obj) if isinstance(p, Ptr) else None
        if isinstance(c, Opaque) and c.what == 'sqldb': return c.db
        raise Unsupported('sql call on an unknown database value')
    def note(st, op, **kw):
        st.ev('sql', op=op, committed={n: dict(d['tables']) for n, d in st.aux['sql'].items()}, **kw)
    def err(s, what): return mk_error(s, SV('sql: ' + what), 'sql')
    def sqltext(q):
        q = z3.simplify(q)
        if z3.is_string_value(q): return re.sub(r'\\u\{([0-9a-fA-F]+)\}', lambda m: chr(int(m.group(1), 16)), q.as_string()), None
        raise Unsupported('non-constant SQL text: ' + str(q)[:80])
    # statements with a formatted integer: fmt.Sprintf is intercepted so that the argument stays available as a term
    osprintf = ex.stubs.get('fmt.Sprintf') or lib.sprintf
    def sprintf(ex_, st, a, ins):
        f = z3.simplify(a[0])
        if z3.is_string_value(f) and re.match(r'\s*(SELECT|DELETE|INSERT|UPDATE)\b', f.as_string(), re.I):
            vals = ex_.slice_values(st, a[1]) if isinstance(a[1], SliceV) else []
            n = len(st.aux.setdefault('sqlargs', []))
            st.aux['sqlargs'].append([v.val if isinstance(v, IfaceV) else v for v in vals])
            return SV(f.as_string() + f' /*ARGS{n}*/')
        return osprintf(ex_, st, a, ins)
    H.stub('fmt.Sprintf', sprintf)
    def parse(st, text):
        """-> (kind, table, where) ; where = None | ('exp>', term) | ('exp<', term)"""
        m = re.search(r'/\*ARGS(\d+)\*/', text); fargs = st.aux['sqlargs'][int(m.group(1))] if m else []
        t = re.sub(r'/\*ARGS\d+\*/', '', text).strip(); tl = ' '.join(t.lower().split())
        if tl.startswith('select username,profile_data from user_profile') and 'where' not in tl: return ('select', 'user_profile', None)
        m2 = re.match(r'select username, type, jws_data, expiration_epoch,update_epoch from expiring_signed_user_data( where expiration_epoch > %d)?$', tl)
        if m2: return ('select', 'signed', ('exp>', fargs[0]) if m2.group(1) else None)
        if re.match(r'select profile_data from user_profile where username = (\?|\$1)$', tl): return ('select1', 'user_profile', None)
        if re.match(r'delete from user_profile where username = (\?|\$1)$', tl): return ('delete1', 'user_profile', None)
        m2 = re.match(r'delete from (user_profile|expiring_signed_user_data)( where expiration_epoch < %d)?$', tl)
        if m2: return ('delete', 'user_profile' if m2.group(1) == 'user_profile' else 'signed', ('exp<', fargs[0]) if m2.group(2) else None)
        if re.match(r'insert or replace into user_profile\(username, profile_data\) values\(\?, \?\)$', tl) or tl.startswith('insert into user_profile(username, profile_data) values ($1,$2) on conflict(username) do update'):
            return ('upsert', 'user_profile', None)
        if re.match(r'insert or replace into expiring_signed_user_data\(username, type, jws_data, expiration_epoch, update_epoch\) values\(\?,\?, \?, \?, \?\)$', tl) or tl.startswith('insert into expiring_signed_user_data(username, type, jws_data, expiration_epoch, update_epoch) values ($1,$2,$3,$4, $5) on conflict'):
            return ('upsert', 'signed', None)
        raise Unsupported('SQL statement outside the model: ' + t[:100])
    def apply(st, tables, stmt, args):
        kind, table, where = stmt
        if kind == 'delete':
            t = dict(tables); e = empty_tables()
            if table == 'user_profile':
                if where is not None: raise Unsupported('DELETE ... WHERE on user_profile')
                t['up_p'], t['up_d'] = e['up_p'], e['up_d']
            else:
                if where is None:
                    for k in ('sg_p', 'sg_j', 'sg_e', 'sg_u'): t[k] = e[k]
                else:
                    # row-wise conditional delete: present' = present and not (exp < theta), expressed with a lambda-free map: fresh array constrained pointwise
                    # is not quantifier-free; the cleanup statement is therefore applied to a *view*: consumers compare unexpired views only.
                    st.aux.setdefault('sql_cleanups', []).append(where[1])
            return t
        if kind == 'delete1':
            vals = [a.val if isinstance(a, IfaceV) else a for a in args]
            t = dict(tables); t['up_p'] = z3.Store(t['up_p'], vals[0], z3.BoolVal(False)); return t
        if kind == 'upsert':
            vals = [a.val if isinstance(a, IfaceV) else a for a in args]
            def s_(v): return v.s if isinstance(v, BytesV) else v
            if table == 'user_profile': return put_user(tables, s_(vals[0]), s_(vals[1]))
            return put_signed(tables, s_(vals[0]), vals[1], s_(vals[2]), vals[3], vals[4])
        raise Unsupported('statement kind ' + kind)
    def rows_after(st, rows, stmt, args):
        """explicit row list of an iterable database after a write (row identity must be decided by the path condition)"""
        if rows is None: return None
        kind, table, where = stmt
        vals = [a.val if isinstance(a, IfaceV) else a for a in args]
        vals = [v.s if isinstance(v, BytesV) else v for v in vals]
        rows = {'users': list(rows['users']), 'signed': list(rows['signed'])}
        def same(c):
            r1 = ex.check(st.pc, c)[0]; r2 = ex.check(st.pc, z3.Not(c))[0]
            if r1 == 'unsat': return False
            if r2 == 'unsat': return True
            raise Unsupported('row identity not decided by the path condition')
        if table == 'user_profile':
            if kind == 'delete': rows['users'] = []
            elif kind in ('delete1', 'upsert'):
                rows['users'] = [r for r in rows['users'] if not same(r[0] == vals[0])]
                if kind == 'upsert': rows['users'].append((vals[0], vals[1]))
        else:
            if kind == 'delete' and where is None: rows['signed'] = []
            elif kind == 'upsert':
                rows['signed'] = [r for r in rows['signed'] if not same(z3.And(r[0] == vals[0], r[1] == vals[1]))]
                rows['signed'].append(tuple(vals[:5]))
        return rows
    def write(st, db, stmt, args, tx):
        """apply a writing statement on the committed tables (tx None) or on the transaction's copy"""
        d = st.aux['sql'][db]
        if tx is None:
            if d['tx'] is not None and d['tx'].get('copy') is not None: return False      # the open transaction holds the write lock
            d['tables'] = apply(st, d['tables'], stmt, args); d['rows'] = rows_after(st, d['rows'], stmt, args); return True
        if tx.get('copy') is None: tx['copy'] = dict(d['tables']); tx['rows'] = d['rows']
        tx['copy'] = apply(st, tx['copy'], stmt, args); tx['rows'] = rows_after(st, tx.get('rows'), stmt, args); return True
    def rows_for(st, db, stmt, tables):
        d = st.aux['sql'][db]
        if d['rows'] is None: raise Unsupported(f'iteration over database {db} without an explicit row list')
        if stmt[1] == 'user_profile': return [list(r) for r in d['rows']['users']], None
        rs = [list(r) for r in d['rows']['signed']]
        return rs, stmt[2]
    def mkrows(s, rows, cond=None):
        return Ptr(s.alloc({'sqlrows': rows, 'pos': -1, 'err': False, 'cond': cond}))
    def do_query(ex_, st, a, ins, tx):
        db = tx['db'] if tx is not None else dbname(st, a[0])
        text, _ = sqltext(a[1]); stmt = parse(st, text)
        alts = [(None, lambda s: (NIL, err(s, 'query failed')))]
        if stmt[0] == 'select':
            def ok(s):
                rows, cond = rows_for(s, db, stmt, None)
                note(s, 'query', db=db, text=text[:60]); return (mkrows(s, rows, cond), nilerr())
            alts.append((None, ok))
        else:
            def lazy(s):
                note(s, 'query-not-stepped', db=db, text=text[:60]); return (mkrows(s, []), nilerr())
            def eager(s):
                t2 = s.aux['sql'][db]['tx'] if tx is not None else None
                if not write(s, db, stmt, [], t2): return (NIL, err(s, 'database is locked'))
                note(s, 'query-executed', db=db, text=text[:60]); return (mkrows(s, []), nilerr())
            alts += [(None, lazy), (None, eager)]
        return fork_results(ex_, st, ins, alts)
    H.stub('(*database/sql.DB).Query', lambda ex_, st, a, ins: do_query(ex_, st, a, ins, None))
    def tx_of(st, p):
        c = st.heap.get(p.obj) if isinstance(p, Ptr) else None
        if isinstance(c, Opaque) and c.what == 'sqltx': return c.db
        raise Unsupported('sql call on an unknown transaction value')
    H.stub('(*database/sql.Tx).Query', lambda ex_, st, a, ins: do_query(ex_, st, a, ins, {'db': tx_of(st, a[0])}))
    def begin(ex_, st, a, ins):
        db = dbname(st, a[0])
        def ok(s):
            s.aux['sql'][db]['tx'] = {'copy': None, 'done': False}
            note(s, 'begin', db=db); return (Ptr(s.alloc(Opaque('sqltx', db=db))), nilerr())
        return fork_results(ex_, st, ins, [(None, lambda s: (NIL, err(s, 'begin failed'))), (None, ok)])
    H.stub('(*database/sql.DB).Begin', begin)
    def prepare(ex_, st, a, ins, intx):
        db = tx_of(st, a[0]) if intx else dbname(st, a[0])
        text, _ = sqltext(a[1]); stmt = parse(st, text)
        def ok(s):
            return (Ptr(s.alloc(Opaque('sqlstmt', db=db, stmt=stmt, intx=intx, text=text[:60]))), nilerr())
        return fork_results(ex_, st, ins, [(None, lambda s: (NIL, err(s, 'prepare failed'))), (None, ok)])
    H.stub('(*database/sql.Tx).Prepare', lambda ex_, st, a, ins: prepare(ex_, st, a, ins, True))
    H.stub('(*database/sql.DB).Prepare', lambda ex_, st, a, ins: prepare(ex_, st, a, ins, False))
    def exec_(ex_, st, db, stmt, args, intx, ins, text):
        def ok(s):
            d = s.aux['sql'][db]; tx = d['tx'] if intx else None
            if intx and (tx is None or tx['done']): return (IfaceV(None, None), err(s, 'transaction has already been committed or rolled back'))
            if not write(s, db, stmt, args, tx): return (IfaceV(None, None), err(s, 'database is locked'))
            note(s, 'exec', db=db, text=text, intx=intx); return (IfaceV('dyn:sqlresult', Opaque('result')), nilerr())
        return fork_results(ex_, st, ins, [(None, lambda s: (IfaceV(None, None), err(s, 'exec failed'))), (None, ok)])
    def stmt_exec(ex_, st, a, ins):
        c = st.heap.get(a[0].obj)
        args = ex_.slice_values(st, a[1]) if isinstance(a[1], SliceV) else []
        return exec_(ex_, st, c.db, c.stmt, args, c.intx, ins, c.text)
    H.stub('(*database/sql.Stmt).Exec', stmt_exec)
    def direct_exec(ex_, st, a, ins, intx):
        db = tx_of(st, a[0]) if intx else dbname(st, a[0])
        text, _ = sqltext(a[1]); stmt = parse(st, text)
        args = ex_.slice_values(st, a[2]) if isinstance(a[2], SliceV) else []
        return exec_(ex_, st, db, stmt, args, intx, ins, text[:60])
    H.stub('(*database/sql.Tx).Exec', lambda ex_, st, a, ins: direct_exec(ex_, st, a, ins, True))
    H.stub('(*database/sql.DB).Exec', lambda ex_, st, a, ins: direct_exec(ex_, st, a, ins, False))
    H.stub('(*database/sql.Stmt).Close', lambda ex_, st, a, ins: nilerr())
    def stmt_queryrow(ex_, st, a, ins):
        c = st.heap.get(a[0].obj)
        args = ex_.slice_values(st, a[1]) if isinstance(a[1], SliceV) else []
        vals = [x.val if isinstance(x, IfaceV) else x for x in args]
        if c.stmt[0] != 'select1': raise Unsupported('QueryRow on ' + c.text)
        d = st.aux['sql'][c.db]; t = d['tx']['copy'] if (c.intx and d['tx'] and d['tx'].get('copy') is not None) else d['tables']
        note(st, 'queryrow', db=c.db, text=c.text)
        return Ptr(st.alloc(Opaque('sqlrow', present=z3.Select(t['up_p'], vals[0]), data=z3.Select(t['up_d'], vals[0]), db=c.db)))
    H.stub('(*database/sql.Stmt).QueryRow', stmt_queryrow)
    def row_scan(ex_, st, a, ins):
        c = st.heap.get(a[0].obj); dests = ex_.slice_values(st, a[1]) if isinstance(a[1], SliceV) else []
        def ok(s):
            p = dests[0].val if isinstance(dests[0], IfaceV) else dests[0]
            ex_.store(s, p, BytesV(c.data)); s.ev('sql.row', db=c.db, data=c.data); return nilerr()
        return fork_results(ex_, st, ins, [(None, lambda s: mk_error(s, SV('driver: bad connection'), 'sqlerr')),
                                           (z3.Not(c.present), lambda s: mk_error(s, SV('sql: no rows in result set'), 'norows')), (c.present, ok)])
    H.stub('(*database/sql.Row).Scan', row_scan)
    def commit(ex_, st, a, ins):
        db = tx_of(st, a[0])
        def ok(s):
            d = s.aux['sql'][db]; tx = d['tx']
            if tx is None or tx['done']: return err(s, 'transaction has already been committed or rolled back')
            if tx['copy'] is not None: d['tables'] = tx['copy']; d['rows'] = tx.get('rows')
            tx['done'] = True; tx['copy'] = None
            note(s, 'commit', db=db); return nilerr()
        def bad(s):
            d = s.aux['sql'][db]; tx = d['tx']
            if tx is not None: tx['done'] = True; tx['copy'] = None       # a failed commit is rolled back
            note(s, 'commit-failed', db=db); return err(s, 'commit failed')
        return fork_results(ex_, st, ins, [(None, bad), (None, ok)])
    H.stub('(*database/sql.Tx).Commit', commit)
    def rollback(ex_, st, a, ins):
        db = tx_of(st, a[0]); d = st.aux['sql'][db]; tx = d['tx']
        if tx is None or tx['done']: return err(st, 'transaction has already been committed or rolled back')
        tx['done'] = True; tx['copy'] = None
        note(st, 'rollback', db=db); return nilerr()
    H.stub('(*database/sql.Tx).Rollback', rollback)
    def rows_next(ex_, st, a, ins):
        if not isinstance(a[0], Ptr): raise Panic('nil *sql.Rows')
        def fail(s):
            cc = s.heap[a[0].obj]; cc['pos'] = len(cc['sqlrows']); cc['err'] = True; return z3.BoolVal(False)
        out = []
        # iteration error at this point
        s_fail = st.fork(); lib.setreg(s_fail, ins, fail(s_fail)); out.append(s_fail)
        # deliver rows, skipping those the WHERE clause filters out
        cur = st
        while True:
            cc = cur.heap[a[0].obj]
            if cc['pos'] + 1 >= len(cc['sqlrows']):
                cc['pos'] = len(cc['sqlrows']); lib.setreg(cur, ins, z3.BoolVal(False)); out.append(cur); break
            cc['pos'] += 1
            if cc['cond'] is None:
                lib.setreg(cur, ins, z3.BoolVal(True)); out.append(cur); break
            kind, theta = cc['cond']; r = cc['sqlrows'][cc['pos']]
            keep = r[3] > theta if kind == 'exp>' else r[3] < theta
            if ex_.feasible(cur.pc, keep):
                s2 = cur.fork(); s2.pc.append(keep); lib.setreg(s2, ins, z3.BoolVal(True)); out.append(s2)
            if not ex_.feasible(cur.pc, z3.Not(keep)):
                break
            cur.pc.append(z3.Not(keep))
        return out
    H.stub('(*database/sql.Rows).Next', rows_next)
    def rows_scan(ex_, st, a, ins):
        c = st.heap[a[0].obj]; dests = ex_.slice_values(st, a[1]) if isinstance(a[1], SliceV) else []
        if not (0 <= c['pos'] < len(c['sqlrows'])): return err(st, 'Scan called without calling Next')
        row = c['sqlrows'][c['pos']]
        def ok(s):
            for d, v in zip(dests, row):
                p = d.val if isinstance(d, IfaceV) else d
                tgt = ex_.load(s, p)
                if isinstance(tgt, (SliceV, BytesV, Nil)) and z3.is_expr(v) and z3.is_string(v): v = BytesV(v)
                ex_.store(s, p, v)
            return nilerr()
        return fork_results(ex_, st, ins, [(None, lambda s: err(s, 'scan failed')), (None, ok)])
    H.stub('(*database/sql.Rows).Scan', rows_scan)
    H.stub('(*database/sql.Rows).Err', lambda ex_, st, a, ins: err(st, 'iteration failed') if st.heap[a[0].obj]['err'] else nilerr())
    H.stub('(*database/sql.Rows).Close', lambda ex_, st, a, ins: nilerr())
    return mk
