"""Translator validation (development aid; also run by `tools/run_all.sh selfcheck`): concrete inputs are pushed through BOTH the real
functions (natively, `go test -overlay` with a generated in-package test) and the SSA encoding (the symbolic executor run on constant
arguments, where every branch is decided by simplification); the two result lists must be equal.  Kernels are chosen to exercise what
the checks lean on: string operations and their stubs, byte/slice indexing and stores, loops and append, the regexp -> z3 translation,
bit arithmetic and the `net` package executed from its own SSA, bounds faults (panics).
Exit 0: all cases agree; exit 1: a disagreement (printed) - the encoder or a stub is wrong, no check result should be believed."""
import sys, os, json, re, random, subprocess
sys.path.insert(0, '/verif')
import z3
from symx import build, lib, replay
from symx.engine import *
from symx.harness import HandlerRun
from symx.lib import M, KM

CG = KM + '/lib/certgen'
SV = z3.StringVal
rnd = random.Random(20261003)


def gostr(s): return json.dumps(s)


def conc(v):
    """python value of a concrete executor value"""
    if isinstance(v, IntV): v = z3.simplify(v.e)
    if z3.is_expr(v):
        v = z3.simplify(v)
        if z3.is_string_value(v): return lib_unq(v)
        if z3.is_bv_value(v): return v.as_long()
        if z3.is_true(v): return True
        if z3.is_false(v): return False
        if z3.is_int_value(v): return v.as_long()
        raise ValueError('not concrete: ' + str(v)[:80])
    if isinstance(v, BytesV): return [ord(c) for c in lib_unq(z3.simplify(v.s))]
    raise ValueError('unsupported value ' + repr(v)[:60])


def lib_unq(t):
    s = t.as_string()
    return re.sub(r'\\u\{([0-9a-fA-F]+)\}', lambda m: chr(int(m.group(1), 16)), s)


def run1(ir, fname, mkargs, post):
    H = HandlerRun(ir, loop_bound=40, budget_s=60); ex = H.ex
    H.stub('regexp.MatchString', lib.re_match)
    from symx import issue
    issue.install(H)
    st = State()
    args = mkargs(ex, st)
    paths = [p for p in ex.run(fname, args, st) if p.status not in ('infeasible',)]
    live = [p for p in paths if p.status in ('returned', 'panic')]
    other = [p for p in paths if p.status not in ('returned', 'panic')]
    if other: return ('ENCODER', other[0].status + ': ' + str(other[0].result)[:120])
    if len(live) != 1: return ('ENCODER', f'{len(live)} feasible paths on concrete input')
    p = live[0]
    if p.status == 'panic': return 'panic'
    return post(ex, p, p.result)


def run(groups=None, ir=None, quiet=False):
    """groups: subset of {'strings', 'slices', 'regexp', 'bytes', 'net'} (None = all) -> (agreeing, total, mismatch descriptions)"""
    ir = ir or build.load()
    want = lambda g: groups is None or g in groups
    cases = []      # (package dir, go expression producing a JSON-able value, executor thunk)
    # 1. hostnameInDomain: == / HasSuffix / concatenation
    hosts = ['', 'a', 'example.com', 'www.example.com', 'evilexample.com', 'example.com.', '.example.com', 'EXAMPLE.com', 'x.y.example.com', 'example.co', 'com']
    doms = ['', 'example.com', 'com', 'a', '.example.com']
    for h in (hosts if want('strings') else []):
        for d in doms:
            cases.append(('cmd/keymasterd', f'hostnameInDomain({gostr(h)}, {gostr(d)})',
                          lambda h=h, d=d: run1(ir, M + '.hostnameInDomain', lambda ex, st: [SV(h), SV(d)], lambda ex, p, r: conc(r[0]))))
    # 2. profileURI
    for a, b in ([('alice', 'alice'), ('alice', 'bob'), ('', ''), ('a', ''), ('', '/x')] if want('strings') else []):
        cases.append(('cmd/keymasterd', f'profileURI({gostr(a)}, {gostr(b)})', lambda a=a, b=b: run1(ir, M + '.profileURI', lambda ex, st: [SV(a), SV(b)], lambda ex, p, r: conc(r[0]))))
    # 2b. fmt.Sprintf with %s (the LDAP bind pattern)
    LD = KM + '/lib/pwauth/ldap'
    for u, pat_ in ([('alice', 'uid=%s,ou=people,dc=example,dc=com'), ('', 'cn=%s'), ('a,b', '%s'), ('x', 'no-verb'), ('bob', '%s@%s')] if want('strings') else []):
        cases.append(('lib/pwauth/ldap', f'convertToBindDN({gostr(u)}, {gostr(pat_)})', lambda u=u, pat_=pat_: run1(ir, LD + '.convertToBindDN', lambda ex, st: [SV(u), SV(pat_)], lambda ex, p, r: conc(r[0]))))
    # 3. prependGroups: loop + append over a slice of strings
    for groups_, pre in ([([], 'p-'), (['a'], ''), (['a', 'b', 'c'], 'p-'), (['x'], 'long-prefix/'), (['', 'y'], '-')] if want('slices') else []):
        goexpr = f'prependGroups([]string{{{", ".join(gostr(g) for g in groups_)}}}, {gostr(pre)})'
        def th(groups=groups_, pre=pre):
            def post(ex, p, r):
                v = r[0]
                if isinstance(v, Nil) or (isinstance(v, SliceV) and (v.len == 0 or v.obj is None)): return []
                return [conc(x) for x in ex.slice_values(p, v)]
            return run1(ir, M + '.prependGroups', lambda ex, st: [ex.mkslice(st, [SV(g) for g in groups]), SV(pre)], post)
        cases.append(('cmd/keymasterd', f'func() []string {{ r := {goexpr}; if r == nil {{ return []string{{}} }}; return r }}()', th))
    # 4. the SSH key pattern (regexp -> z3): first stage of getValidSSHPublicKey
    lines = ['ssh-rsa AAAA\n', 'ssh-rsa AAAA', 'ssh-rsa  AAAA', 'ssh-dss AAAA== comment\n', 'ecdsa-sha2-nistp256 AAAA= x', 'ecdsa-sha2-nistp384 AbC+/9==\n', 'ecdsa-sha2-nistp521 AAAA\n',
             'ssh-ed25519 AAAA=== x', 'ssh-ed25519 AAAA c\nmore', ' ssh-rsa AAAA', 'ssh-rsa', 'ssh-rsa \n', 'sk-ssh-ed25519@openssh.com AAAA', 'ssh-rsa AAAA ' + 'c' * 512, 'ssh-rsa AAAA ' + 'c' * 513, 'ssh-rsa AA$A\n']
    pat = None
    f = ir.funcs[M + '.getValidSSHPublicKey']
    for b in f['blocks']:
        for ins in b['instrs']:
            if ins['op'] == 'Call' and ins['call'].get('callee') == 'regexp.MatchString': pat = ins['call']['args'][0].get('str')
    if pat is not None and want('regexp'):
        for ln in lines:
            def th(ln=ln):
                H = HandlerRun(ir, loop_bound=8, budget_s=60); st = State()
                r = lib.re_match(H.ex, st, [SV(pat), SV(ln)], {'reg': None})
                v = r[0] if isinstance(r, tuple) else r
                res, m = H.ex.check([], z3.Not(v) if z3.is_expr(v) else None)
                return res == 'unsat'
            cases.append(('cmd/keymasterd', f'func() bool {{ ok, _ := regexp.MatchString({gostr(pat)}, {gostr(ln)}); return ok }}()', th))
    # 5. byte-slice stores with computed index; out-of-range => panic
    for realm, n in ([('EXAMPLE.COM', 64), ('R', 40), ('', 32), ('LONGREALM.EXAMPLE.ORG', 40), ('X', 17)] if want('bytes') else []):
        buf = [rnd.randrange(256) for _ in range(n)]
        goexpr = f'func() (out interface{{}}) {{ defer func() {{ if recover() != nil {{ out = "panic" }} }}(); b := changePrintableStringToGeneralString({gostr(realm)}, []byte{{{", ".join(map(str, buf))}}}); r := make([]int, len(b)); for i, x := range b {{ r[i] = int(x) }}; return r }}()'
        def th(realm=realm, buf=buf):
            return run1(ir, CG + '.changePrintableStringToGeneralString', lambda ex, st: [SV(realm), ex.mkslice(st, [z3.BitVecVal(x, 8) for x in buf])],
                        lambda ex, p, r: [conc(x) for x in ex.slice_values(p, r[0])])
        cases.append(('lib/certgen', goexpr, th))
    # 6. address-block encode / decode with net.* from its own SSA
    IPNET = ir.typeid('net.IPNet'); BS = ir.typeid('encoding/asn1.BitString')
    from checks.c11 import newH
    for ones, ip in ([(0, [0, 0, 0, 0]), (8, [10, 0, 0, 0]), (12, [172, 16, 0, 0]), (24, [192, 168, 1, 0]), (32, [8, 8, 8, 8]), (17, [10, 1, 128, 0]), (1, [128, 0, 0, 0])] if want('net') else []):
        mask = ((0xffffffff << (32 - ones)) & 0xffffffff) if ones else 0
        goexpr = f'func() interface{{}} {{ bs, err := encodeIpAddressChoice(net.IPNet{{IP: net.IPv4({ip[0]},{ip[1]},{ip[2]},{ip[3]}).To4(), Mask: net.CIDRMask({ones}, 32)}}); if err != nil {{ return "err" }}; r := []int{{bs.BitLength}}; for _, x := range bs.Bytes {{ r = append(r, int(x)) }}; return r }}()'
        def th(ones=ones, ip=ip, mask=mask):
            H = newH(ir); ex = H.ex; st = State()
            v = [ex.mkslice(st, [z3.BitVecVal(x, 8) for x in ip]) if f['name'] == 'IP' else ex.mkslice(st, [z3.BitVecVal((mask >> (24 - 8 * i)) & 0xff, 8) for i in range(4)]) for f in ir.fields(IPNET)]
            ps = [p for p in ex.run(CG + '.encodeIpAddressChoice', [StructV(v)], st) if p.status in ('returned', 'panic')]
            if len(ps) != 1: return ('ENCODER', f'{len(ps)} paths')
            if ps[0].status == 'panic': return 'panic'
            bs, err = ps[0].result
            if not (isinstance(err, IfaceV) and err.tid is None): return 'err'
            return [conc(ex.getfield(ps[0], bs, BS, 'BitLength'))] + [conc(x) for x in ex.slice_values(ps[0], ex.getfield(ps[0], bs, BS, 'Bytes'))]
        cases.append(('lib/certgen', goexpr, th))
    for bl, by in ([(0, []), (8, [10]), (12, [172, 16]), (24, [192, 168, 1]), (32, [8, 8, 8, 8]), (33, [1, 2, 3, 4, 5]), (16, [10]), (-1, []), (9, [255, 128])] if want('net') else []):
        goexpr = f'func() (out interface{{}}) {{ defer func() {{ if recover() != nil {{ out = "panic" }} }}(); n, err := decodeIPV4AddressChoice(asn1.BitString{{Bytes: []byte{{{", ".join(map(str, by))}}}, BitLength: {bl}}}); if err != nil {{ return "err" }}; r := []int{{}}; for _, x := range n.IP.To4() {{ r = append(r, int(x)) }}; for _, x := range n.Mask {{ r = append(r, int(x)) }}; return r }}()'
        def th(bl=bl, by=by):
            H = newH(ir); ex = H.ex; st = State()
            v = [ex.mkslice(st, [z3.BitVecVal(x, 8) for x in by]) if f['name'] == 'Bytes' else z3.BitVecVal(bl & (2**64 - 1), 64) for f in ir.fields(BS)]
            ps = [p for p in ex.run(CG + '.decodeIPV4AddressChoice', [StructV(v)], st) if p.status in ('returned', 'panic')]
            if len(ps) != 1: return ('ENCODER', f'{len(ps)} paths')
            if ps[0].status == 'panic': return 'panic'
            nb, err = ps[0].result
            if not (isinstance(err, IfaceV) and err.tid is None): return 'err'
            ipv = [conc(x) for x in ex.slice_values(ps[0], ex.getfield(ps[0], nb, IPNET, 'IP'))]
            return ipv[-4:] + [conc(x) for x in ex.slice_values(ps[0], ex.getfield(ps[0], nb, IPNET, 'Mask'))]
        cases.append(('lib/certgen', goexpr, th))
    # ---- native side: one generated test per package
    bypkg = {}
    for i, (pkg, goexpr, th) in enumerate(cases): bypkg.setdefault(pkg, []).append((i, goexpr))
    native = {}
    for pkg, lst in bypkg.items():
        pname = 'main' if pkg == 'cmd/keymasterd' else os.path.basename(pkg)
        body0 = ' '.join(e for _, e in lst)
        imports = ['"encoding/json"', '"fmt"', '"testing"'] + [f'"{m_}"' for m_, tok in (('regexp', 'regexp.'), ('encoding/asn1', 'asn1.'), ('net', 'net.')) if tok in body0]
        body = '\n'.join(f'\temit({i}, {e})' for i, e in lst)
        src = f'package {pname}\n\nimport (\n\t' + '\n\t'.join(sorted(imports)) + f'\n)\n\n// generated by /verif tools/validate_translator.py\nfunc TestVerifTranslatorCases(t *testing.T) {{\n\temit := func(i int, v interface{{}}) {{\n\t\tb, _ := json.Marshal(v)\n\t\tfmt.Printf("VTCASE %d %s\\n", i, b)\n\t}}\n{body}\n}}\n'
        ok, out = replay.go_test(pkg, 'zz_verif_translator_test.go', src, 'TestVerifTranslatorCases -v'.replace(' -v', ''), timeout=600)
        # re-run verbosely to capture stdout of a passing test
        d = [x for x in os.listdir(replay.REPLAY_DIR)]
        env = build.goenv()
        import hashlib
        h = hashlib.sha256((pkg + 'zz_verif_translator_test.go' + src + repr(sorted({}.items()))).encode()).hexdigest()[:12]
        ov = os.path.join(replay.REPLAY_DIR, h, 'overlay.json')
        cmd = f"go test -vet=off -count=1 -v -overlay {ov} -run '^TestVerifTranslatorCases$' ./{pkg}/"
        full = ['sh', '-c', cmd]
        if subprocess.run(['unshare', '-n', 'true'], capture_output=True).returncode == 0: full = ['unshare', '-n', 'sh', '-c', 'ip link set lo up 2>/dev/null; ' + cmd]
        r = subprocess.run(full, cwd=build.REPO, env=env, capture_output=True, text=True, timeout=900)
        for m in re.finditer(r'^VTCASE (\d+) (.*)$', r.stdout, re.M): native[int(m.group(1))] = json.loads(m.group(2))
        if not any(i in native for i, _ in lst):
            return 0, len(cases), ['NATIVE-UNAVAILABLE native run failed for ' + pkg + ': ' + (r.stdout + r.stderr)[-600:]]
    bad = 0; mism = []
    for i, (pkg, goexpr, th) in enumerate(cases):
        try: got = th()
        except Exception as e: got = ('ENCODER', f'{type(e).__name__}: {e}')
        want_ = native.get(i, 'MISSING')
        if isinstance(got, tuple) and got and got[0] == 'ENCODER': ok = False
        else: ok = json.loads(json.dumps(got)) == want_
        if not ok:
            bad += 1; mism.append(f'case {i} [{pkg}] {goexpr[:110]}: native = {want_}, encoder = {got}')
            if not quiet: print('MISMATCH ' + mism[-1])
    if not quiet: print(f'translator validation: {len(cases) - bad}/{len(cases)} concrete cases agree between the native build and the SSA encoding')
    return len(cases) - bad, len(cases), mism


def obligation(chk, groups, ir=None):
    """translator validation as an obligation of a check: concrete inputs through the native build and through the encoding"""
    import time as _t
    t = _t.time()
    try: ok, n, mism = run(groups, ir=ir, quiet=True)
    except Exception as e: ok, n, mism = 0, 0, [f'{type(e).__name__}: {e}']
    if mism and mism[0].startswith('NATIVE-UNAVAILABLE'):
        chk.notes.append('translator validation skipped (the native test could not be run here): ' + mism[0][:300]); return
    chk.replays += n
    if mism or n == 0: chk.obligation('translator-validation', ', '.join(sorted(groups or ['all'])), 'inconclusive', 'the SSA encoding disagrees with the native build on concrete inputs: ' + '; '.join(mism[:3]))
    else: chk.obligation('translator-validation: concrete inputs give the same results natively and through the SSA encoding (' + ', '.join(sorted(groups or ['all'])) + ' kernels)', f'{n} concrete cases', 'holds', witness=f'{ok}/{n} agree', t=_t.time() - t)


def main():
    ok, n, mism = run()
    return 1 if (mism or n == 0) else 0


if __name__ == '__main__':
    sys.exit(main())
