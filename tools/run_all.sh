#!/bin/bash
# run every claimed check (quick by default) in parallel; print one status line per check
cd /verif; tier=${1:-quick}
if [ "$tier" = selfcheck ]; then exec python3-vt tools/validate_translator.py; fi
ids=$(python3 -c "import json; print(' '.join(c['property_id'] for c in json.load(open('MANIFEST.json'))['checks']))")
mkdir -p out/logs
for id in $ids; do ( s=$(date +%s); ./run $id $tier > out/logs/$id.$tier.log 2>&1; rc=$?; echo "$id exit=$rc $(( $(date +%s) - s ))s $(grep -c '^VIOLATION' out/logs/$id.$tier.log) violations; $(tail -1 out/logs/$id.$tier.log | cut -c1-150)" ) & done; wait
