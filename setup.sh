#!/bin/bash
# builds the exporter and warms the IR cache from /repo (offline)
cd "$(dirname "$0")" || exit 2
export GOFLAGS=-mod=mod GOPROXY=off
unset GOSUMDB
mkdir -p out/bin evidence
(cd tools/ssaexport && GOTOOLCHAIN=local go1.26.8 build -o ../../out/bin/ssaexport .) || exit 1
(cd /repo && go build ./cmd/keymasterd/ ./lib/... ./keymasterd/... ./eventmon/... >/dev/null 2>&1; true)
python3-vt - <<'PY'
import sys; sys.path.insert(0, '.')
from symx import build
d, th, files = build.export('server'); print('IR', d)
PY
