"""C05 — a session gains a factor only when its own user proves that factor.

Every route that can re-issue or mint a session cookie (found from the call graph: callers of updateAuthCookieAuthlevel / setNewAuthCookie) is
executed with the *real* checkAuth (so the certificate branch of authentication is included), real updateAuthCookieAuthlevel /
updateAuthJWTWithNewAuthLevel, session cookies by Contract J, and the factor verifiers as contracts that leave a 'verified' event carrying
the user (or the owner of the stored transaction / challenge) the factor was proven for.  One step from an arbitrary pre-state (arbitrary cookies,
arbitrary push-transaction and challenge maps): at every session-token mint z3 decides
   (a) the subject of the new cookie is the identity this request authenticated as (no cross-user upgrade),
   (b) a factor verification for that very subject succeeded on the path (password / OTP / push / U2F / bootstrap / CLI token / federated),
   (c) the new level adds at most that factor to the level of the cookie being re-issued (or, for a fresh cookie, is exactly that factor).
One-time values: TOTP replay window and lock-out are C14's / the TOTP kernel below; bootstrap OTP is cleared and saved before the upgrade.
"""
import time, z3, re
from symx.check import run_check, term, model_dict
from symx.engine import *
from symx.harness import *
from symx import lib, authmodel as am, gate, sweep, jose
from symx.lib import M, nilerr, mk_error, fork_results

SV = z3.StringVal
FACTOR = {'/api/v0/vipAuth': am.VIP, '/api/v0/vipPollCheck': am.VIP, '/api/v0/TOTPAuth': am.TOTP, '/api/v0/okta2FAAuth': am.OKTA, '/api/v0/oktaPollCheck': am.OKTA,
          '/api/v0/bootstrapOtpAuth': am.BOOTSTRAP, '/u2f/SignResponse': am.U2F, '/webauthn/AuthFinish/': am.U2F | am.FIDO2, '/api/v0/login': am.PASSWORD,
          '/auth/oauth2/callback': am.FEDERATED, '/sendAuthDocument': am.WEBAUTHCLI}
SUMMARIES = ['userHasU2FTokens', 'userBootstrapOtpHash', 'getRequiredWebUIAuthLevel', 'trySelfServiceGenerateBootstrapOTP', 'idpOpenIDCGenericIsCorsOriginAllowed', 'CorsOriginAllowed', 'CanRedirectToURL']
_IR = None


def route_worker(rt):
    ir = _IR
    out = {'path': rt['path'], 'viol': [], 'paths': 0, 'mints': 0, 'inconclusive': None, 'wall': 0, 'transitions': 0, 'queries': 0, 'solver_s': 0, 'functions': []}
    factor = FACTOR.get(rt['path'], 0)
    def verified(st, fac, user, **kw): st.ev('verified', factor=fac, user=user, **kw)
    def extra(H):
        H.no_inline = re.compile('|'.join(re.escape(x) + '$' for x in SUMMARIES) + r'|/lib/authutil\.')
        H.stub(f'(*{M}.RuntimeState).writeFailureResponse', am.st_fail)
        H.stub(f'(*{M}.RuntimeState).writeHTMLLoginPage', lambda ex, st, a, ins: st.ev('page', kind='login') and None)
        H.stub(f'(*{M}.RuntimeState).writeHTML2FAAuthPage', lambda ex, st, a, ins: (st.ev('page', kind='2fa'), nilerr())[1])
        H.stub('regexp.MatchString', lambda ex, st, a, ins: (z3.Function('regexp.MatchString', z3.StringSort(), z3.StringSort(), z3.BoolSort())(a[0], a[1]), nilerr()))
        H.add_hints(lens(r'AllowedAuthBackendsFor(Certs|WebUI)\)$', [0]), lens(r'^len\(\*r\.Header\[', [1]), lens(r'^range\(', [0, 1]), lens(r'^req\.ncookies$', [1] if rt['path'] in ('/u2f/SignResponse', '/webauthn/AuthFinish/') else [1, 2]), lens(r'\.aud\)$', [1]),
                    lens(r'^len\(\*\*r\.TLS\.VerifiedChains\)$', [0, 1]), lens(r'^len\(', [0, 1]))
        # checkAuth = refined gate stub: the admission names its credential (last auth_cookie by Contract J / certificate / basic-auth)
        H.stub(gate.CHECKAUTH, gate.st_checkauth_modes(ir))
        issuer = z3.String('issuer')
        H.stub(f'(*{M}.RuntimeState).idpGetIssuer', lambda ex, st, a, ins: issuer)
        H.stub(f'(*{M}.RuntimeState).getJoseKeymastedVerifierList', lambda ex, st, a, ins: (ex.mkslice(st, [z3.String('alg0')]), nilerr()))
        def checkpw(ex, st, a, ins):
            r = am.st_checkpw(ex, st, a, ins)
            for s in (r if type(r) is list else [st]):
                c = s.evs('cred')
                if c and c[-1]['kind'] == 'password' and not [v for v in s.evs('verified') if v.get('src') == id(c[-1])]: verified(s, am.PASSWORD, c[-1]['user'], src=id(c[-1]))
            return r
        H.stub(f'{M}.checkUserPassword', checkpw)
        # factor verifiers (contracts): a verdict plus a 'verified' event for the user / owner it concerns
        def verdict(name, fac, user_of):
            def f(ex, st, a, ins):
                st.counter += 1; ok = z3.Bool(f'{name}.valid!{st.counter}')
                def good(s): verified(s, fac, user_of(ex, s, a)); return (z3.BoolVal(True), nilerr())
                return fork_results(ex, st, ins, [(None, lambda s: (z3.BoolVal(False), mk_error(s, SV(name), name))), (z3.Not(ok), (z3.BoolVal(False), nilerr())), (ok, good)])
            return f
        H.stub_pat(r'vip\.Client\)\.ValidateUserOTP$', verdict('vip.otp', am.VIP, lambda ex, s, a: a[1]))
        def owner_of_tx(ex, s, a):
            t = z3.simplify(a[1]); nm = str(t)
            if nm.endswith('.TransactionID'): return z3.String(nm[:-len('.TransactionID')] + '.Username')
            return z3.String('owner(' + nm + ')')
        H.stub_pat(r'vip\.Client\)\.VipPushHasBeenApproved$', verdict('vip.push', am.VIP, owner_of_tx))
        H.stub_pat(r'okta\.PasswordAuthenticator\)\.ValidateUserOTP$', verdict('okta.otp', am.OKTA, lambda ex, s, a: a[1]))
        def okta_push(ex, st, a, ins):
            st.counter += 1; res = z3.BitVec(f'okta.push!{st.counter}', 64)
            def ok(s):
                s.ev('okta.push', user=a[1], result=res); return (res, nilerr())
            return fork_results(ex, st, ins, [(None, lambda s: (z3.BitVecVal(0, 64), mk_error(s, SV('okta'), 'okta'))), (None, ok)])
        H.stub_pat(r'okta\.PasswordAuthenticator\)\.ValidateUserPush$', okta_push)
        H.stub(f'(*{M}.RuntimeState).validateUserTOTP', verdict('totp', am.TOTP, lambda ex, s, a: a[1]))
        def ctcompare(ex, st, a, ins):
            st.counter += 1; r_ = z3.BitVec(f'ConstantTimeCompare!{st.counter}', 64)
            loads = st.evs('load')
            def one(s):
                if loads: verified(s, am.BOOTSTRAP, loads[-1]['user'])
                return z3.BitVecVal(1, 64)
            return fork_results(ex, st, ins, [(None, z3.BitVecVal(0, 64)), (None, one)])
        H.stub('crypto/subtle.ConstantTimeCompare', ctcompare)
        def u2f_auth(ex, st, a, ins):
            loads = st.evs('load')
            def ok(s):
                ch = a[2] if len(a) > 2 else None
                # the registration asked to vouch must be an enabled one: the path condition implies the Enabled flag of the token being tried
                from checks.c19 import free_consts
                en = []
                for cc in reversed(s.pc):      # the most recent test of an Enabled flag on this path is the one guarding this very token
                    en = [c for c in free_consts(cc) if str(c).endswith('Enabled') and ('U2fAuthData' in str(c) or 'WebauthnData' in str(c))]
                    if en: break
                r_, m_ = ex.model_fresh(s.pc, z3.Not(z3.Or(en + [z3.BoolVal(False)])), 20000)
                if r_ != 'unsat' and not any(v[0] == rt['path'] + '/disabled-token' for v in out['viol']):
                    out['viol'].append((rt['path'] + '/disabled-token', 'a U2F assertion is checked against (and can be accepted for) a token that is not enabled', model_dict(m_) if m_ is not None else None))
                verified(s, am.U2F, loads[-1]['user'] if loads else z3.String('nobody'), challenge=term(ch, 120))
                return (z3.BitVec(lib.fresh_name(s, 'counter'), 32), nilerr())
            return fork_results(ex, st, ins, [(None, lambda s: (z3.BitVecVal(0, 32), mk_error(s, SV('u2f'), 'u2f'))), (None, ok)])
        H.stub_pat(r'u2f\.Registration\)\.Authenticate$', u2f_auth)
        def webauthn_ok(ex, st, a, ins):
            loads = st.evs('load')
            rt_ = ins.get('type'); u = ir.under(rt_)[1] if rt_ else None
            def ok(s):
                verified(s, am.U2F | am.FIDO2, loads[-1]['user'] if loads else z3.String('nobody'))
                if u and u['kind'] == 'tuple': return tuple([ex.fresh(s, e, 'webauthn') for e in u['elems'][:-1]] + [nilerr()])
                return nilerr()
            def bad(s):
                if u and u['kind'] == 'tuple': return tuple([ex.zero(e) for e in u['elems'][:-1]] + [mk_error(s, SV('webauthn'), 'webauthn')])
                return mk_error(s, SV('webauthn'), 'webauthn')
            return fork_results(ex, st, ins, [(None, bad), (None, ok)])
        H.stub_pat(r'webauthn\.WebAuthn\)\.ValidateLogin$|ParsedCredentialAssertionData\)\.Verify$', webauthn_ok)
        # federated login: the identity the provider vouches for
        def oauth_user(ex, st, a, ins):
            def ok(s):
                u = z3.String('oauth2.username'); verified(s, am.FEDERATED, u); return (u, nilerr())
            return fork_results(ex, st, ins, [(None, lambda s: (SV(''), mk_error(s, SV('oauth2'), 'oauth2'))), (None, ok)])
        for cand in ('getUsernameFromUserinfo', 'getUsernameFromOauth2Userinfo'):
            if f'{M}.{cand}' in ir.funcs: H.stub(f'{M}.{cand}', oauth_user)
        def exchange(ex, st, a, ins):
            def ok(s):
                s.ev('oauth2.exchange'); return (ex.fresh(s, ir.under(ins['type'])[1]['elems'][0], 'oauth2token'), nilerr())
            return fork_results(ex, st, ins, [(None, lambda s: (NIL, mk_error(s, SV('exchange'), 'oauth2'))), (None, ok)])
        H.stub_pat(r'oauth2\.Config\)\.Exchange$', exchange)
        def on_mint(ex, st, e):
            c = e['claims']; kind = e.get('kind') or ''
            tt = z3.simplify(c.get('token_type')) if z3.is_expr(c.get('token_type')) else None
            if not kind.endswith('authInfoJWT'): return
            if tt is not None and z3.is_string_value(tt) and tt.as_string() != 'keymaster_auth': return      # CLI token etc.: not a session cookie
            out['mints'] += 1
            sub = c['sub']; lvl = c['auth_type']
            adm = st.evs('admitted'); ver = st.evs('verified')
            how = adm[-1].get('how', '') if adm else ''
            def decide(what, bad, site):
                if how == 'certificate': site = 'certificate-identity/' + site      # the request authenticated with a client certificate but carries somebody's cookie
                r_, m = ex.model_fresh(st.pc, bad, 20000)
                if r_ == 'sat' and not any(v[0] == site for v in out['viol']): out['viol'].append((site, what, model_dict(m)))
                elif r_ == 'unknown': out['inconclusive'] = 'solver unknown'
            # (a) own session: the re-issued cookie belongs to the identity that authenticated this request
            if rt['path'] not in ('/api/v0/login', '/auth/oauth2/callback'):
                if not adm: out['viol'].append((f'{rt["path"]}/ungated', 'session cookie minted without authentication', None)); return
                decide('the session cookie of another user is upgraded: subject of the re-issued cookie != identity that authenticated the request', sub != adm[-1]['user'], f'{rt["path"]}/other-users-cookie')
            # (b) a factor was verified for the subject of the new cookie
            okta = [z3.And(p_['user'] == sub, p_['result'] == 1) for p_ in st.evs('okta.push')]
            has = z3.Or([v['user'] == sub for v in ver] + okta) if (ver or okta) else z3.BoolVal(False)
            if rt['path'] == '/auth/oauth2/callback': has = z3.BoolVal(bool(st.evs('oauth2.exchange')))      # the provider vouches for the identity it returns
            if rt['path'] == '/sendAuthDocument':
                decs = [d for d in st.evs('decode') if 'authInfoJWT' in d['into']]
                has = z3.Or([has] + [jose.Verifies(d['token']) for d in decs[-1:]])
            decide('a session gains a factor that was verified for / belongs to another user (or not verified at all)', z3.Not(has), f'{rt["path"]}/factor-of-another-user')
            # (c) level arithmetic
            decs = [d for d in st.evs('decode') if 'authInfoJWT' in d['into']]
            if decs and rt['path'] not in ('/api/v0/login', '/auth/oauth2/callback', '/sendAuthDocument'):
                old = z3.BitVec(f'jwt[{jose.tokid(decs[-1]["token"])}].auth_type', 64)
                allowed = old | z3.BitVecVal(factor, 64)
                if adm and 'bits' in adm[-1]: allowed = allowed | adm[-1]['bits']      # plus the level of the credential this very request authenticated with (a client certificate proven in the TLS handshake by the same user - (a) above - is that user's own proof)
                decide('the new level adds more than the verified factor to the level of the cookie being re-issued', lvl & ~allowed != 0, f'{rt["path"]}/level')
            elif rt['path'] in ('/api/v0/login', '/auth/oauth2/callback', '/sendAuthDocument'):
                decide('a fresh session carries more than the factor just verified', lvl != z3.BitVecVal(factor, 64), f'{rt["path"]}/level')
        H.ex.on_mint = on_mint
    try:
        H, paths, path = sweep.run_route(ir, rt, budget_s=600, extra=extra, max_paths=80000)
    except Unsupported as e:
        out['inconclusive'] = str(e); return out
    if paths is None: out['inconclusive'] = 'no handler body'; return out
    out['paths'] = len(paths); out['wall'] = round(H.wall, 1); out['transitions'] = sum(p.decisions for p in paths) + len(paths)
    out['queries'] = H.ex.nq; out['solver_s'] = H.ex.tsolve; out['functions'] = sorted(H.ex.encoded)
    bad = [p for p in paths if p.status in ('unsupported', 'unwind')]
    if bad: out['inconclusive'] = bad[0].result
    # facts for C20 (web logins are reported to the event stream): a browser login completes = a session cookie was minted / raised and the
    # browser is sent on to its (filtered) login destination
    out['weblogins'] = 0; out['weblogin_viol'] = []
    for p in paths:
        if p.status != 'returned': continue
        mints = [e for e in p.evs('mint') if (e.get('kind') or '').endswith('authInfoJWT')]
        if not mints or not p.evs('redirect') or not p.evs('filtered'): continue
        out['weblogins'] += 1
        sub = mints[-1]['claims']['sub']
        pubs = [e for e in p.evs('publish') if 'WebLogin' in str(e['kind'])]
        first_answer = min([p.events.index(e) for e in p.evs('redirect')])
        if not [e for e in pubs if p.events.index(e) < first_answer]:
            if not any(v[0] == rt['path'] + '/web-login-not-reported' for v in out['weblogin_viol']): out['weblogin_viol'].append((rt['path'] + '/web-login-not-reported', 'a browser login completes (session cookie raised, redirect to the login destination) without a web-login event', None))
            continue
        u = pubs[-1]['args'][0] if pubs[-1].get('args') else None
        adm = p.evs('admitted')
        who = adm[-1]['user'] if adm else sub      # the identity this request authenticated as (fresh logins: the subject of the new cookie)
        if u is None or H.ex.check(p.pc, u != who)[0] != 'unsat':
            if not any(v[0] == rt['path'] + '/web-login-other-user' for v in out['weblogin_viol']): out['weblogin_viol'].append((rt['path'] + '/web-login-other-user', 'the web-login event names a user other than the one who authenticated', None))
    return out


def ob_routes(chk, ir):
    global _IR
    _IR = ir
    t = time.time(); verdict = 'holds'; total = 0; nm = 0; done = []
    targets = {f'(*{M}.RuntimeState).updateAuthCookieAuthlevel', f'(*{M}.RuntimeState).setNewAuthCookie', f'(*{M}.RuntimeState).genNewSerializedAuthJWT'}
    todo = []
    for rt in routes(ir):
        h = rt['handler']
        if rt['mux'] != 'service' or not isinstance(h, str) or h not in ir.funcs: continue
        fs = ir.reachable([h], within=lambda f: not f.endswith('.writeFailureResponse'))
        if fs & targets: todo.append(rt)
    for rt, out in zip(todo, sweep.parallel(route_worker, todo)):
        if __import__('os').environ.get('DBG'): print('ROUTE', out['path'], out['paths'], out['wall'], 's', out['mints'], out['inconclusive'], flush=True)
        if out['inconclusive']: chk.obligation(f'route {rt["path"]}', '-', 'inconclusive', out['inconclusive']); continue
        total += out['paths']; nm += out['mints']; done.append(rt['path'])
        chk.states += out['paths']; chk.transitions += out['transitions']; chk.queries += out['queries']; chk.solver_s += out['solver_s']; chk.functions |= set(out['functions'])
        for site, what, md in out['viol']:
            r_ = chk.violation('factor-only-for-own-session', site, what, md)
            if r_ == 'new': verdict = 'violated'
            elif verdict == 'holds': verdict = 'known'
    if nm == 0: chk.obligation('factor-only-for-own-session', '-', 'inconclusive', 'vacuous: no session cookie minted'); return
    chk.witnesses += nm
    chk.obligation('factor-only-for-own-session: every session-cookie mint is for the authenticated identity, after a factor verified for that identity, adding only that factor', f'routes {done}; cookies 1..2, TLS absent / 0..1 chains; arbitrary pre-state',
                   verdict, paths=total, witness=f'{nm} session-cookie mints examined', t=time.time() - t)
    chk.sample({'obligation': 'factor-only-for-own-session', 'routes': done, 'mints': nm})


def ob_last_cookie(chk, ir):
    """justifies the refined gate stub: when the real checkAuth admits on a session cookie, it is the LAST cookie named auth_cookie"""
    t = time.time()
    H, paths = gate.run_checkauth(ir, z3.BitVec('requiredAuthType', 64), cookies=[1, 2], tls='none')
    ex = H.ex; verdict = 'holds'; n = 0
    for p in paths:
        if p.status in ('unsupported', 'unwind'): chk.absorb(ex, paths); chk.obligation('last-cookie', '-', 'inconclusive', p.result); return
        if p.status != 'returned' or not isinstance(p.result[0], Ptr): continue
        creds = p.evs('cred')
        if not creds or creds[-1]['kind'] != 'jwt': continue
        n += 1
        alts = gate.last_auth_cookie_alts(ex, p)
        want = z3.Or([z3.And(c, creds[-1]['token'] == tok) for c, i, tok in alts]) if alts else z3.BoolVal(False)
        r_, m = ex.model(p.pc, z3.Not(want))
        if r_ == 'sat':
            if chk.violation('last-cookie', 'checkAuth', 'checkAuth admits on a session cookie that is not the last auth_cookie of the request', model_dict(m)) == 'new': verdict = 'violated'
    chk.absorb(ex, paths)
    if n == 0: chk.obligation('last-cookie', '-', 'inconclusive', 'vacuous'); return
    chk.obligation('last-cookie: a cookie admission of checkAuth is for the last auth_cookie of the request (premise of the handler sweep)', 'cookies 1..2, no TLS', verdict, paths=len(paths), witness=f'{n} cookie admissions', t=time.time() - t)


def ob_totp_one_time(chk, ir):
    """a TOTP code that was accepted is not accepted again (two consecutive calls of validateUserTOTP at arbitrary instants t1 <= t2, same code)"""
    from symx import totpk
    t = time.time()
    if totpk.NAME not in ir.funcs: chk.obligation('totp-one-time', '-', 'inconclusive', 'ANCHOR-LOST ' + totpk.NAME); return
    H, secret = totpk.setup(ir, ndev=1); ex = H.ex
    st, state, w, r = H.mkstate()
    user = SV('alice'); t1 = z3.BitVec('t1', lib.TW); t2 = z3.BitVec('t2', lib.TW); code = z3.String('code')
    st.pc += [t1 >= lib.T(1577836800 * 10**9), t1 <= t2, t2 <= lib.T(3976214400 * 10**9)]
    # lemma (floor division is monotone): t1 <= t2 gives unix(t1) <= unix(t2) and step(t1) <= step(t2); stated so that the solver need not
    # derive it through the constant multiplications that tie the seconds / 30 s steps to the nanosecond instants
    st.pc += [z3.ULE(totpk.clock_vars(1)[0], totpk.clock_vars(2)[0]), z3.ULE(totpk.clock_vars(1)[1], totpk.clock_vars(2)[1])]
    H.add_hints(lens(r'^range\(', [1]))
    ps1 = totpk.call(H, st, state, user, code, t1, 1); verdict = 'holds'; total = len(ps1); n = 0
    for p1 in ps1:
        if p1.status in ('unsupported', 'unwind', 'panic'): chk.absorb(ex, ps1); chk.obligation('totp-one-time', '-', 'inconclusive', p1.result); return
        if not z3.is_true(z3.simplify(p1.result[0])): continue
        # an accepted code is one the validator accepted (for an enabled device of that user) on this very path
        vals = p1.evs('totp.validate')
        r0, m0 = ex.model_fresh(p1.pc, z3.Not(z3.Or([e['ok'] for e in vals] + [z3.BoolVal(False)])), 30000)
        if r0 != 'unsat':
            if chk.violation('totp-one-time', 'validateUserTOTP/accepts-without-validation', 'validateUserTOTP reports success for a code that the TOTP validation did not accept on that path', model_dict(m0) if m0 is not None else None) == 'new': verdict = 'violated'
        # ... and the device that vouched is enabled (a disabled device must not authenticate): with one device in the profile, the path
        # condition of an accepting path must imply that device's Enabled flag
        from checks.c19 import free_consts
        en = sorted({c for cc in p1.pc for c in free_consts(cc) if 'TOTPAuthData' in str(c) and str(c).endswith('Enabled')}, key=str)
        r1, m1 = ex.model_fresh(p1.pc, z3.Not(z3.Or(en + [z3.BoolVal(False)])), 30000)
        if r1 != 'unsat':
            if chk.violation('totp-one-time', 'validateUserTOTP/accepts-disabled-device', 'validateUserTOTP reports success although no enabled device of the user validated the code', model_dict(m1) if m1 is not None else None) == 'new': verdict = 'violated'
        from_cache = any(not ex.feasible(p1.pc, z3.Not(e['fromCache'])) for e in p1.evs('load'))
        saved = bool(p1.evs('save'))
        s2 = p1.fork()
        # the second call reads what the first one saved (storage boundary: the saved profile is what the next load returns)
        if saved:
            snap = p1.evs('save')[-1]['snapshot']
            if snap is not None:
                def load2(ex_, s, a, ins, snap=snap):
                    pp = Ptr(s.alloc(clone(snap))); s.ev('load', user=a[1], profile=pp, fromCache=z3.BoolVal(False), found=z3.BoolVal(True))
                    return (pp, z3.BoolVal(True), z3.BoolVal(False), nilerr())
                H.stub(f'(*{M}.RuntimeState).LoadUserProfile', load2)
        else:
            H.stub(f'(*{M}.RuntimeState).LoadUserProfile', sweep.st_load_profile)
        ps2 = totpk.call(H, s2, state, user, code, t2, 2); total += len(ps2)
        # ... and the same presentation to ANOTHER daemon instance sharing the store (or after a restart): its in-memory per-user record is
        # arbitrary, only the saved profile connects the two calls
        other = []
        if saved and not from_cache:
            s3 = p1.fork()
            RSt = ir.typeid(M + '.RuntimeState'); fi_ = ir.field_index(RSt, 'totpLocalRateLimit'); mt_ = ir.under(ir.fields(RSt)[fi_]['type'])[1]
            ex.store(s3, Ptr(state.obj, (fi_,)), MapV(s3.alloc({'base': '*otherInstance.totpLocalRateLimit', 'elem': mt_['elem'], 'key': mt_['key'], 'writes': [], 'lazy': {}})))
            other = totpk.call(H, s3, state, user, code, t2, 2); total += len(other)
            for p3 in other: p3.aux['other_instance'] = True
        for p2 in ps2 + other:
            if p2.status in ('unsupported', 'unwind', 'panic'): chk.absorb(ex, ps2); chk.obligation('totp-one-time', '-', 'inconclusive', p2.result); return
            if not z3.is_true(z3.simplify(p2.result[0])): continue
            n += 1
            same_step = totpk.step_of_call(1) == totpk.step_of_call(2)
            # distinct steps give distinct values (a six-digit collision between neighbouring steps is not a replay): instantiated for the steps evaluated
            steps = []
            for e_ in p2.evs('totp.validate'):
                if not any(z3.eq(e_['step'], x) for x in steps): steps.append(e_['step'])
            inj = [z3.Implies(totpk.HOTP(secret, a_) == totpk.HOTP(secret, b_), a_ == b_) for i_, a_ in enumerate(steps) for b_ in steps[i_ + 1:]]
            for region, cond in (('same 30 s step', same_step), ('adjacent step (validation accepts +-1 step)', z3.Not(same_step))):
                r_, m = ex.model_fresh(p2.pc + inj, cond, 60000)
                if r_ == 'sat':
                    # (a success that is not persisted although the profile came from the primary store is NOT the recorded offline-cache case)
                    site = 'validateUserTOTP/' + ('other-instance/' if p2.aux.get('other_instance') else '') + ('offline-cache/' if from_cache else 'not-persisted/' if not saved else '') + region
                    res = chk.violation('totp-one-time', site, f'a TOTP code accepted at t1 is accepted again at t2 ({region}' + (', profile not saved: offline cache' if from_cache else ', the accepted counter was not saved' if not saved else '') + ')', model_dict(m))
                    if res == 'new': verdict = 'violated'
                    elif verdict == 'holds': verdict = 'known'
        H.stub(f'(*{M}.RuntimeState).LoadUserProfile', sweep.st_load_profile)
    chk.absorb(ex)
    chk.witnesses += n
    chk.obligation('totp-one-time: an accepted TOTP code is not accepted a second time', 'two consecutive calls at arbitrary instants, same code, one device', verdict, paths=total, witness=f'{n} double acceptances examined', t=time.time() - t)



def ob_enabled_credentials(chk, ir):
    """userProfile.WebAuthnCredentials (what the WebAuthn library is given to verify an assertion against) lists credentials of enabled
    tokens only: executed from SSA over a profile with 0..1 WebAuthn and 0..1 U2F entries whose Enabled flags are symbolic"""
    t = time.time(); name = f'(*{M}.userProfile).WebAuthnCredentials'
    if name not in ir.funcs: chk.obligation('enabled-credentials', '-', 'inconclusive', 'ANCHOR-LOST ' + name); return
    from symx import store
    verdict = 'holds'; total = 0; n = 0
    for nw, nu in ((0, 0), (1, 0), (0, 1), (1, 1)):
        H = HandlerRun(ir, loop_bound=6, budget_s=60); ex = H.ex; ex.ptr_nilable = False
        st = State(); prof = Ptr(st.alloc(store.concrete_profile(ex, st, {'WebauthnData': nw, 'U2fAuthData': nu})))
        paths = ex.run(name, [prof], st); total += len(paths)
        for p in paths:
            if p.status in ('unsupported', 'unwind'): chk.absorb(ex, paths); chk.obligation('enabled-credentials', f'{nw}/{nu}', 'inconclusive', str(p.result)); return
            if p.status != 'returned': continue
            n += 1
            res = p.result[0]; k = 0 if isinstance(res, Nil) or res.len in (0, None) and res.obj is None else res.len
            from checks.c19 import free_consts
            en = sorted({c for cc in p.pc for c in free_consts(cc) if str(c).endswith('Enabled')}, key=str)
            # the number of credentials returned = number of entries whose Enabled flag the path took as true
            cnt = z3.Sum([z3.If(c, 1, 0) for c in en] + [z3.IntVal(0)])
            r_, m = ex.model_fresh(p.pc, cnt != (k or 0), 20000)
            if r_ != 'unsat':
                if chk.violation('enabled-credentials', f'WebAuthnCredentials/{nw} webauthn, {nu} u2f', f'the credential list handed to the WebAuthn verification has {k} entries for a profile whose enabled tokens number differently (a disabled token is offered, or an enabled one dropped)', model_dict(m) if m is not None else None) == 'new': verdict = 'violated'
        chk.absorb(ex, paths)
    if n == 0: chk.obligation('enabled-credentials', '-', 'inconclusive', 'vacuous'); return
    chk.witnesses += n
    chk.obligation('enabled-credentials: the credentials offered for WebAuthn / U2F verification are exactly those of enabled tokens', 'profiles with 0..1 WebAuthn x 0..1 U2F entries, Enabled symbolic', verdict, paths=total, witness=f'{n} listings', t=time.time() - t)


def main(chk):
    ir = chk.load_ir()
    chk.assumptions = ['Contract J for cookies; factor verifiers (VIP, Okta, TOTP validation, U2F/WebAuthn assertion checks, password backend, federated provider) are contracts: a verdict about the user / transaction they are given',
                       'pre-state invariant: a stored push transaction / challenge carries the user whose authenticated request created it (its Username field / map key)']
    chk.bounds = {'cookies': '1..2', 'steps': 'one step from an arbitrary pre-state', 'users': 'arbitrary (symbolic names)'}
    ob_last_cookie(chk, ir)
    ob_routes(chk, ir)
    ob_enabled_credentials(chk, ir)
    ob_totp_one_time(chk, ir)


if __name__ == '__main__':
    run_check('C05', main)
