"""C06 — no protected effect without a valid credential the endpoint accepts.

 1. gate lemma on the real checkAuth (SSA; identity-establishing callees are contracts) for a *symbolic* required mask, 0..1/2 cookies,
    TLS absent / 0..1 verified chains: success => the returned identity is that of a credential that verified on this path, every factor bit
    it carries is backed by such a credential, (level & required) != 0, and (method != GET and Origin/Referer names another host => refused).
 2. the keymaster-certificate branch itself: getUsernameIfKeymasterSigned from SSA over chains 1..2 x 1..3: a name is returned only for a
    chain whose issuer key is a published keymaster key and whose leaf key is not deny-listed.
 3. route sweep (route table from main's SSA): with checkAuth replaced by the lemma's conclusion, every protected effect (signing, token
    minting, profile save/delete, signed-record upsert/delete, user listing, profile load) is preceded on its path by a successful gate of
    that route (checkAuth, or the route's own credential check), and no state-changing effect is reachable with a cross-site Origin/Referer.
"""
import time, z3, re
from symx.check import run_check, term, model_dict
from symx.engine import *
from symx.harness import *
from symx import lib, authmodel as am, gate, sweep, issue, replay
from symx.lib import M, KM, nilerr, mk_error, fork_results

SV = z3.StringVal
STATE_CHANGING = ('save', 'delete', 'upsertsigned', 'deletesigned')
PROTECTED = ('sign', 'mint', 'save', 'delete', 'upsertsigned', 'deletesigned', 'getusers', 'load', '2fa-start')
OWN_GATE = {   # routes that authenticate by something other than checkAuth: the event kinds that count as their gate
    '/api/v0/login': ('cred',), '/idp/oauth2/token': ('jwt.verified',), '/idp/oauth2/userinfo': ('jwt.verified',),
    '/auth/oauth2/callback': ('oauth2.exchange',), '/aws/requestRoleCertificate/v1': ('aws.identity',), '/admin/inject': ('tls.client',),
    '/verifyAuthToken': ('jwt.verified',), '/api/v0/logout': ('none',), '/auth/oauth2/login': ('none',),
}
SUMMARIES = ['userHasU2FTokens', 'userBootstrapOtpHash', 'getRequiredWebUIAuthLevel', 'idpOpenIDCGenericIsCorsOriginAllowed', 'CorsOriginAllowed', 'CanRedirectToURL']


def ob_lemma(chk, ir, cookies):
    required = z3.BitVec('requiredAuthType', 64)
    return gate.gate_lemma(chk, ir, required, f'required symbolic, cookies={list(cookies)}', cookies=cookies, obligation='gate-lemma',
                           interest=am.PASSWORD | am.FEDERATED | am.U2F | am.VIP | am.IPCERT | am.TOTP | am.OKTA | am.BOOTSTRAP | am.WEBAUTHCLI | am.FIDO2)


def ob_kmsigned(chk, ir):
    t = time.time(); name = f'(*{M}.RuntimeState).getUsernameIfKeymasterSigned'
    if name not in ir.funcs: chk.obligation('keymaster-cert-branch', '-', 'inconclusive', 'ANCHOR-LOST ' + name); return
    XT = ir.typeid('crypto/x509.Certificate'); PN = ir.typeid('crypto/x509/pkix.Name')
    S = z3.StringSort(); FP = z3.Function('fingerprint', S, S)
    verdict = 'holds'; total = 0; nacc = 0; done = set()
    for shape in ([1], [2], [3], [1, 2], [2, 2]):
        for nkeys in (0, 1, 2):
            for ndeny in (0, 1):
                H = HandlerRun(ir, loop_bound=8, budget_s=60); ex = H.ex; ex.ptr_nilable = False
                st, state, w, r = H.mkstate()
                chains = []; leafs = []
                for ci, n in enumerate(shape):
                    certs = [Ptr(st.alloc(Lazy(XT, f'*chain{ci}cert{j}'))) for j in range(n)]
                    chains.append(ex.mkslice(st, certs)); leafs.append(certs)
                def fp(ex_, s, a, ins):
                    k = a[0]; inner = k.val if isinstance(k, IfaceV) else k
                    ident = z3.String('key:' + (getattr(inner, 'what', None) or repr(inner)))
                    return (FP(ident), nilerr())
                H.stub(f'{M}.getKeyFingerprint', fp)
                # an IP-restricted (automation) certificate is signed by the same key: whether a leaf carries the RFC 3779 address
                # restriction is a symbolic fact per chain, observable by the code only through the extension list / OID comparison
                def oid_equal(ex_, s, a, ins):
                    cell = s.heap.get(a[0].obj) if isinstance(a[0], SliceV) and a[0].obj is not None else None
                    nm = getattr(cell, 'name', '') if cell is not None else ''
                    m_ = re.search(r'chain(\d+)cert0\.Extensions', nm or '')
                    if m_: return z3.Bool(f'chain{m_.group(1)}.leaf.addressRestricted')
                    s.counter += 1; return z3.Bool(f'oid.equal!{s.counter}')
                H.stub('(encoding/asn1.ObjectIdentifier).Equal', oid_equal)
                H.add_hints(lens(r'cert0\.Extensions\)$', [0, 1]), lens(r'Extensions\[\d\]\.Id\)$', [9]))
                H.add_hints(lens(r'KeymasterPublicKeys\)$', [nkeys]), lens(r'KeyDenyFPsshSha256\)$', [ndeny]),
                            (re.compile(r'(PublicKey|KeymasterPublicKeys\[\d\])$'), lambda ex_, s, tid, nm: IfaceV('dyn:pubkey', Opaque(nm)) if tid is not None and ex_.ir.kind(tid) == 'interface' else NotImplemented))
                paths = ex.run(name, [state, ex.mkslice(st, chains)], st); total += len(paths)
                for p in paths:
                    if p.status == 'panic':
                        if chk.violation('keymaster-cert-branch', 'getUsernameIfKeymasterSigned/panic', 'panics: ' + p.result, None) == 'new': verdict = 'violated'
                        continue
                    if p.status != 'returned': chk.absorb(ex, paths); chk.obligation('keymaster-cert-branch', str(shape), 'inconclusive', p.result); return
                    user, nb, err = p.result
                    if not (isinstance(err, IfaceV) and err.tid is None): continue
                    if not ex.feasible(p.pc, user != SV('')): continue
                    nacc += 1
                    alts = []; ralts = []
                    for ci, certs in enumerate(leafs):
                        if len(certs) < 2: continue
                        leafcn = z3.String(f'*chain{ci}cert0.Subject.CommonName')
                        issuer = FP(z3.String(f'key:*chain{ci}cert1.PublicKey')); leafk = FP(z3.String(f'key:*chain{ci}cert0.PublicKey'))
                        trusted = z3.Or([issuer == FP(z3.String(f'key:*state.KeymasterPublicKeys[{i}]')) for i in range(nkeys)]) if nkeys else z3.BoolVal(False)
                        denied = z3.Or([leafk == z3.String(f'*state.Config.DenyTrustData.KeyDenyFPsshSha256[{i}]') for i in range(ndeny)]) if ndeny else z3.BoolVal(False)
                        alts.append(z3.And(user == leafcn, trusted, z3.Not(denied)))
                        next_ = p.memo.get(f'len(*chain{ci}cert0.Extensions)')
                        restricted = z3.Bool(f'chain{ci}.leaf.addressRestricted') if next_ is None else (z3.Bool(f'chain{ci}.leaf.addressRestricted') if next_ == 1 else z3.BoolVal(False))
                        ralts.append(z3.And(user == leafcn, trusted, z3.Not(denied), z3.Not(restricted)))
                    good = z3.Or(alts) if alts else z3.BoolVal(False)
                    r_, m = ex.model(p.pc, z3.And(user != SV(''), z3.Not(good)))
                    if r_ == 'unknown': chk.obligation('keymaster-cert-branch', str(shape), 'inconclusive', 'solver unknown'); return
                    if r_ == 'sat':
                        if chk.violation('keymaster-cert-branch', 'getUsernameIfKeymasterSigned', 'a certificate identity is accepted although its issuer key is not a keymaster key / its key is deny-listed', model_dict(m)) == 'new': verdict = 'violated'
                        continue
                    # an address-restricted leaf is a credential only through the netblock test (getUsernameIfIPRestricted), never as an unrestricted user certificate
                    rgood = z3.Or(ralts) if ralts else z3.BoolVal(False)
                    r_, m = ex.model(p.pc, z3.And(user != SV(''), z3.Not(rgood)))
                    if r_ == 'unknown': chk.obligation('keymaster-cert-branch', str(shape), 'inconclusive', 'solver unknown'); return
                    if r_ == 'sat':
                        confirmed = None; files = None
                        if 'addr' not in done:
                            done.add('addr')
                            from symx import replay
                            okr, txt = replay.go_test('cmd/keymasterd', 'zz_verif_c11_test.go', replay.GO_ROLE_CERT_AS_USER_CERT, 'TestVerifC11RoleCertOutsideNetblocks')
                            chk.replays += 1; confirmed = (okr is False) if okr is not None else None
                            files = {'zz_verif_c11_test.go': replay.GO_ROLE_CERT_AS_USER_CERT, 'native_output.txt': txt[-2500:]}
                        if chk.violation('keymaster-cert-branch', 'getUsernameIfKeymasterSigned/address-restricted-leaf', 'an IP-restricted (address-delegation) certificate is accepted as an unrestricted keymaster user certificate: it authenticates from outside its netblocks wherever keymaster certificates are accepted', model_dict(m), replay_files=files, confirmed=confirmed) == 'new': verdict = 'violated'
                chk.absorb(ex, paths)
    if nacc == 0: chk.obligation('keymaster-cert-branch', '-', 'inconclusive', 'vacuous'); return
    chk.witnesses += nacc
    chk.obligation('keymaster-cert-branch: identity only from a chain issued by a published keymaster key whose leaf key is not deny-listed and whose leaf carries no address restriction', 'chains 1..2 x 1..3, published keys 0..2, deny list 0..1', verdict, paths=total, t=time.time() - t)


_IR = None


def route_worker(rt):
    """one route, in a worker process: returns plain data (no solver objects)"""
    ir = _IR; h = rt['handler']
    gates = OWN_GATE.get(rt['path'], ()) + ('admitted',)
    out = {'path': rt['path'], 'ungated': [], 'cross': [], 'paths': 0, 'effects': 0, 'inconclusive': None, 'wall': 0, 'stats': {}}
    def extra(H):
        H.no_inline = re.compile('|'.join(re.escape(x) + '$' for x in SUMMARIES) + r'|/lib/authutil\.')
        H.stub(f'(*{M}.RuntimeState).writeFailureResponse', am.st_fail)
        H.stub(f'(*{M}.RuntimeState).writeHTMLLoginPage', lambda ex, st, a, ins: st.ev('page', kind='login') and None)
        H.stub(f'(*{M}.RuntimeState).writeHTML2FAAuthPage', lambda ex, st, a, ins: (st.ev('page', kind='2fa'), nilerr())[1])
        H.stub('regexp.MatchString', lambda ex, st, a, ins: (z3.Function('regexp.MatchString', z3.StringSort(), z3.StringSort(), z3.BoolSort())(a[0], a[1]), nilerr()))
        H.add_hints(lens(r'AllowedAuthBackendsFor(Certs|WebUI)\)$', [0]), lens(r'^len\(\*r\.Header\[', [1]), lens(r'^range\(', [0, 1]), lens(r'^len\(', [0, 1]))
        H.stub(f'{M}.checkUserPassword', am.st_checkpw)
        def ctcompare(ex, st, a, ins):
            st.counter += 1; r_ = z3.BitVec(f'ConstantTimeCompare!{st.counter}', 64); st.pc.append(z3.Or(r_ == 0, r_ == 1))
            st.ev('secret-compare', result=r_); return r_
        H.stub('crypto/subtle.ConstantTimeCompare', ctcompare)
        def exchange(ex, st, a, ins):
            def ok(s):
                s.ev('oauth2.exchange'); return (ex.fresh(s, ir.under(ins['type'])[1]['elems'][0], 'oauth2token'), nilerr())
            return fork_results(ex, st, ins, [(None, lambda s: (NIL, mk_error(s, SV('exchange'), 'oauth2'))), (None, ok)])
        H.stub_pat(r'oauth2\.Config\)\.Exchange$', exchange)
        def check_effect(ex, st, e):
            out['effects'] += 1
            got = [x for x in st.events if x['k'] in gates]
            if not got and 'none' not in gates: out['ungated'].append((e['k'], ex.where(st)))
            # cross-site requests ride on *ambient* credentials (cookie / client certificate): a path on which a secret carried by the request
            # itself was verified (password accepted by the backend, constant-time comparison with a stored one-time value succeeded) is not one
            secret = bool(st.evs('cred')) and any(c['kind'] == 'password' for c in st.evs('cred'))
            for sc in st.evs('secret-compare'):
                if not ex.feasible(st.pc, sc['result'] != 1): secret = True
            if e['k'] in STATE_CHANGING and not secret:
                method, host, eff = gate.request_terms(st)
                cross = z3.And(eff != SV(''), host != SV(''), gate.ParsedHost(eff) != host)
                r_, m = ex.model_fresh(st.pc, cross, 20000)
                if r_ == 'sat' and not any(k == e['k'] for k, _ in out['cross']): out['cross'].append((e['k'], model_dict(m)))
            raise PathCut('sink stop: protected effect examined')
        H.ex.on_effect = lambda ex, st, e: check_effect(ex, st, e)
        H.ex.on_sign = lambda ex, st, e: check_effect(ex, st, e)
        def on_mint(ex, st, e):
            try: check_effect(ex, st, e)
            except PathCut: pass          # keep going after a token is minted: later state changes on the same path are examined too
        H.ex.on_mint = on_mint
    try:
        H, paths, path = sweep.run_route(ir, rt, budget_s=600, extra=extra, max_paths=60000)
    except Unsupported as e:
        out['inconclusive'] = str(e); return out
    if paths is None: out['inconclusive'] = 'no handler body'; return out
    out['paths'] = len(paths); out['wall'] = round(H.wall, 1)
    out['transitions'] = sum(p.decisions for p in paths) + len(paths)
    out['queries'] = H.ex.nq; out['solver_s'] = H.ex.tsolve; out['functions'] = sorted(H.ex.encoded); out['stubs'] = dict(getattr(H.ex, 'stub_hits', {})); out['havocked'] = dict(H.ex.havocked)
    bad = [p for p in paths if p.status in ('unsupported', 'unwind')]
    if bad: out['inconclusive'] = bad[0].result
    return out


def ob_routes(chk, ir):
    global _IR
    _IR = ir
    t = time.time(); verdict = 'holds'; total = 0; nroutes = 0; neffects = 0; crosssite = {}; skipped = []
    todo = []
    for rt in routes(ir):
        if rt['mux'] != 'service': continue
        if not isinstance(rt['handler'], str) or rt['handler'] not in ir.funcs: skipped.append(rt['path']); continue
        todo.append(rt)
    results = sweep.parallel(route_worker, todo)
    for rt, out in zip(todo, results):
        if __import__('os').environ.get('DBG'): print('ROUTE', out['path'], out['paths'], out['wall'], 's', out['inconclusive'], flush=True)
        if out['inconclusive']:
            chk.obligation(f'route {rt["path"]}', '-', 'inconclusive', out['inconclusive']); continue
        nroutes += 1; total += out['paths']; neffects += out['effects']
        chk.states += out['paths']; chk.transitions += out['transitions']; chk.queries += out['queries']; chk.solver_s += out['solver_s']; chk.functions |= set(out['functions'])
        for k, v in out['stubs'].items(): chk.stubs[k] = chk.stubs.get(k, 0) + v
        for k, v in out['havocked'].items(): chk.havocked[k] = chk.havocked.get(k, 0) + v
        for kind, where in out['ungated']:
            if chk.violation('effects-behind-a-gate', rt['path'], f'protected effect "{kind}" is reachable without a successful credential check of this route ({where.split("/")[-1]})', None) == 'new': verdict = 'violated'
        for kind, md in out['cross']:
            r_ = chk.violation('cross-site-no-state-change', rt['path'], f'state-changing effect "{kind}" is reachable by a request whose Origin/Referer names another site (method {md.get("*r.Method", "GET")})', md)
            if r_ == 'new': verdict = 'violated'
            elif verdict == 'holds': verdict = 'known'
            crosssite[rt['path']] = kind
    if neffects == 0: chk.obligation('routes', '-', 'inconclusive', 'vacuous: no protected effect reached'); return
    chk.witnesses += neffects
    chk.obligation('routes: every protected effect is dominated by a successful gate; no state change with a cross-site Origin/Referer', f'{nroutes} service routes (route table from main), all inputs', verdict, paths=total,
                   witness=f'{neffects} protected-effect events examined; cross-site reachable state changes on: {sorted(crosssite) or "none"}', t=time.time() - t)
    chk.sample({'obligation': 'routes', 'routes': nroutes, 'effects': neffects, 'not_executed': skipped})


def main(chk):
    ir = chk.load_ir()
    quick = chk.tier == 'quick'
    chk.assumptions = ['Contract J for session cookies; certificate-chain cryptography is the TLS stack\'s (chains are "verified" as given)', 'getUsernameIfIPRestricted by its contract (C11 decides it)',
                       'password backend verdict symbolic (C07)', 'route-own gates: ' + ', '.join(f'{k}: {v}' for k, v in OWN_GATE.items())]
    chk.bounds = {'cookies': [0, 1] if quick else [0, 1, 2], 'tls': 'absent / 0..1 chains (lemma); chains 1..2 x 1..3 (certificate branch)', 'required': 'symbolic 64-bit mask'}
    ob_lemma(chk, ir, [0, 1] if quick else [0, 1, 2])
    ob_kmsigned(chk, ir)
    from checks.c11 import ob_daemon_asks_about_peer
    ob_daemon_asks_about_peer(chk, ir)      # the IP-restricted branch asks the verifier about (leaf, TCP peer address): shared with C11
    ob_routes(chk, ir)


if __name__ == '__main__':
    run_check('C06', main)
