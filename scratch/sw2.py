import sys, time; sys.path.insert(0, '/verif')
import z3
from symx import build, sweep, authmodel as am
from symx.harness import routes
from symx.lib import M
ir = build.load()
rs = [r for r in routes(ir) if r['path'] in sys.argv[1:]]
def extra(H):
    H.stub(f'(*{M}.RuntimeState).writeFailureResponse', am.st_fail)
    H.stub(f'(*{M}.RuntimeState).writeHTMLLoginPage', lambda ex, st, a, ins: st.ev('page', kind='login', dest=a[5]) and None)
    H.stub(f'(*{M}.RuntimeState).writeHTML2FAAuthPage', lambda ex, st, a, ins: (st.ev('page', kind='2fa', dest=a[3]), __import__('symx.lib').lib.nilerr())[1])
for r in rs:
    t=time.time()
    H, paths, path = sweep.run_route(ir, r, budget_s=120, extra=extra, max_paths=60000)
    stat={}
    for p in paths: stat[p.status]=stat.get(p.status,0)+1
    evk={}
    for p in paths:
        for e in p.events: evk[e['k']] = evk.get(e['k'],0)+1
    print(r['path'], len(paths), stat, round(time.time()-t,1), 's  q', H.ex.nq, 'solver', round(H.ex.tsolve,1), evk)
    bad={}
    for p in paths:
        if p.status in ('unsupported','unwind','panic'): bad[p.result[:150]] = bad.get(p.result[:150],0)+1
    print(bad)
