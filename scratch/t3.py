import sys, time; sys.path.insert(0, '/verif')
import z3
from symx import build, issue
from symx.engine import *
from symx.harness import *
from symx import lib
from symx.check import term
ir = build.load()
H = HandlerRun(ir, loop_bound=6)
issue.install(H)
path = z3.String('url.path'); method = z3.String('req.method')
H.add_hints(str_list(r'AllowedAuthBackendsForCerts$', 1, 'cfg'), pin(r'^\*\*r\.URL\.Path$', path), pin(r'^\*r\.Method$', method), lens(r'^len\(\*r\.Form\[', [1]),
   lens(r'SSHCertConfig\.Extensions\)$', [0,1]), nonnil_iface(r'^\*state\.Signer$'), nonnil_ptr(r'^\*state\.KerberosRealm$'), lens(r'^len\(\*state\.caCertDer\)$', [1]))
st, state, w, r = H.mkstate()
st.pc.append(z3.PrefixOf(z3.StringVal('/certgen/'), path))
t=time.time()
paths = H.run(f'(*{M}.RuntimeState).certGenHandler', st, [state, w, r])
stat={}
for p in paths: stat[p.status]=stat.get(p.status,0)+1
print(len(paths), stat, 'q', H.ex.nq, 'solver', round(H.ex.tsolve,2), 'wall', round(time.time()-t,2), H.ex.stats)
seen=set()
for p in paths:
    if p.status in ('unsupported','panic','unwind') and p.result not in seen: seen.add(p.result); print('   ', p.status, p.result)
print('havocked', H.ex.havocked)
for p in paths:
    for e in p.evs('sign'):
        if e['kind']=='ssh': print({k: term(v,120) for k,v in e['cert'].items() if k in ('ValidAfter','ValidBefore','ValidPrincipals','CertType','KeyId')}); break
    else: continue
    break
