#!/usr/bin/env python3
"""regenerate the seeded-change table of DESIGN.md section 9.5 from seeded/MATRIX.json and seeded/*/meta.json"""
import json, os, re
V = '/verif'; S = os.path.join(V, 'seeded')
mx = json.load(open(os.path.join(S, 'MATRIX.json')))
rows = ['| seed | property | what the change does (needs to manifest) | checks run → exit, VIOLATION lines | caught by |', '|---|---|---|---|---|']
for sid in sorted(mx):
    m = json.load(open(os.path.join(S, sid, 'meta.json')))
    what = (m.get('what_it_changes') or '').replace('|', '/').replace('\n', ' ')
    what = what[:210] + ('…' if len(what) > 210 else '')
    needs = (m.get('needs_to_manifest') or '').replace('|', '/').replace('\n', ' ')
    needs = needs[:150] + ('…' if len(needs) > 150 else '')
    res = m['checked_against'].get('results') or {}
    runs = '; '.join(f"{p}: exit {c['exit']}, {c['violation_lines']}" for p, c in res.items()) or '–'
    caught = ', '.join(m['checked_against']['caught_by']) or ('**none** – ' + (m.get('note') or '')[:160])
    rows.append(f"| {sid} | {m['breaks_property']} | {what} *(needs: {needs})* | {runs} | {caught} |")
tbl = '\n'.join(rows)
n = len(mx); c = sum(1 for sid in mx if json.load(open(os.path.join(S, sid, 'meta.json')))['checked_against']['caught_by'])
tbl = f'{c} of {n} kept changes are reported (exit 1 + VIOLATION) by the check of the property they break; the others are explained in the last column.\n\n' + tbl
p = os.path.join(V, 'DESIGN.md'); s = open(p).read()
if 'SEED_TABLE_PLACEHOLDER' in s: s = s.replace('SEED_TABLE_PLACEHOLDER', '<!-- SEED_TABLE_BEGIN -->\n' + tbl + '\n<!-- SEED_TABLE_END -->')
else: s = re.sub(r'<!-- SEED_TABLE_BEGIN -->.*?<!-- SEED_TABLE_END -->', lambda _: '<!-- SEED_TABLE_BEGIN -->\n' + tbl + '\n<!-- SEED_TABLE_END -->', s, flags=re.S)
open(p, 'w').write(s)
print(f'{c}/{n} caught')
