"""C01 — certificates are issued only after the operator-required authentication.

Two composed obligations, both on the real SSA:
 A. gate lemma on checkAuth for the mask the certificate handler passes (symx/gate.py): an admitted (user, bits) is justified by
    credentials that verified on that path (unexpired session cookie of this deployment, keymaster / IP-restricted client
    certificate, password accepted by the backend) - every factor bit the operator can list is backed by one of them.
 B. the handler bound to /certgen/ with checkAuth replaced by "refuses, or admits an arbitrary (user, bits) for that mask":
    a signing sink is reached only with signer unsealed, OK(list, bits), URL user = admitted user, POST; and a user with
    OK(list, bits) is never refused for insufficient level.
A and B compose: sign => exists verified credential for that user carrying an acceptable factor.
"""
import sys, time, z3
from symx.check import run_check, term, model_dict
from symx.engine import *
from symx.harness import *
from symx import lib, authmodel as am, gate
from symx.lib import M

PREFIX = '/certgen/'
LISTABLE = am.U2F | am.VIP | am.IPCERT | am.TOTP | am.OKTA | am.WEBAUTHCLI


def ok_bits(cfg, bits):
    alts = [bits & am.U2F == am.U2F]
    for c in cfg:
        alts.append(c == z3.StringVal('password'))
        for name, m in am.NAMES.items():
            if name in ('password', 'federated', 'BootstrapOTP'): continue
            alts.append(z3.And(c == z3.StringVal(name), bits & m == m))
    return z3.Or(alts)


def handler_for(ir, path):
    for r in routes(ir):
        if r['path'] == path and r['mux'] == 'service': return r['handler']
    return None


def stage_b(chk, ir, handler, ncfg):
    t = time.time()
    H = HandlerRun(ir, loop_bound=ncfg + 4, budget_s=300)
    am.install(H)
    H.stub(gate.CHECKAUTH, gate.st_checkauth_any(ir))
    cfg = [z3.String(f'cfg{i}') for i in range(ncfg)]
    path = z3.String('url.path'); method = z3.String('req.method')
    def sink(kind):
        def f(ex, st, a, ins):
            sg = st.memo.get('*state.Signer')
            st.ev('sign', kind=kind, user=a[3], signer_nil=(sg.tid is None) if sg is not None else None)
        return f
    H.stub(f'(*{M}.RuntimeState).postAuthSSHCertHandler', sink('ssh'))
    H.stub(f'(*{M}.RuntimeState).postAuthX509CertHandler', sink('x509'))
    H.stub('time.ParseDuration', lambda ex, st, a, ins: lib.fork_results(ex, st, ins, [
        (None, lambda s: (z3.BitVecVal(0, 64), lib.mk_error(s, z3.StringVal('bad duration'), 'ParseDuration'))), (None, (z3.BitVec('dur', 64), lib.nilerr()))]))
    H.add_hints(
        pin(r'AllowedAuthBackendsForCerts$', lambda ex, st, tid, name: ex.mkslice(st, cfg)),
        pin(r'^\*\*r\.URL\.Path$', path), pin(r'^\*r\.Method$', method),
        lens(r'^len\(\*r\.Form\[', [1]),
    )
    st, state, w, r = H.mkstate()
    st.pc.append(z3.PrefixOf(z3.StringVal(PREFIX), path))     # route-derived precondition
    paths = H.run(handler, st, [state, w, r])
    ex = H.ex; label = f'list={ncfg}'; nsign = 0; verdict = 'holds'; stat = {}; required = None
    for p in paths:
        stat[p.status] = stat.get(p.status, 0) + 1
        if p.status in ('unsupported', 'unwind'):
            chk.absorb(ex, paths); chk.obligation(f'handler {label}', label, 'inconclusive', p.result); return None
        if p.status == 'panic':
            if chk.violation('no-panic', 'certGenHandler', f'handler panics: {p.result}', model_dict(ex.model(p.pc)[1])) == 'new': verdict = 'violated'
        for e in p.evs('checkAuth'): required = e['required']
    target = z3.SubString(path, len(PREFIX), z3.Length(path) - len(PREFIX))
    for p in paths:
        adm = p.evs('admitted')
        for e in p.evs('sign'):
            nsign += 1
            if e['signer_nil'] is not False:
                if chk.violation('sign-only-after-required-auth', 'certGenHandler/sealed', 'signing sink reached while the signer is sealed', None) == 'new': verdict = 'violated'
                continue
            if len(adm) != 1:
                if chk.violation('sign-only-after-required-auth', 'certGenHandler/ungated', f'signing sink reached after {len(adm)} successful checkAuth calls', None) == 'new': verdict = 'violated'
                continue
            a = adm[0]
            good = z3.And(ok_bits(cfg, a['bits']), e['user'] == a['user'], a['user'] == target, method == z3.StringVal('POST'))
            r, m = ex.model(p.pc, z3.Not(good))
            if r == 'unknown': chk.absorb(ex, paths); chk.obligation(f'handler {label}', label, 'inconclusive', 'solver unknown'); return None
            if r == 'sat':
                if chk.violation('sign-only-after-required-auth', 'certGenHandler', 'certificate signed for a session whose factors are not acceptable / for another user / on a non-POST', model_dict(m)) == 'new': verdict = 'violated'
        for e in p.evs('fail'):
            msg = z3.simplify(e['msg'])
            if adm and z3.is_string_value(msg) and 'auth level' in msg.as_string():
                r, m = ex.model(p.pc, ok_bits(cfg, adm[0]['bits']))
                if r == 'sat':
                    if chk.violation('acceptable-factor-is-served', 'certGenHandler', 'a session with an acceptable factor is refused for insufficient level', model_dict(m)) == 'new': verdict = 'violated'
    # completeness (2): admitted + OK + own user + POST + form parses + type known  => reaches a signing sink: every path that was admitted and did
    # not sign must have a 'fail' event (no silent drop)
    for p in paths:
        if p.status == 'returned' and p.evs('admitted') and not p.evs('sign') and not p.evs('fail'):
            if chk.violation('acceptable-factor-is-served', 'certGenHandler/silent', 'admitted request ends without certificate and without an error response', None) == 'new': verdict = 'violated'
    chk.absorb(ex, paths)
    if nsign == 0:
        chk.obligation(f'handler {label}', label, 'inconclusive', 'no signing path reached (vacuous harness)'); return None
    chk.witnesses += nsign
    chk.obligation(f'handler: sign only with acceptable factor, own user, POST, unsealed ({label})', label, verdict, paths=len(paths), witness=f'{nsign} signing paths; {stat}', t=time.time() - t)
    chk.sample({'obligation': 'handler', 'config': label, 'paths': len(paths), 'signing_paths': nsign, 'statuses': stat, 'required_mask': term(required)})
    return required


def main(chk):
    ir = chk.load_ir()
    handler = handler_for(ir, PREFIX)
    if handler is None:
        chk.obligation('anchor', '-', 'inconclusive', 'ANCHOR-LOST: no service route ' + PREFIX); return
    quick = chk.tier == 'quick'
    cfgs = [0, 1, 2] if quick else [0, 1, 2, 3, 4]
    cookies = [0, 1] if quick else [0, 1, 2]
    chk.bounds = {'acceptable_methods_list_len': cfgs, 'cookies': cookies, 'tls': 'absent / present with 0..1 verified chains', 'factor_bits': '16 (symbolic)',
                  'strings': 'unbounded (sequence theory)', 'loop_unwinding': 'list length + 4, unwinding assertion checked'}
    chk.assumptions = ['Contract J: getAuthInfoFromAuthJWT succeeds only for a token signed by a keymaster key; claims arbitrary (C04 checks the claim tests)',
                       'getUsernameIfKeymasterSigned / getUsernameIfIPRestricted replaced by their contracts in the lemma; both contracts are discharged from SSA in this run (obligations shared with C06 / C11); checkUserPassword by its contract (C07)',
                       'route precondition: URL path starts with ' + PREFIX, 'A-clock: one clock reading per request',
                       'postAuthSSHCertHandler / postAuthX509CertHandler are the signing sinks (their bodies: C02, C03, C10)',
                       'interpretation: "password" listed => any verified credential qualifies (the stricter reading is not enforced)']
    required = None
    for n in cfgs:
        r = stage_b(chk, ir, handler, n)
        if r is not None: required = r
    if required is None: return
    gate.gate_lemma(chk, ir, required, f'required={term(required)} cookies={cookies}', cookies=cookies, interest=LISTABLE | am.PASSWORD)
    # the two certificate contracts the lemma relies on are discharged in the same run (shared with C06 / C11): an IP-restricted identity
    # comes only from asking the verifier about (leaf, TCP peer address); a keymaster identity only from a chain of a published key
    from checks.c11 import ob_daemon_asks_about_peer
    from checks.c06 import ob_kmsigned
    ob_daemon_asks_about_peer(chk, ir)
    ob_kmsigned(chk, ir)


if __name__ == '__main__':
    run_check('C01', main)
