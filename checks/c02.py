"""C02 — issued certificates bind the authenticated user to the submitted key only.

The /certgen/ handler is executed end-to-end from SSA (certGenHandler -> postAuth{SSH,X509}CertHandler -> lib/certgen) down to the
library signing calls, which capture the certificate structure/template as terms.  Oracle on every captured certificate:
 SSH : ValidPrincipals = [admitted user]; CertType = user; Key = Parse(submitted bytes), the same term that passed the strength
       predicate; extensions = the 5 standard ones + configured (Expand(key,user) -> Expand(value,user); empty key skipped; configured
       overrides standard); signer = Ed25519 CA iff the key type is ssh-ed25519 else the main CA.
 X509: Subject.CN = admitted user; IsCA = false; BasicConstraintsValid; ExtKeyUsage = [ClientAuth]; public key = Parse(pem(submitted));
       parent = the last published CA certificate; private key = the main signer.
 both: URL user = admitted user (else no signing).
A second request on the post-state of the first (different user) must satisfy the same oracle: nothing of request 1 leaks.
"""
import time, z3
from symx.check import run_check, term, model_dict
from symx.engine import *
from symx.harness import *
from symx import lib, authmodel as am, gate, issue
from symx.lib import M, KM
from checks.c01 import handler_for, PREFIX

STD = ['permit-X11-forwarding', 'permit-agent-forwarding', 'permit-port-forwarding', 'permit-pty', 'permit-user-rc']
SV = z3.StringVal


def setup(ir, next_, budget=300):
    H = HandlerRun(ir, loop_bound=next_ + 5, budget_s=budget)
    issue.install(H)
    path = z3.String('url.path')
    # the key-line pattern is C10/C19's subject: here its verdict is an uninterpreted predicate of (pattern, subject)
    H.stub('regexp.MatchString', lambda ex, st, a, ins: (z3.Function('regexp.MatchString', z3.StringSort(), z3.StringSort(), z3.BoolSort())(a[0], a[1]), lib.nilerr()))
    H.add_hints(str_list(r'AllowedAuthBackendsForCerts$', 1, 'cfg'), pin(r'^\*\*r\.URL\.Path$', path), lens(r'^len\(\*r\.Form\[', [1]),
                lens(r'SSHCertConfig\.Extensions\)$', [next_]), nonnil_iface(r'^\*state\.Signer$', 'mainSigner'),
                lens(r'^len\(\*state\.caCertDer\)$', [1, 2]))
    return H, path


def ext_oracle(ex, p, extmap, user, next_):
    """the certificate's extension map equals standard + configured(expanded)"""
    if not isinstance(extmap, MapV): return None, 'extensions is not a map'
    m = p.heap[extmap.obj]
    if m['base'] is not None: return None, 'extension map is not built fresh for this certificate (shared / unknown base map)'
    cfg = []
    for i in range(next_):
        k = z3.String(f'*state.Config.Base.SSHCertConfig.Extensions[{i}].Key'); v = z3.String(f'*state.Config.Base.SSHCertConfig.Extensions[{i}].Value')
        cfg.append((issue.ShellExpand(k, user), issue.ShellExpand(v, user)))
    ents = ex.map_entries(p, extmap.obj)
    probe = z3.String('probe.key')
    # expected lookup(probe): last configured entry with that key (non-empty), else "" for standard keys, else absent
    exp_present = z3.Or([probe == SV(s) for s in STD] + [z3.And(probe == k, k != SV('')) for k, v in cfg])
    exp_val = SV('')
    for k, v in cfg: exp_val = z3.If(z3.And(probe == k, k != SV('')), v, exp_val)
    got_present = z3.Or([z3.And(e[2], e[0] == probe) for e in ents]) if ents else z3.BoolVal(False)
    got_val = SV('')
    for e in ents: got_val = z3.If(z3.And(e[2], e[0] == probe), e[1], got_val)
    return z3.And(got_present == exp_present, z3.Implies(exp_present, got_val == exp_val)), None


def make_oracle(chk, path, next_, label, out):
    """returns the callback evaluated at every signing sink (once per sign event, on the path condition at that point)"""
    n = out['n']
    target = z3.SubString(path, len(PREFIX), z3.Length(path) - len(PREFIX))
    CT = None
    def viol(site, what, m=None):
        if chk.violation('certificate-binding', site, what, model_dict(m) if m is not None else None) == 'new': out['verdict'] = 'violated'
    def cb(ex, p, e):
        adm = [a for a in p.evs('admitted')]
        for _ in (1,):
            if not adm: viol(f'{e["kind"]}/ungated', 'signing without admission'); continue
            user = adm[-1]['user']
            n[e['kind']] += 1
            conj = []
            if e['kind'] == 'ssh':
                c = e['cert']
                pr = c['ValidPrincipals']
                if not isinstance(pr, SliceV): viol('ssh/principals', 'principals not a list'); continue
                vals = ex.slice_values(p, pr)
                if len(vals) != 1: viol('ssh/principals', f'{len(vals)} principals'); continue
                conj.append(('principal = authenticated user', vals[0] == user))
                conj.append(('user certificate type', c['CertType'] == 1))
                key = c['Key']
                kt = getattr(key.val, 'term', None) if isinstance(key, IfaceV) else None
                if kt is None: viol('ssh/key', 'certified key is not the parsed submitted key'); continue
                filekey = z3.String(lib.rk(p, 'req.file[pubkeyfile]'))
                conj.append(('certified key = parsed submitted key', kt == issue.ParsedSSHKey(filekey)))
                strong = [s for s in p.evs('strength')]
                conj.append(('certified key passed the strength predicate', z3.Or([z3.And(s['key'] == kt, s['result']) for s in strong]) if strong else z3.BoolVal(False)))
                eo, err = ext_oracle(ex, p, ex.getfield(p, c['Permissions'], ex.ir.typeid('golang.org/x/crypto/ssh.Permissions'), 'Extensions'), user, next_)
                if eo is None: viol('ssh/extensions', err); continue
                conj.append(('extensions = 5 standard + configured with the user substituted', eo))
                sg = e['signer']; of = getattr(sg.val, 'of', None) if isinstance(sg, IfaceV) else None
                ktype = z3.Function('ssh.PublicKey.Type', z3.StringSort(), z3.StringSort())(kt)
                if isinstance(of, IfaceV) and isinstance(of.val, Opaque):
                    is_main = of.val.what == 'mainSigner'
                    conj.append(('signed by the Ed25519 CA iff ed25519 key, else by the main CA', (ktype != SV('ssh-ed25519')) if is_main else (ktype == SV('ssh-ed25519'))))
                else: viol('ssh/signer', 'unknown signer'); continue
            else:
                t = e['template']
                subj = t['Subject']
                PN = ex.ir.typeid('crypto/x509/pkix.Name')
                cn = ex.getfield(p, subj, PN, 'CommonName')
                conj.append(('common name = authenticated user', cn == user))
                conj.append(('not a CA', z3.Not(t['IsCA']))); conj.append(('basic constraints valid', t['BasicConstraintsValid']))
                eku = t['ExtKeyUsage']
                ev = ex.slice_values(p, eku) if isinstance(eku, SliceV) else None
                if ev is None or len(ev) != 1: viol('x509/eku', 'ExtKeyUsage is not exactly [ClientAuth]'); continue
                conj.append(('ExtKeyUsage = ClientAuth', ev[0] == 2))
                pub = e['pub']; kt = getattr(pub.val, 'term', None) if isinstance(pub, IfaceV) else None
                if kt is None: viol('x509/key', 'certified key is not the parsed submitted key'); continue
                filekey = z3.String(lib.rk(p, 'req.file[pubkeyfile]'))
                conj.append(('certified key = parsed submitted PEM', kt == issue.ParsedPKIXKey(issue.PemBlockBytes(filekey))))
                strong = p.evs('strength')
                conj.append(('certified key passed the strength predicate', z3.Or([z3.And(s['key'] == kt, s['result']) for s in strong]) if strong else z3.BoolVal(False)))
                priv = e['priv']
                if not (isinstance(priv, IfaceV) and isinstance(priv.val, Opaque) and priv.val.what == 'mainSigner'): viol('x509/signer', 'not signed by the main CA key'); continue
                parsed = p.aux.get('parsed', [])
                par = [d for d, c in parsed if isinstance(e['parent'], Ptr) and c == e['parent']]
                if not par: viol('x509/parent', 'issuer certificate is not a parsed published CA certificate'); continue
                # der argument must be the last element of state.caCertDer
                der = par[0]; ca = p.memo.get('*state.caCertDer'); ok_parent = False
                if isinstance(ca, SliceV) and isinstance(der, SliceV):
                    cas = ex.resolve_slice(p, ca)
                    lastv = ex.cellval(p, cas.obj, cas.off + cas.len - 1) if cas.len else None
                    ok_parent = isinstance(lastv, SliceV) and lastv.obj == der.obj
                if not ok_parent: viol('x509/parent', 'issuer is not the last published CA certificate'); continue
            conj.append(('URL user = authenticated user', target == user))
            for cname, c in conj:
                r, m = ex.model(p.pc, z3.Not(c))
                if r == 'unknown': out['unknown'] = cname
                if r == 'sat': viol(f"{e['kind']}/{cname}", f'certificate violates: {cname}', m)
        if out.get('cut'): raise PathCut('sink stop: certificate captured')
    return cb


def main(chk):
    ir = chk.load_ir()
    handler = handler_for(ir, PREFIX)
    if handler is None: chk.obligation('anchor', '-', 'inconclusive', 'ANCHOR-LOST route ' + PREFIX); return
    exts = [0, 1] if chk.tier == 'quick' else [0, 1, 2, 3]
    chk.bounds = {'configured_extensions': exts, 'ca_certificates': [1, 2], 'strings': 'unbounded', 'requests': '1, plus a second request on the post-state (extensions=1)'}
    chk.assumptions = ['library parsers / shell.Expand / signing calls are uninterpreted functions of their actual arguments (Contract: deterministic)',
                       'checkAuth admits an arbitrary user (C01/C06 decide admission)', 'route precondition: path starts with ' + PREFIX,
                       'not decided here: that the signature verifies under the published CA keys (x/crypto, crypto/x509 arithmetic)']
    for ne in exts:
        t = time.time()
        H, path = setup(ir, ne)
        st, state, w, r = H.mkstate()
        st.pc.append(z3.PrefixOf(SV(PREFIX), path))
        out = {'n': {'ssh': 0, 'x509': 0}, 'verdict': 'holds', 'cut': ne != 1}
        H.ex.on_sign = make_oracle(chk, path, ne, f'extensions={ne}', out)
        paths = H.run(handler, st, [state, w, r])
        bad = [p for p in paths if p.status in ('unsupported', 'unwind')]
        if bad: chk.absorb(H.ex, paths); chk.obligation(f'binding extensions={ne}', '-', 'inconclusive', bad[0].result); return
        for p in paths:
            if p.status == 'panic':
                chk.violation('no-panic', 'certgen', 'handler panics: ' + p.result, model_dict(H.ex.model(p.pc)[1]))
        chk.absorb(H.ex, paths)
        if out.get('unknown'): chk.obligation(f'binding extensions={ne}', '-', 'inconclusive', 'solver unknown on ' + out['unknown']); return
        verdict, n = out['verdict'], out['n']
        if n['ssh'] == 0 or n['x509'] == 0:
            chk.obligation(f'binding extensions={ne}', '-', 'inconclusive', f'vacuous: signing paths {n}'); return
        chk.witnesses += n['ssh'] + n['x509']
        chk.obligation(f'binding: principal/CN, key, type, usage, extensions, signer, issuer (extensions={ne})', f'configured extensions={ne}', verdict, paths=len(paths), witness=str(n), t=time.time() - t)
        chk.sample({'obligation': 'binding', 'extensions': ne, 'paths': len(paths), 'signing_paths': n})
        # second request on the post-state of a completed SSH issuance (state shared, request fresh)
        if ne == 1:
            t = time.time()
            def nwrites(p):
                e = [e for e in p.evs('sign') if e['kind'] == 'ssh'][0]
                try:
                    m = H.ex.getfield(p, e['cert']['Permissions'], ir.typeid('golang.org/x/crypto/ssh.Permissions'), 'Extensions')
                    return len(p.heap[m.obj]['writes'])
                except Exception: return 0
            firsts = sorted([p for p in paths if p.status == 'returned' and any(e['kind'] == 'ssh' for e in p.evs('sign')) and p.evs('publish')], key=nwrites, reverse=True)[:1]
            firsts += [p for p in paths if p.status == 'returned' and any(e['kind'] == 'x509' for e in p.evs('sign')) and p.evs('publish')][:1]
            tot = 0; v2 = 'holds'; n2 = {'ssh': 0, 'x509': 0}
            for p0 in firsts:
                s2 = p0.fork(); s2.status = 'run'; s2.result = None
                s2.aux['reqid'] = 2
                path2 = z3.String('url.path#2')
                s2.pc.append(z3.PrefixOf(SV(PREFIX), path2))
                r2 = Ptr(s2.alloc(Lazy(H.REQ, '*r#2')))
                w2 = IfaceV(H.LW, Ptr(s2.alloc(Opaque('w2'))))
                H.add_hints(pin(r'^\*\*r#2\.URL\.Path$', path2), nonnil_ptr(r'^\*r#2\.URL$'), lens(r'^len\(\*r#2\.Form\[', [1]))
                H.ex.deadline = time.process_time() + 300
                out2 = {'n': {'ssh': 0, 'x509': 0}, 'verdict': 'holds', 'cut': True}
                H.ex.on_sign = make_oracle(chk, path2, ne, 'second request', out2)
                paths2 = H.ex.run(handler, [state, w2, r2], s2)
                bad = [p for p in paths2 if p.status in ('unsupported', 'unwind')]
                if bad: chk.absorb(H.ex, paths2); chk.obligation('binding second request', '-', 'inconclusive', bad[0].result); return
                chk.absorb(H.ex, paths2); tot += len(paths2)
                if out2.get('unknown'): chk.obligation('binding second request', '-', 'inconclusive', 'solver unknown'); return
                if out2['verdict'] == 'violated': v2 = 'violated'
                for k in n2: n2[k] += out2['n'][k]
            if n2['ssh'] == 0: chk.obligation('binding second request', '-', 'inconclusive', f'vacuous {n2}'); return
            chk.obligation('binding holds for a second request on the post-state of the first (nothing leaks between requests)', 'two sequential requests, extensions=1', v2, paths=tot, witness=str(n2), t=time.time() - t)


if __name__ == '__main__':
    run_check('C02', main)
