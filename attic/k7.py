"""C05 spike: VIPPollCheckHandler with checkAuth and the cookie upgrade inlined down to the jose boundary"""
import time, z3, re, signal, faulthandler
faulthandler.register(signal.SIGALRM); signal.alarm(550)
from ir import IR
from symx import *
ir = IR('/tmp/spike/ir')
M = 'github.com/Cloud-Foundations/keymaster/cmd/keymasterd'
RS = ir.typeid(M + '.RuntimeState'); REQ = ir.typeid('net/http.Request'); STR = ir.typeid('string')
COOKIE = ir.typeid('net/http.Cookie'); TLSCS = ir.typeid('crypto/tls.ConnectionState'); AIJ = ir.typeid(M + '.authInfoJWT')
IGN = re.compile(r'log\.DebugLogger\.|SetUsername|\(\*sync\.Mutex\)|metricLog|prometheus|PublishVIPAuthEvent|setSecurityHeaders|WriteHeader')
def nilerr(): return IfaceV(None, None)
def someerr(tag='err'): return IfaceV(STR, Opaque(tag))
def two_way(ex, st, ins, cond, vt, vf):
    out = []
    for c, v in ((cond, vt), (z3.Not(cond), vf)):
        if ex.feasible(st.pc, c):
            s2 = st.fork(); s2.pc.append(c); s2.frames[-1].regs[ins['reg']] = v(s2) if callable(v) else v; out.append(s2)
    return out
def run(with_tls):
    ex = Exec(ir, {}, max_paths=50000); ex.ignore = IGN
    st = State()
    state = Ptr(st.alloc(Lazy(RS, 'state'))); r = Ptr(st.alloc(Lazy(REQ, 'r')))
    w = IfaceV(ir.typeid('*github.com/Cloud-Foundations/keymaster/lib/instrumentedwriter.LoggingWriter'), Ptr(st.alloc(Opaque('w'))))
    issuer = z3.String('issuer'); now = z3.BitVec('now', 64)
    authcookie = z3.String('authCookieValue'); vipcookie = z3.String('vipCookieValue')
    km_user = z3.String('kmCertUser')
    claims = {}   # token term -> dict of symbolic claims
    def claims_of(tok):
        k = str(tok)
        if k not in claims:
            claims[k] = dict(sig_ok=z3.Bool('sigok_' + k), iss=z3.String('iss_' + k), sub=z3.String('sub_' + k), aud=z3.String('aud0_' + k), naud=z3.Bool('hasaud_' + k),
                             exp=z3.BitVec('exp_' + k, 64), nbf=z3.BitVec('nbf_' + k, 64), iat=z3.BitVec('iat_' + k, 64), tt=z3.String('tt_' + k), at=z3.BitVec('at_' + k, 64))
        return claims[k]
    def h_tls(ex, st, tid, name):
        if not with_tls: return NIL
        cs = StructV(Lazy(f['type'], 'tls.' + f['name']) for f in ir.under(TLSCS)[1]['fields'])
        idx = [i for i, f in enumerate(ir.under(TLSCS)[1]['fields']) if f['name'] == 'VerifiedChains'][0]
        cs[idx] = SliceV(st.alloc(ArrayV([Opaque('chain')])), 0, 1, 1)
        return Ptr(st.alloc(cs))
    ex.hints = [(r'^r\.Method$', lambda *a: z3.StringVal('POST')), (r'^r\.Host$', lambda *a: z3.String('host')), (r'^r\.TLS$', h_tls),
                (r'^state\.Signer$', lambda *a: IfaceV(STR, Opaque('signer'))), (r'SymantecVIP\.Enabled$', lambda *a: z3.BoolVal(True)),
                (r'^state\.KeymasterPublicKeys$', lambda ex, st, tid, name: SliceV(st.alloc(ArrayV([IfaceV(STR, Opaque('pubkey'))])), 0, 1, 1))]
    def st_cookies(ex, st, args, ins):
        cf = ir.under(COOKIE)[1]['fields']
        c = StructV(Lazy(f['type'], 'ck.' + f['name']) for f in cf)
        for i, f in enumerate(cf):
            if f['name'] == 'Name': c[i] = z3.StringVal('auth_cookie')
            if f['name'] == 'Value': c[i] = authcookie
        return SliceV(st.alloc(ArrayV([Ptr(st.alloc(c))])), 0, 1, 1)
    def st_cookie(ex, st, args, ins):   # r.Cookie(name) -> vip cookie
        cf = ir.under(COOKIE)[1]['fields']
        c = StructV(Lazy(f['type'], 'vck.' + f['name']) for f in cf)
        for i, f in enumerate(cf):
            if f['name'] == 'Value': c[i] = vipcookie
        return two_way(ex, st, ins, z3.Bool('hasVipCookie'), lambda s2: (Ptr(s2.alloc(clone(c))), nilerr()), (NIL, someerr()))
    def st_parse(ex, st, args, ins):
        tok = Ptr(st.alloc({'token': args[0]}))
        return two_way(ex, st, ins, z3.Bool('parseok_' + str(args[0])), (tok, nilerr()), (NIL, someerr()))
    def st_claims(ex, st, args, ins):   # (*JSONWebToken).Claims(key, dest...)
        tokv = st.heap[args[0].obj]['token']; c = claims_of(tokv); dests = args[2]
        dptr = ex.load(st, Ptr(dests.obj, (dests.off,))).val
        def fill(s2):
            f = ir.under(AIJ)[1]['fields']; v = StructV(ex.zero(x['type']) for x in f)
            for i, x in enumerate(f):
                n = x['name']
                if n == 'Issuer': v[i] = c['iss']
                if n == 'Subject': v[i] = c['sub']
                if n == 'Audience': v[i] = SliceV(s2.alloc(ArrayV([c['aud']])), 0, 1, 1)
                if n == 'Expiration': v[i] = c['exp']
                if n == 'NotBefore': v[i] = c['nbf']
                if n == 'IssuedAt': v[i] = c['iat']
                if n == 'TokenType': v[i] = c['tt']
                if n == 'AuthType': v[i] = c['at']
            ex.store(s2, dptr, v); return nilerr()
        return two_way(ex, st, ins, c['sig_ok'], fill, someerr())
    def st_builder_claims(ex, st, args, ins):
        b = Opaque('builder'); b.claims = args[1].val if isinstance(args[1], IfaceV) else args[1]; return IfaceV(STR, b)
    def st_serialize(ex, st, args, ins):
        st.events.append(('mint', args[0].val.claims)); return (z3.String('newcookie'), nilerr())
    def st_km(ex, st, args, ins):
        return two_way(ex, st, ins, z3.Bool('kmSigned'), (km_user, ('T', 'nb'), nilerr()), (z3.StringVal(''), ('T', '0'), nilerr()))
    def st_approved(ex, st, args, ins):
        st.events.append(('verify-vip', args[1])); return two_way(ex, st, ins, z3.Bool('approved'), (z3.BoolVal(True), nilerr()), (z3.BoolVal(False), nilerr()))
    def T(sec): return ('T', sec)
    ex.stubs = {
        f'(*{M}.RuntimeState).sendFailureToClientIfLocked': lambda *a: z3.BoolVal(False),
        f'(*{M}.RuntimeState).writeFailureResponse': lambda ex, st, a, ins: st.events.append(('fail', a[3])),
        '(*net/http.Request).ParseForm': lambda *a: nilerr(),
        f'{M}.getOriginOrReferrer': lambda *a: z3.StringVal(''),
        '(*net/http.Request).Cookies': st_cookies, '(*net/http.Request).Cookie': st_cookie,
        f'(*{M}.RuntimeState).getJoseKeymastedVerifierList': lambda *a: (SliceV(None, 0, 0, 0), nilerr()),
        'github.com/go-jose/go-jose/v4/jwt.ParseSigned': st_parse,
        '(*github.com/go-jose/go-jose/v4/jwt.JSONWebToken).Claims': st_claims,
        f'(*{M}.RuntimeState).idpGetIssuer': lambda *a: issuer,
        'time.Now': lambda *a: T(now), '(time.Time).Unix': lambda ex, st, a, ins: a[0][1], 'time.Unix': lambda ex, st, a, ins: T(a[0]),
        '(time.Time).Before': lambda ex, st, a, ins: a[0][1] < a[1][1],
        f'(*{M}.RuntimeState).getUsernameIfKeymasterSigned': st_km,
        f'(*{M}.RuntimeState).getUsernameIfIPRestricted': lambda *a: (z3.StringVal(''), T(now), someerr('usererr'), nilerr()),
        '(*net/http.Request).BasicAuth': lambda *a: (z3.StringVal(''), z3.StringVal(''), z3.BoolVal(False)),
        'errors.New': lambda *a: someerr(), 'fmt.Errorf': lambda *a: someerr(), 'fmt.Sprintf': lambda *a: z3.String('sprintf'),
        '(*github.com/Cloud-Foundations/keymaster/lib/vip.Client).VipPushHasBeenApproved': st_approved,
        '(*github.com/go-jose/go-jose/v4.SignerOptions).WithType': lambda *a: Ptr(st.alloc(Opaque('opts'))),
        'crypto.Signer.Public': lambda *a: IfaceV(STR, Opaque('pub')),
        f'{M}.publicToPreferedJoseSigAlgo': lambda *a: (z3.StringVal('RS256'), nilerr()),
        'github.com/go-jose/go-jose/v4.NewSigner': lambda *a: (IfaceV(STR, Opaque('josesigner')), nilerr()),
        'github.com/go-jose/go-jose/v4/jwt.Signed': lambda *a: IfaceV(STR, Opaque('builder0')),
        'github.com/go-jose/go-jose/v4/jwt.Builder.Claims': st_builder_claims,
        'github.com/go-jose/go-jose/v4/jwt.Builder.Serialize': st_serialize,
        'net/http.SetCookie': lambda ex, st, a, ins: st.events.append(('set-cookie', a[1])),
    }
    out = ex.run(f'(*{M}.RuntimeState).VIPPollCheckHandler', [state, w, r], st)
    return ex, out
AIJf = [x['name'] for x in ir.under(AIJ)[1]['fields']]
for tls in (False, True):
    t = time.time()
    try: ex, out = run(tls)
    except Unsupported as e: print('UNSUPPORTED', e); continue
    for s in out[:0]: print('   path events', [(e[0], str(e[1])[:40]) for e in s.events], s.status, s.result)
    stat = {}; mint = 0; v_user = 0; v_ident = 0; cex = None
    for s in out:
        stat[s.status] = stat.get(s.status, 0) + 1
        ms = [e for e in s.events if e[0] == 'mint']
        if not ms: continue
        mint += 1
        cl = dict(zip(AIJf, ms[0][1])); subj = cl['Subject']
        # (a) owner of the verified transaction must be the upgraded session's user
        tx_user = None
        for key, cell in s.heap.items():
            if isinstance(cell, dict) and cell.get('sym', '') and 'vipPushCookie' in str(cell.get('sym')):
                for (k2, val, ok) in cell['entries']: tx_user = val[1] if isinstance(val, StructV) else None   # pushPollTransaction{ExpiresAt, Username, TransactionID}
        if tx_user is not None:
            if isinstance(tx_user, Lazy): tx_user = z3.String('txUserUnconstrained')
            r_, m = ex.model(s.pc, tx_user != subj)
            if r_ == z3.sat: v_user += 1; cex = cex or {str(d): m[d] for d in m.decls() if re.match(r'(sub_|txUser|state\.vipPushCookie)', str(d))}
        # (b) identity used for admission vs upgraded subject
        r_, m = ex.model(s.pc, z3.And(z3.Bool('kmSigned'), z3.String('kmCertUser') != subj, z3.String('kmCertUser') != ''))
        if tls and r_ == z3.sat: v_ident += 1
    print(f'tls={tls}: paths={len(out)} {stat} minting paths={mint} | tx-owner≠session-user satisfiable on {v_user} | cert-identity≠cookie-subject satisfiable on {v_ident} | queries={ex.nq} wall={time.time()-t:.1f}s', cex or '')
