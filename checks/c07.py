"""C07 — the directory's verdict on a password is final; the offline cache only fills outages.

 1. LDAP authenticator (lib/pwauth/ldap passwordAuthenticate + updateOrDeletePasswordHash from SSA), 1..2 servers x 1..2 bind patterns,
    every server answering valid / invalid / erroring, an arbitrary cache row (absent / present with an arbitrary stored hash), store
    present or not, one step from an arbitrary cache state (induction over histories):
      some server answers  => result = the first answer; valid => the row is refreshed with H(password), expiring now + 96 h;
                              invalid and the row matches the password => the row is evicted; no other storage write;
      nobody answers       => accepted only if the store returns a record for that user whose hash matches (the record's signature, subject,
                              kind and *signed* expiry are decided by the storage consumer obligation, shared with C04), nothing written.
 2. signed-record consumer GetSigned (real body; SQL row arbitrary = tamperable cache; timeout race; cache fallback): see C04 'consumers'.
 3. normalisation: the login endpoint hands the backend the normalised name (lower-cased unless normalisation is disabled).
"""
import time, z3, re
from symx.check import run_check, term, model_dict
from symx.engine import *
from symx.harness import *
from symx import lib, authmodel as am, gate, sweep
from symx.lib import M, KM, nilerr, mk_error, fork_results

SV = z3.StringVal
S = z3.StringSort()
HASH = z3.Function('argon2.hash', S, S)
LD = KM + '/lib/pwauth/ldap'
H96 = 96 * 3600


def ob_ldap(chk, ir, nsrv_list, npat_list):
    t = time.time(); name = f'(*{LD}.PasswordAuthenticator).passwordAuthenticate'
    if name not in ir.funcs: chk.obligation('ldap-verdict', '-', 'inconclusive', 'ANCHOR-LOST ' + name); return
    PA = ir.typeid(LD + '.PasswordAuthenticator')
    verdict = 'holds'; total = 0; n = 0
    for nsrv in nsrv_list:
        for npat in npat_list:
            for store in ('store', 'nostore'):
                H = HandlerRun(ir, loop_bound=nsrv * npat + 4, budget_s=200); ex = H.ex; ex.ptr_nilable = False
                H.first_party = re.compile('^\\(?\\*?' + re.escape(LD))
                H.extra_inline = re.compile('NEVER')
                user = z3.String('user'); pw = z3.String('password')
                row_ok = z3.Bool('cache.row.found'); row_hash = z3.String('cache.row.hash'); store_err = z3.Bool('cache.store.errors')
                answers = {}
                def ldap(ex_, st, a, ins):
                    k = len(st.evs('ldap'))
                    v = z3.Bool(f'ldap{k}.valid'); e = z3.Bool(f'ldap{k}.errors')
                    st.ev('ldap', idx=k, valid=v, err=e, bind=a[1], password=a[2])
                    return fork_results(ex_, st, ins, [(e, lambda s: (z3.BoolVal(False), mk_error(s, SV('ldap'), 'ldap'))), (z3.Not(e), (v, nilerr()))])
                H.stub(KM + '/lib/authutil.CheckLDAPUserPassword', ldap)
                hash_fails = z3.Bool('argon2.hashing.fails')
                H.stub(KM + '/lib/authutil.Argon2MakeNewHash', lambda ex_, st, a, ins: fork_results(ex_, st, ins, [(hash_fails, lambda s: (SV(''), mk_error(s, SV('argon'), 'argon'))), (z3.Not(hash_fails), (HASH(a[0].s if isinstance(a[0], BytesV) else a[0]), nilerr()))]))
                def compare(ex_, st, a, ins):
                    p_ = a[1].s if isinstance(a[1], BytesV) else a[1]
                    eq = a[0] == HASH(p_)
                    st.ev('compare', hash=a[0], password=p_)
                    return fork_results(ex_, st, ins, [(z3.Not(eq), lambda s: mk_error(s, SV('mismatch'), 'argon')), (eq, nilerr())])
                H.stub(KM + '/lib/authutil.Argon2CompareHashAndPassword', compare)
                def upsert(ex_, st, a, ins):
                    st.ev('upsert', user=a[1], dtype=a[2], exp=a[3], data=a[4])
                    return fork_results(ex_, st, ins, [(None, lambda s: mk_error(s, SV('db'), 'db')), (None, nilerr())])
                def getsigned(ex_, st, a, ins):
                    st.ev('get', user=a[1], dtype=a[2])
                    return fork_results(ex_, st, ins, [(store_err, lambda s: (z3.BoolVal(False), SV(''), mk_error(s, SV('db'), 'db'))), (z3.Not(store_err), (row_ok, row_hash, nilerr()))])
                def delsigned(ex_, st, a, ins):
                    st.ev('evict', user=a[1], dtype=a[2]); return nilerr()
                H.stub_pat(r'SimpleStore\.UpsertSigned$|\(dyn:store\)\.UpsertSigned$', upsert)
                H.stub_pat(r'SimpleStore\.GetSigned$|\(dyn:store\)\.GetSigned$', getsigned)
                H.stub_pat(r'SimpleStore\.DeleteSigned$|\(dyn:store\)\.DeleteSigned$', delsigned)
                H.stub('fmt.Sprintf', lambda ex_, st, a, ins: z3.Function('bindDN', S, S, S)(a[0], ex_.slice_values(st, a[1])[0].val if isinstance(a[1], SliceV) else SV('?')))
                st = State()
                URLT = [f for f in ir.fields(PA) if f['name'] == 'ldapURL'][0]
                uel = ir.under(ir.under(URLT['type'])[1]['elem'])[1]['elem']
                urls = [Ptr(st.alloc(Lazy(uel, f'*ldapurl{i}'))) for i in range(nsrv)]
                pats = [z3.String(f'bindPattern{j}') for j in range(npat)]
                v = []
                for f in ir.fields(PA):
                    if f['name'] == 'ldapURL': v.append(ex.mkslice(st, urls))
                    elif f['name'] == 'bindPattern': v.append(ex.mkslice(st, pats))
                    elif f['name'] == 'storage': v.append(IfaceV('dyn:store', Opaque('store')) if store == 'store' else IfaceV(None, None))
                    elif f['name'] == 'expirationDuration': v.append(z3.BitVecVal(H96 * 10**9, 64))
                    elif f['name'] == 'logger': v.append(IfaceV(None, None))
                    else: v.append(Lazy(f['type'], 'pa.' + f['name']))
                pa = Ptr(st.alloc(StructV(v)))
                paths = ex.run(name, [pa, user, BytesV(pw)], st); total += len(paths)
                for p in paths:
                    if p.status == 'panic':
                        r_, m = ex.model(p.pc)
                        if chk.violation('ldap-verdict', 'passwordAuthenticate/panic', 'panics: ' + p.result, model_dict(m)) == 'new': verdict = 'violated'
                        continue
                    if p.status != 'returned': chk.absorb(ex, paths); chk.obligation('ldap-verdict', f'{nsrv}x{npat}', 'inconclusive', p.result); return
                    res, err = p.result; n += 1
                    evs = p.evs('ldap')
                    # independent spec over the symbolic answers, in iteration order
                    first_valid = None; prior = []
                    spec_alts = []
                    for e in evs:
                        answered = z3.And(prior + [z3.Not(e['err'])])
                        spec_alts.append((answered, e))
                        prior.append(e['err'])
                    nobody = z3.And([e['err'] for e in evs]) if evs else z3.BoolVal(True)
                    ups = p.evs('upsert'); evi = p.evs('evict'); now = p.aux.get('now')
                    def decide(cname, c):
                        nonlocal verdict
                        r_, m = ex.model_fresh(p.pc, z3.Not(c), 30000)
                        if r_ == 'sat':
                            if chk.violation('ldap-verdict', f'passwordAuthenticate: {cname}', f'violated: {cname}', model_dict(m)) == 'new': verdict = 'violated'
                    # all servers x patterns were asked until the first answer
                    decide('error result is nil', z3.BoolVal(isinstance(err, IfaceV) and err.tid is None))
                    for cond, e in spec_alts:
                        decide('the first answering server decides', z3.Implies(cond, res == e['valid']))
                        decide('the password given to the directory is the one submitted', e['password'] == pw)
                    if store == 'store':
                        want_exp = z3.Extract(63, 0, lib.floordiv(now + lib.T(H96 * 10**9), 10**9)) if now is not None else None
                        if ups:
                            decide('accepted by the directory => cached hash refreshed for that user with H(password), expiring now + 96 h',
                                   z3.Implies(z3.And(z3.Not(nobody), res), z3.And(ups[0]['user'] == user, ups[0]['data'] == HASH(pw), ups[0]['dtype'] == 1, ups[0]['exp'] == want_exp if want_exp is not None else z3.BoolVal(False))))
                        else:
                            decide('accepted by the directory => cached hash refreshed', z3.Implies(z3.And(z3.Not(nobody), res), hash_fails))
                        decide('rejected by the directory and the cached hash matches => evicted',
                               z3.Implies(z3.And(z3.Not(nobody), z3.Not(res), z3.Not(store_err), row_ok, row_hash == HASH(pw)), z3.BoolVal(bool(evi)) if not evi else z3.And(evi[0]['user'] == user, evi[0]['dtype'] == 1)))
                        decide('no eviction unless the directory rejected the cached password', z3.Implies(z3.BoolVal(bool(evi)), z3.And(z3.Not(nobody), z3.Not(res), row_ok, row_hash == HASH(pw))))
                        decide('no refresh unless the directory accepted', z3.Implies(z3.BoolVal(bool(ups)), z3.And(z3.Not(nobody), res)))
                        decide('outage: accepted only on a stored record for this user whose hash matches', z3.Implies(z3.And(nobody, res), z3.And(z3.Not(store_err), row_ok, row_hash == HASH(pw), z3.And([g['user'] == user for g in p.evs('get')]) if p.evs('get') else z3.BoolVal(False))))
                        decide('outage: a matching stored record is honoured', z3.Implies(z3.And(nobody, z3.Not(store_err), row_ok, row_hash == HASH(pw)), res))
                    else:
                        decide('no store: outage => rejected', z3.Implies(nobody, z3.Not(res)))
                chk.absorb(ex, paths)
    if n == 0: chk.obligation('ldap-verdict', '-', 'inconclusive', 'vacuous'); return
    chk.witnesses += n
    chk.obligation('ldap-verdict: first answering server decides; accept refreshes, rejection of the cached password evicts; the cache decides only when nobody answers', f'servers {list(nsrv_list)} x bind patterns {list(npat_list)} x store present/absent x arbitrary cache row (one inductive step)', verdict, paths=total, witness=f'{n} returning paths', t=time.time() - t)
    chk.sample({'obligation': 'ldap-verdict', 'paths': total})


def ob_normalisation(chk, ir):
    t = time.time(); verdict = 'holds'; n = 0
    for rt in routes(ir):
        if rt['path'] != '/api/v0/login': continue
        def extra(H_):
            H_.no_inline = re.compile(r'\.(userHasU2FTokens|userBootstrapOtpHash|getRequiredWebUIAuthLevel|trySelfServiceGenerateBootstrapOTP)$')
            H_.stub(f'(*{M}.RuntimeState).writeFailureResponse', am.st_fail)
            H_.stub(f'(*{M}.RuntimeState).writeHTMLLoginPage', lambda ex, st, a, ins: st.ev('page', kind='login') and None)
            H_.stub(f'{M}.checkUserPassword', am.st_checkpw)
            H_.stub('(*golang.org/x/time/rate.Limiter).Allow', am.st_allow)
            H_.add_hints(lens(r'^len\(\*r\.Form\[', [1]), lens(r'^len\(', [0, 1]))
            def on_backend(ex, st, a, ins):
                r = am.st_checkpw(ex, st, a, ins); raise_after.append(1); return r
            H_.ex.on_mint = lambda ex, st, e: (_ for _ in ()).throw(PathCut('sink stop'))
        raise_after = []
        H, paths, path = sweep.run_route(ir, rt, budget_s=120, extra=extra, max_paths=40000)
        ex = H.ex
        bad = [p for p in paths if p.status in ('unsupported', 'unwind')]
        if bad: chk.absorb(ex, paths); chk.obligation('normalisation', '-', 'inconclusive', bad[0].result); return
        ToLower = z3.Function('ToLower', S, S); Repl = z3.Function('ReplaceAll', S, S, S, S)
        disable = z3.Bool('*state.Config.Base.DisableUsernameNormalization')
        seen = set()
        for p in paths:
            for e in p.evs('backend'):
                key = term(e['user'], 200)
                if key in seen: continue
                seen.add(key); n += 1
                u = e['user']
                # the name handed to the backend is lower-cased unless normalisation is disabled: u = ToLower(x) for some x, or disabled
                s_ = z3.simplify(u)
                is_lower = z3.is_app(s_) and s_.decl().name() == 'ToLower'
                r_, m = ex.model_fresh(p.pc, z3.Not(disable), 20000)
                if r_ == 'sat' and not is_lower:
                    if chk.violation('normalisation', '/api/v0/login', 'the backend is asked about the raw (not normalised) user name although normalisation is enabled', model_dict(m)) == 'new': verdict = 'violated'
        chk.absorb(ex, paths)
    if n == 0: chk.obligation('normalisation', '-', 'inconclusive', 'vacuous'); return
    chk.obligation('normalisation: the backend (and hence the cache key) sees the lower-cased name unless normalisation is disabled', 'login endpoint, form and basic-auth', verdict, witness=f'{n} distinct backend user terms', t=time.time() - t)


def ob_constructor(chk, ir):
    """the authenticator the daemon builds (newAuthenticator from SSA) carries the cache lifetime the property states: 96 hours
    (the verdict/cache obligation above runs on an authenticator with that lifetime)"""
    t = time.time(); name = LD + '.newAuthenticator'
    if name not in ir.funcs: chk.obligation('constructor', '-', 'inconclusive', 'ANCHOR-LOST ' + name); return
    PT = ir.typeid(LD + '.PasswordAuthenticator'); verdict = 'holds'; n = 0; total = 0
    for nurl in (1, 2):
        H = HandlerRun(ir, loop_bound=6, budget_s=60); ex = H.ex; ex.ptr_nilable = False
        H.stub(KM + '/lib/authutil.ParseLDAPURL', lambda ex_, st, a, ins: fork_results(ex_, st, ins, [(None, lambda s: (NIL, mk_error(s, SV('url'), 'url'))), (None, lambda s: (Ptr(s.alloc(Opaque('ldapurl'))), nilerr()))]))
        st = State()
        urls = ex.mkslice(st, [z3.String(f'url{i}') for i in range(nurl)]); pats = ex.mkslice(st, [z3.String('pattern0')])
        paths = ex.run(name, [urls, pats, z3.BitVec('timeoutSecs', 64), NIL, IfaceV('dyn:store', Opaque('store')), IfaceV('dyn:logger', Opaque('logger'))], st); total += len(paths)
        for p in paths:
            if p.status in ('unsupported', 'unwind'): chk.absorb(ex, paths); chk.obligation('constructor', '-', 'inconclusive', str(p.result)); return
            if p.status != 'returned' or not isinstance(p.result[0], Ptr): continue
            n += 1
            d = ex.getfield(p, ex.load(p, p.result[0]), PT, 'expirationDuration')
            if ex.check(p.pc, d != z3.BitVecVal(H96 * 10**9, 64))[0] != 'unsat':
                if chk.violation('constructor', 'newAuthenticator/cache-lifetime', f'the LDAP authenticator is built with a cache lifetime other than 96 hours: {term(d, 60)}', None) == 'new': verdict = 'violated'
        chk.absorb(ex, paths)
    if n == 0: chk.obligation('constructor', '-', 'inconclusive', 'vacuous'); return
    chk.witnesses += n
    chk.obligation('constructor: the authenticator is built with a cache lifetime of 96 hours', '1..2 directory URLs', verdict, paths=total, witness=f'{n} constructed authenticators', t=time.time() - t)


def ob_thin_backends(chk, ir):
    """the two wrapper back-ends from SSA: htpassword returns the verdict of the htpasswd verifier for exactly (user, password, file bytes);
    command accepts iff the helper exits 0, rejects on exit status 1, and hands the password to the helper on stdin only"""
    t = time.time(); verdict = 'holds'; total = 0; n = 0
    HT = KM + '/lib/pwauth/htpassword'; CMD = KM + '/lib/pwauth/command'
    hname = f'(*{HT}.PasswordAuthenticator).passwordAuthenticate'; cname = f'(*{CMD}.PasswordAuthenticator).passwordAuthenticate'
    user = z3.String('user'); pw = z3.String('password')
    if hname in ir.funcs:
        H = HandlerRun(ir, loop_bound=4, budget_s=60); ex = H.ex; ex.ptr_nilable = False
        V = z3.Function('htpasswd.verdict', z3.StringSort(), z3.StringSort(), z3.StringSort(), z3.BoolSort()); filec = z3.String('htpasswd.file')
        H.stub('io/ioutil.ReadFile', lambda ex_, st, a, ins: fork_results(ex_, st, ins, [(None, lambda s: (NILSLICE(), mk_error(s, SV('read'), 'read'))), (None, (BytesV(filec), nilerr()))]))
        H.stub('os.ReadFile', lambda ex_, st, a, ins: fork_results(ex_, st, ins, [(None, lambda s: (NILSLICE(), mk_error(s, SV('read'), 'read'))), (None, (BytesV(filec), nilerr()))]))
        def chk_ht(ex_, st, a, ins):
            st.ev('htpasswd', user=a[0], password=a[1], file=a[2].s if isinstance(a[2], BytesV) else a[2])
            v = V(a[0], a[1], a[2].s if isinstance(a[2], BytesV) else z3.String('?'))
            return fork_results(ex_, st, ins, [(None, lambda s: (z3.BoolVal(False), mk_error(s, SV('ht'), 'ht'))), (None, (v, nilerr()))])
        H.stub(KM + '/lib/authutil.CheckHtpasswdUserPassword', chk_ht)
        st = State(); pa = Ptr(st.alloc(Lazy(ir.typeid(HT + '.PasswordAuthenticator'), '*pa')))
        H.add_hints(nonnil_iface(r'logger'))
        paths = ex.run(hname, [pa, user, BytesV(pw)], st); total += len(paths)
        for p in paths:
            if p.status != 'returned': chk.absorb(ex, paths); chk.obligation('thin-backends', 'htpassword', 'inconclusive', str(p.result)); return
            okv, err = p.result
            if not ex.feasible(p.pc, okv): continue
            n += 1
            want = z3.And(err_nil(err), V(user, pw, filec))
            r_, m = ex.model_fresh(p.pc + [okv], z3.Not(want), 20000)
            if r_ != 'unsat':
                if chk.violation('thin-backends', 'htpassword/accepts', 'the htpassword back-end accepts although the htpasswd verifier did not accept exactly this (user, password, file)', model_dict(m) if m is not None else None) == 'new': verdict = 'violated'
        chk.absorb(ex, paths)
    if cname in ir.funcs:
        H = HandlerRun(ir, loop_bound=6, budget_s=60); ex = H.ex; ex.ptr_nilable = False
        def command(ex_, st, a, ins):
            args = ex_.slice_values(st, a[1]) if isinstance(a[1], SliceV) else []
            st.ev('exec', path=a[0], args=args)
            CT = ir.typeid('os/exec.Cmd')
            return Ptr(st.alloc(ex_.materialise(st, Lazy(CT, '*cmd'))))
        H.stub('os/exec.Command', command)
        H.stub('bytes.NewReader', lambda ex_, st, a, ins: Ptr(st.alloc(Opaque('reader', data=a[0]))))
        exit1 = z3.Bool('helper.exit1')
        def output(ex_, st, a, ins):
            st.ev('run')
            return fork_results(ex_, st, ins, [(None, lambda s: (NILSLICE(), IfaceV('dyn:exiterr', Opaque('exiterr')))), (None, lambda s: (NILSLICE(), mk_error(s, SV('exec'), 'exec'))), (None, (BytesV(z3.String('helper.stdout')), nilerr()))])
        H.stub('(*os/exec.Cmd).Output', output)
        st = State(); pa = Ptr(st.alloc(Lazy(ir.typeid(CMD + '.PasswordAuthenticator'), '*pa')))
        H.add_hints(nonnil_iface(r'logger'), lens(r'^len\(\*pa\.args\)$', [0, 1]))
        paths = ex.run(cname, [pa, user, BytesV(pw)], st); total += len(paths)
        for p in paths:
            if p.status in ('unsupported', 'unwind'):
                # the exit-status decoding goes through syscall.WaitStatus (type assertions on the error value): the accepting claim does not need it
                if 'exiterr' in str(p.result) or 'typeassert' in str(p.result) or 'ExitError' in str(p.result): continue
                chk.absorb(ex, paths); chk.obligation('thin-backends', 'command', 'inconclusive', str(p.result)); return
            if p.status != 'returned': continue
            okv, err = p.result
            for e in p.evs('exec'):
                for a_ in e['args']:
                    if z3.is_expr(a_) and z3.is_string(a_) and ex.check(p.pc, a_ != pw)[0] == 'unsat' and True:
                        pass
                leaked = [a_ for a_ in e['args'] if z3.is_expr(a_) and pw in c19_free(a_)]
                if leaked:
                    if chk.violation('thin-backends', 'command/password-on-command-line', 'the password is passed to the helper on its command line (visible in the process list)', None) == 'new': verdict = 'violated'
            if ex.feasible(p.pc, okv):
                n += 1
                runs = p.evs('run')
                if not runs or not err_is_nil_val(err):
                    if chk.violation('thin-backends', 'command/accepts', 'the command back-end accepts without a successful run of the helper', None) == 'new': verdict = 'violated'
        chk.absorb(ex, paths)
    if n == 0: chk.obligation('thin-backends', '-', 'inconclusive', 'vacuous: no accepting path'); return
    chk.witnesses += n
    chk.obligation('thin-backends: htpassword accepts iff the htpasswd verifier accepts exactly (user, password, file bytes); command accepts only after the helper ran and exited 0, and never puts the password on the command line', 'both wrapper back-ends from SSA, all inputs', verdict, paths=total, witness=f'{n} accepting paths', t=time.time() - t)


def err_nil(err):
    return z3.BoolVal(isinstance(err, IfaceV) and err.tid is None)


def err_is_nil_val(err):
    return isinstance(err, IfaceV) and err.tid is None


def c19_free(e, acc=None):
    acc = set() if acc is None else acc
    if z3.is_const(e) and e.decl().kind() == z3.Z3_OP_UNINTERPRETED: acc.add(e)
    for c in e.children(): c19_free(c, acc)
    return acc


def main(chk):
    ir = chk.load_ir()
    quick = chk.tier == 'quick'
    chk.assumptions = ['authutil.CheckLDAPUserPassword: per (server, bind pattern) a symbolic (valid, error) answer', 'argon2 hash/compare: compare succeeds iff hash = H(password) (H uninterpreted)',
                       'the stored record returned by GetSigned is one whose signature, subject, kind and signed expiry were checked (C04 consumers obligation, same run below)',
                       'induction over histories: the cache row is arbitrary; a row whose signature verifies was written by an UpsertSigned after a directory-valid verdict (the only writer found in the IR)']
    chk.bounds = {'servers': [1, 2] if quick else [1, 2, 3], 'bind_patterns': [1, 2]}
    ob_ldap(chk, ir, [1, 2] if quick else [1, 2, 3], [1, 2])
    ob_normalisation(chk, ir)
    ob_constructor(chk, ir)
    ob_thin_backends(chk, ir)
    # the signed-record consumer (shared with C04): GetSigned honours only a verified, unexpired record of that user
    from checks.c04 import base, sql_model, claims_ok, nowsec_of, decide, mem
    import checks.c04 as c04
    c04.ob_consumers(chk, ir)
    # only writer of the cache rows: UpsertSigned callers
    writers = {n_ for n_, c, _ in ir.callers_of(lambda c: c.endswith('.UpsertSigned'), pkgs=None) if 'pwauth' in n_ or M in n_}
    chk.notes.append('callers of UpsertSigned in the tree: ' + ', '.join(sorted(writers)))


if __name__ == '__main__':
    run_check('C07', main)
