"""C16 — concurrent requests are race-free and do not undo or double-spend.

 1. lock discipline (data races): every root that can reach an access of a shared map of RuntimeState (localAuthData, vipPushCookie,
    pendingOauth2, totpLocalRateLimit) - the route handlers of both muxes and the background goroutines started by main - is executed
    symbolically; every map access leaves an event with the set of mutexes held.  Claim (Eraser lockset condition): all accesses of one
    map hold one common mutex.  Completeness guard: every access instruction found statically in the SSA must be covered by an event.
 2. no lost acknowledged disable/delete: request A (any profile-mutating handler) with request B = token manager "Disable"/"Delete" of the
    same user scheduled between A's profile load and A's profile save, over a shared profile store with gob semantics (deep copies).
    Claim: if B is acknowledged, the stored profile after both requests still has the token disabled / absent (unless A itself asked
    for the opposite, which a sequential order explains).
 3. one-time values at the same moment: two presentations of the same TOTP code (validateUserTOTP from SSA, B scheduled at every lock
    release and storage operation of A) - at most one is honoured; same for the bootstrap OTP.
"""
import time, z3, re, json
from symx.check import run_check, term, model_dict
from symx.engine import *
from symx.harness import *
from symx import lib, authmodel as am, gate, sweep, issue, store, totpk, replay
from symx.lib import M, nilerr, mk_error, fork_results

SV = z3.StringVal
S = z3.StringSort()
SHARED = ('localAuthData', 'vipPushCookie', 'pendingOauth2', 'totpLocalRateLimit')
# fields of the daemon state that are assigned after start-up (by the unseal transition) and read by request handlers: write-once publication
FIELDS = ('Signer', 'Ed25519Signer', 'caCertDer', 'KeymasterPublicKeys', 'selfRoleCaCertDer')
WATCH = re.compile(r'^\*state\.(' + '|'.join(SHARED) + r')$')
LOCKSET_SUMMARIES = re.compile(r'\.(getPreferredAcceptType|profileURI|metricLogAuthOperation|getClientType|userHasU2FTokens|trySelfServiceGenerateBootstrapOTP|userBootstrapOtpHash|getUserFromRequest|ensureHTMLSafeLoginDestination)$|/lib/authutil\.')
BACKGROUND = (f'(*{M}.RuntimeState).performStateCleanup',)
_IR = None


def static_sites(ir):
    """every SSA instruction that reads or writes one of the shared maps: (function, pos, map, kind)"""
    RS = ir.typeid(M + '.RuntimeState'); idx = {i: f['name'] for i, f in enumerate(ir.fields(RS)) if f['name'] in SHARED}
    ftype = {i: f['type'] for i, f in enumerate(ir.fields(RS)) if f['name'] in SHARED}
    sites = []
    for fname, fn in ir.funcs.items():
        if fn.get('pkg') != M or not fn.get('blocks'): continue
        addr = {}; maps = {}
        for b in fn['blocks']:
            for ins in b['instrs']:
                if ins['op'] == 'FieldAddr' and ins['field'] in idx:
                    t = ir.types.get(ins['type'], {}) if hasattr(ir, 'types') else {}
                    if t.get('elem') == ftype[ins['field']] or not t: addr[ins['reg']] = idx[ins['field']]
        if not addr: continue
        for b in fn['blocks']:
            for ins in b['instrs']:
                if ins['op'] == 'UnOp' and ins.get('tok') == '*' and ins['x'].get('k') == 'reg' and ins['x']['name'] in addr: maps[ins['reg']] = addr[ins['x']['name']]
                if ins['op'] == 'Store' and ins['addr'].get('k') == 'reg' and ins['addr']['name'] in addr: sites.append((fname, ins.get('pos', ''), addr[ins['addr']['name']], 'assign'))
        for b in fn['blocks']:
            for ins in b['instrs']:
                def m(o): return maps.get(o['name']) if isinstance(o, dict) and o.get('k') == 'reg' else None
                if ins['op'] == 'Lookup' and m(ins['x']): sites.append((fname, ins.get('pos', ''), m(ins['x']), 'r'))
                elif ins['op'] == 'MapUpdate' and m(ins['map']): sites.append((fname, ins.get('pos', ''), m(ins['map']), 'w'))
                elif ins['op'] == 'Range' and m(ins['x']): sites.append((fname, ins.get('pos', ''), m(ins['x']), 'r'))
                elif ins['op'] == 'Call' and ins['call'].get('mode') == 'builtin' or (ins['op'] == 'Call' and str(ins['call'].get('callee', '')).startswith('builtin')):
                    c = ins['call']
                    for a in c['args']:
                        if m(a):
                            nm = str(c.get('callee') or c.get('name') or '')
                            sites.append((fname, ins.get('pos', ''), m(a), 'w' if 'delete' in nm else 'r'))
    return sites


def lockset_worker(item):
    ir = _IR; kind, rt = item
    out = {'root': rt['path'] if kind == 'route' else rt['handler'], 'events': [], 'inconclusive': None, 'paths': 0, 'queries': 0, 'solver_s': 0.0, 'functions': [], 'transitions': 0}
    def extra(H):
        H.ex.watch_maps = WATCH
        H.stub(f'(*{M}.RuntimeState).writeFailureResponse', am.st_fail)
        H.add_hints(lens(r'AllowedAuthBackendsFor\w+\)$', [0]), lens(r'^range\(', [0, 1]), lens(r'OpenIDConnectIDP\.Client\)$', [0]))
        H.stub(f'(*{M}.RuntimeState).writeHTMLLoginPage', lambda ex_, st, a, ins: st.ev('page', kind='login') and None)
        H.stub(f'(*{M}.RuntimeState).writeHTML2FAAuthPage', lambda ex_, st, a, ins: (st.ev('page', kind='2fa'), nilerr())[1])
        H.stub(f'{M}.getLoginDestination', sweep.st_filtered_destination)
        H.no_inline = LOCKSET_SUMMARIES
    try:
        RS = ir.typeid(M + '.RuntimeState')
        def arm(H, state):
            out['state_mutex'] = repr(Ptr(state.obj, (ir.field_index(RS, 'Mutex'),)))
            for fname in FIELDS: H.ex.watch_fields[(state.obj, (ir.field_index(RS, fname),))] = '*state.' + fname
        if kind == 'route':
            H, st, state, w, r, path = sweep.mkrun(ir, rt, budget_s=600, extra=extra, max_paths=200000 if rt['path'] == '/api/v0/login' else 30000, loop_bound=5)
            arm(H, state)
            fn = ir.funcs[rt['handler']]; np_ = len(fn['params'] or [])
            paths = H.run(rt['handler'], st, [state, w, r] if np_ == 3 else [w, r]) if np_ in (2, 3) else None
        else:
            H, st, state, w, r, path = sweep.mkrun(ir, {'path': None}, budget_s=120, extra=extra, loop_bound=2)
            arm(H, state)
            fn = ir.funcs[rt['handler']]
            args = [state] + [H.ex.fresh(st, p['type'], p['name']) for p in fn['params'][1:]]
            paths = H.run(rt['handler'], st, args)
    except Unsupported as e:
        out['inconclusive'] = str(e); return out
    if paths is None: out['inconclusive'] = 'no handler body'; return out
    seen = set()
    for p in paths:
        after_cs = False      # a critical section of the state mutex has completed earlier on this path
        for e in p.events:
            if e['k'] == 'unlock' and e.get('mu') == out.get('state_mutex'): after_cs = True
            if e['k'] != 'shared': continue
            key = (e['obj'], e['kind'], e['where'], tuple(sorted(e.get('locks') or ())), after_cs)
            if key in seen: continue
            seen.add(key); out['events'].append(key)
    out['paths'] = len(paths); out['transitions'] = sum(p.decisions for p in paths) + len(paths)
    out['queries'] = H.ex.nq; out['solver_s'] = H.ex.tsolve; out['functions'] = sorted(H.ex.encoded)
    bad = [p for p in paths if p.status == 'unsupported']
    if bad: out['inconclusive'] = bad[0].result
    return out


def ob_lockset(chk, ir):
    global _IR
    _IR = ir
    t = time.time(); verdict = 'holds'
    sites = static_sites(ir)
    touching = {s[0] for s in sites}
    # helpers that are summarised (not executed) in this obligation must not be able to reach an access of the shared maps or of a published field
    RS = ir.typeid(M + '.RuntimeState'); fidx = {ir.field_index(RS, f) for f in FIELDS}
    def reads_published(fname):
        fn = ir.funcs.get(fname)
        return bool(fn and fn.get('blocks') and any(ins['op'] == 'FieldAddr' and ins['field'] in fidx and ins['x'].get('name') == 'state' for b in fn['blocks'] for ins in b['instrs']))
    for fname in ir.funcs:
        if LOCKSET_SUMMARIES.search(fname) and fname.startswith(('(*' + M, M)):
            reach = ir.reachable([fname])
            if reach & touching or any(reads_published(f) for f in reach):
                chk.obligation('lock-discipline', '-', 'inconclusive', f'a summarised helper can reach shared state: {fname}'); return
    # init-time writers (single-threaded, before any goroutine is started) are not roots
    todo = []
    for rt in routes(ir):
        h = rt['handler']
        if not isinstance(h, str) or h not in ir.funcs: continue
        todo.append(('route', rt))      # every route: the published fields (Signer, CA certificates, public keys) are read almost everywhere
    for b in BACKGROUND:
        if b in ir.funcs: todo.append(('bg', {'handler': b, 'path': None}))
    res = sweep.parallel(lockset_worker, todo)
    events = []; npaths = 0; state_mutex = None
    for item, out in zip(todo, res):
        state_mutex = state_mutex or out.get('state_mutex')
        if out['inconclusive']:
            chk.obligation(f'lock-discipline root {out["root"]}', '-', 'inconclusive', out['inconclusive']); continue
        npaths += out['paths']
        chk.states += out['paths']; chk.transitions += out['transitions']; chk.queries += out['queries']; chk.solver_s += out['solver_s']; chk.functions |= set(out['functions'])
        events += [(out['root'],) + tuple(e) for e in out['events']]
    # coverage of the static access sites
    covered = {(e[3].split(' ')[0], e[3].split(' ')[-1]) for e in events}
    missing = [s for s in sites if s[3] != 'assign' and (s[0], s[1]) not in covered and not s[0].endswith('.loadVerifyConfigFile') and 'Config' not in s[0].split('.')[-1]]
    by = {}
    for e in events: by.setdefault(e[1].split('.')[-1], []).append(e)
    for obj, evs in sorted(by.items()):
        if obj not in FIELDS and not any(e[2] == 'w' for e in evs): continue
        # candidate guard: the mutex held at most accesses (published fields: the state mutex, under which the unseal transition assigns them - C09)
        count = {}
        for e in evs:
            for l in e[4]:
                if not l.startswith('('): count[l] = count.get(l, 0) + 1
        guard = max(count, key=count.get) if count else None
        if obj in FIELDS: guard = state_mutex
        for e in evs:
            if guard is not None and guard in e[4]: continue
            fn, pos = e[3].split(' ')[0], e[3].split(' ')[-1]
            if obj in FIELDS:
                # write-once publication: an unlocked read is ordered after the write when a locked read of the same field precedes it on the path
                # (the unseal transition assigns all of them inside one critical section of the state mutex; a request that went through a
                # critical section of that mutex and continued has seen the signer non-nil, i.e. is ordered after the transition)
                if e[2] == 'r' and e[5]: continue
                what = f"{'write' if e[2] == 'w' else 'read'} of state.{obj} at {fn.split('.')[-1]} without holding the state mutex and without an earlier critical section of it on the path: it races with the unseal transition, which assigns the field under that mutex"
            else:
                what = f"{'write' if e[2] == 'w' else 'read'} of shared map {obj} at {fn.split('.')[-1]} without holding {guard or 'any mutex'} (other accesses hold it): data race with any concurrent request touching the map"
            if chk.violation('lock-discipline', f'{obj}/{fn.split(".")[-1].strip(")")}/{e[2]}', what, {'root': e[0], 'where': e[3], 'locks_held': list(e[4]), 'guard': guard}) == 'new': verdict = 'violated'
    if not events: chk.obligation('lock-discipline', '-', 'inconclusive', 'vacuous: no shared access event'); return
    if missing:
        chk.obligation('lock-discipline coverage', '-', 'inconclusive', f'shared-map access sites never reached by a symbolic path: {missing[:4]}'); return
    chk.witnesses += len(events)
    chk.obligation('lock-discipline: every access of localAuthData / vipPushCookie / pendingOauth2 / totpLocalRateLimit holds the map\'s mutex (lockset condition), all static access sites covered; the fields published by the unseal transition are written under the state mutex and read under it or after a locked read',
                   f'{len(todo)} roots (every route + background cleanup), {len(sites)} static map access sites, published fields {list(FIELDS)}', verdict, paths=npaths, witness=f'{len(events)} distinct (site, lockset) events', t=time.time() - t)
    chk.sample({'obligation': 'lock-discipline', 'sites': [list(s) for s in sites][:40], 'locksets': sorted({(e[1], e[2], e[3].split(' ')[0].split('.')[-1], e[4], e[5]) for e in events})[:60]})


UNITS = (f'(*{M}.RuntimeState).validateUserTOTP',)
SLOW_ROUTES = ('/api/v0/login', '/webauthn/AuthFinish/')     # explored in the thorough tier (budget)
LU_SUMMARIES = ['getPreferredAcceptType', 'sendFailureToClientIfLocked', 'setSecurityHeaders', 'getRequiredWebUIAuthLevel', 'IsAdminUserAndU2F', 'getClientType', 'userHasU2FTokens',
                'userBootstrapOtpHash', 'trySelfServiceGenerateBootstrapOTP', 'metricLogAuthOperation', 'profileURI']
TOKMGR = f'(*{M}.RuntimeState).u2fTokenManagerHandler'
SAVE = f'(*{M}.RuntimeState).SaveUserProfile'
LOAD = f'(*{M}.RuntimeState).LoadUserProfile'
U = z3.String('U')


def token_view(ex, st, prof, fname):
    """[(key, present-condition, enabled)] of a token map of a stored profile version (explicit entries)"""
    UP = ex.ir.typeid(M + '.userProfile'); m = prof[ex.ir.field_index(UP, fname)]
    if not isinstance(m, MapV): return []
    out = []
    et = ex.ir.under(st.heap[m.obj]['elem'])
    for k, v, c in ex.map_entries(st, m.obj):
        sv = ex.load(st, v) if isinstance(v, Ptr) else v
        tid = ex.ir.under(st.heap[m.obj]['elem'])[1]['elem'] if isinstance(v, Ptr) else st.heap[m.obj]['elem']
        out.append((k, c, ex.getfield(st, sv, tid, 'Enabled')))
    return out


def at(view, key):
    pres = z3.Or([z3.And(c, k == key) for k, c, e in view] + [z3.BoolVal(False)])
    en = z3.Or([z3.And(c, k == key, e) for k, c, e in view] + [z3.BoolVal(False)])
    return pres, en


def cur_who(st):
    who = 'A'
    for f in st.frames:
        if f.tag is not None: who = f.tag
    return who


def lost_worker(item):
    ir = _IR; rt, counts = item
    out = {'root': rt['path'], 'viol': [], 'inconclusive': None, 'paths': 0, 'queries': 0, 'solver_s': 0.0, 'functions': [], 'transitions': 0, 'schedules': 0, 'judged': 0}
    UP = ir.typeid(M + '.userProfile')
    def judge(ex, p):
        saves = p.evs('save'); loads = p.evs('load')
        sb = [e for e in saves if e['who'] == 'B']; sa = [e for e in saves if e['who'] == 'A']
        lb = [e for e in loads if e['who'] == 'B']; la = [e for e in loads if e['who'] == 'A']
        if not sb or not sa or not lb or not la: return
        out['judged'] += 1
        pre = lb[-1]['version']; mid = sb[-1]['version']; fin = p.aux['store']['U']
        excl = []
        if rt['handler'] == TOKMGR:
            acts = [e['val'] for e in p.evs('form.get') if e['who'] == 'A' and e['key'] == 'action']
            if not acts: out['inconclusive'] = 'action of request A not captured'; return
            excl = [acts[-1] != SV('Enable')]     # A asking to enable the token is explained by the order B;A
        for fname in ('U2fAuthData', 'WebauthnData'):
            vp, vm, vf = token_view(ex, p, pre, fname), token_view(ex, p, mid, fname), token_view(ex, p, fin, fname)
            fi = ir.field_index(UP, fname)
            aprof = ex.load(p, sa[-1]['profile']); amap = aprof[fi]
            # entries A set itself (a registration at the same index) are A's intent, explained by the order B;A
            own = [w[1] for w in p.heap[amap.obj]['writes'][la[-1]['nwrites'].get(fi, 0):] if w[0] == 'set'] if isinstance(amap, MapV) else []
            for k, c, e in vp:
                notown = z3.And([k != o for o in own] + [z3.BoolVal(True)])
                pm, em = at(vm, k); pf, ef = at(vf, k)
                disabled_lost = z3.And(c, e, pm, z3.Not(em), pf, ef, notown)
                deleted_lost = z3.And(c, z3.Not(pm), pf, notown)
                for what, cond in (('disable', disabled_lost), ('delete', deleted_lost)):
                    res, m = ex.model_fresh(p.pc + excl, cond, 30000)
                    if res == 'unknown': out['inconclusive'] = 'solver unknown on a lost-update query'
                    if res == 'sat':
                        sched = [(x['who'], x['k']) for x in p.events if x['k'] in ('load', 'save')]
                        out['viol'].append((f'{rt["path"]}/{what}/{fname}', f'an acknowledged {what} of a {fname} token (request B, /api/v0/manageU2FToken) is undone by the concurrent request {rt["path"]} that loaded the profile before and saved it after', {'schedule': sched, 'model': model_dict(m) if m is not None else None}))
    def extra(H):
        ex = H.ex
        H.add_hints(lens(r'^len\(split!', [3, 4]), lens(r'^range\(', [0, 1]), lens(r'OpenIDConnectIDP\.Client\)$', [0]))
        summ = [x for x in LU_SUMMARIES if not (rt['path'] == '/api/v0/login' and x in ('trySelfServiceGenerateBootstrapOTP', 'userBootstrapOtpHash'))]
        H.no_inline = re.compile('|'.join(re.escape(x) + '$' for x in summ) + r'|/lib/authutil\.')
        if rt['path'] == '/api/v0/login':
            H.stub(f'(*{M}.RuntimeState).writeHTMLLoginPage', lambda ex_, st, a, ins: st.ev('page', kind='login') and None)
            H.stub(f'(*{M}.RuntimeState).writeHTML2FAAuthPage', lambda ex_, st, a, ins: (st.ev('page', kind='2fa'), nilerr())[1])
            H.stub(f'{M}.getLoginDestination', sweep.st_filtered_destination)
            H.stub('crypto/sha512.Sum512', lambda ex_, st, a, ins: ex_.zero(ins['type']))
            H.add_hints(lens(r'AllowedAuthBackendsFor\w+\)$', [0]))
            LOGINH = f'(*{M}.RuntimeState).loginHandler'; TRY = f'(*{M}.RuntimeState).trySelfServiceGenerateBootstrapOTP'
            if SAVE not in ir.reachable([LOGINH], within=lambda f: f != TRY):
                # the login endpoint's only profile write is inside trySelfServiceGenerateBootstrapOTP (call graph): paths end at the statement after it
                def past(ex_, st, args):
                    if st.frames and st.frames[-1].fn['name'] == LOGINH: raise PathCut('login: past its only profile write')
                ex.on_call[f'(*{M}.RuntimeState).userBootstrapOtpHash'] = past
        load, save = store.install(H, initial=lambda ex_, s, user: store.concrete_profile(ex_, s, counts), single=U)
        # which of the three neighbouring periods a one-time value belongs to is irrelevant for this obligation (what is saved, and when):
        # the value is taken to belong to the first candidate tried or to none (keeps the unit from forking three ways per device)
        def hotp_one(ex_, st, a, ins):
            first = totpk.hotp_is_first(st, a[1])      # the period of the request itself (not +-1)
            return (z3.Bool(f'hotp.first.{cur_who(st)}') if first else z3.BoolVal(False), nilerr())
        H.stub('github.com/pquerna/otp/hotp.ValidateCustom', hotp_one)
        def make_b(ex_, s2):
            s2.aux['reqid'] = 2
            r2 = Ptr(s2.alloc(Lazy(H.REQ, '*r#2'))); w2 = IfaceV(H.LW, Ptr(s2.alloc(Opaque('w2'))))
            return TOKMGR, [s2.aux['stateptr'], w2, r2]
        def point_ok(s):
            e = s.events[-1] if s.events else None
            return bool(e) and e['k'] == 'load' and not e.get('err')
        inject_after(H, LOAD, load, point_ok, make_b)
        # after the injection only the two saves matter: a refusal by either request ends the schedule (nothing acknowledged / nothing overwritten)
        def fail(ex_, st, a, ins):
            if st.aux.get('injected'): raise PathCut('refusal after the injection point')
            return am.st_fail(ex_, st, a, ins)
        H.stub(f'(*{M}.RuntimeState).writeFailureResponse', fail)
        def herr(ex_, st, a, ins):
            if st.aux.get('injected'): raise PathCut('refusal after the injection point')
            return lib.http_error(ex_, st, a, ins)
        H.stub('net/http.Error', herr)
        def vget(ex_, st, a, ins):
            r = lib.values_get(ex_, st, a, ins)
            k = z3.simplify(a[1]) if z3.is_expr(a[1]) else None
            if r is not None and k is not None and z3.is_string_value(k):
                who = cur_who(st)
                st.ev('form.get', key=k.as_string(), val=r)
                if who == 'B' and k.as_string() == 'action': st.pc.append(z3.Or(r == SV('Disable'), r == SV('Delete')))
            return r
        H.stub('(net/url.Values).Get', vget)
        # schedules in which B is refused acknowledge nothing: B's environment forks are pruned to the succeeding alternative
        def b_only(name, pred):
            o = ex.stubs[name]
            def f(ex_, st, a, ins):
                who = cur_who(st)
                r = o(ex_, st, a, ins)
                if who != 'B' or type(r) is not list: return r
                keep = [x for x in r if pred(x)]
                for x in r:
                    if x not in keep: x.status = 'infeasible'
                return r
            ex.stubs[name] = f
        b_only(gate.CHECKAUTH, lambda x: x.events and x.events[-1]['k'] == 'admitted')
        b_only(LOAD, lambda x: x.events and x.events[-1]['k'] == 'load' and not x.events[-1].get('err'))
        b_only(SAVE, lambda x: x.events and x.events[-1]['k'] == 'save')
        opf = ex.stubs['(*net/http.Request).ParseForm']
        H.stub('(*net/http.Request).ParseForm', lambda ex_, st, a, ins: (st.ev('parseform'), nilerr())[1] if cur_who(st) == 'B' else opf(ex_, st, a, ins))
        ex.go_inline = re.compile(r'SaveUserProfile$')      # webauthnAuthFinish saves in a goroutine: run it at the spawn point (one of its schedules)
        osave = ex.stubs[SAVE]
        def save2(ex_, st, a, ins):
            who = cur_who(st)
            r = osave(ex_, st, a, ins)
            if who == 'A' and st.aux.get('injected'):
                for s in (r if type(r) is list else [st]):
                    if s.events and s.events[-1]['k'] == 'save' and s.status == 'run':
                        judge(ex_, s); s.status = 'cut'; s.result = 'judged at the second save'
            return r
        H.stub(SAVE, save2)
    budget = int(__import__('os').environ.get('C16_BUDGET', rt.get('budget', 300)))
    try:
        if rt.get('unit'):
            H, st, state, w, r, path = sweep.mkrun(ir, {'path': None}, budget_s=budget, extra=extra, max_paths=40000, loop_bound=5)
            fn = ir.funcs[rt['handler']]
            args = [state] + [U if p['name'] == 'username' else TimeV(z3.BitVec('unit.t', lib.TW)) if ir.tstr(p['type']) == 'time.Time' else H.ex.fresh(st, p['type'], 'unit.' + p['name']) for p in fn['params'][1:]]
            paths = H.run(rt['handler'], st, args)
        else:
            H, paths, path = sweep.run_route(ir, rt, budget_s=budget, extra=extra, max_paths=40000, loop_bound=5)
    except Unsupported as e:
        out['inconclusive'] = str(e); return out
    if paths is None: out['inconclusive'] = 'no handler body'; return out
    ex = H.ex
    for p in paths:
        if p.status in ('unsupported', 'unwind') and p.aux.get('injected'): out['inconclusive'] = out['inconclusive'] or str(p.result)
        if p.aux.get('injected'): out['schedules'] += 1
    out['paths'] = len(paths); out['transitions'] = sum(p.decisions for p in paths) + len(paths)
    out['queries'] = ex.nq; out['solver_s'] = ex.tsolve; out['functions'] = sorted(ex.encoded)
    return out


def ob_lost_update(chk, ir):
    global _IR
    _IR = ir
    t = time.time(); verdict = 'holds'; skipped = []
    units = [u for u in UNITS if u in ir.funcs]
    todo = []; covered = {}
    for rt in routes(ir):
        h = rt['handler']
        if not (isinstance(h, str) and h in ir.funcs and SAVE in ir.reachable([h])): continue
        via = [u for u in units if SAVE not in ir.reachable([h], within=lambda f: f != u)]
        if via: covered[rt['path']] = via[0].split('.')[-1]; continue        # the handler's load-modify-save lives entirely in a unit driven on its own
        if rt['path'] in SLOW_ROUTES and chk.tier != 'thorough': skipped.append(rt['path']); continue
        todo.append(rt)
    todo += [{'path': u.split('.')[-1], 'handler': u, 'unit': True} for u in units]
    SHAPES = [{'U2fAuthData': 1, 'WebauthnData': 0, 'TOTPAuthData': 1}, {'U2fAuthData': 0, 'WebauthnData': 1, 'TOTPAuthData': 1}]
    LOGIN_SHAPE = {'U2fAuthData': 0, 'WebauthnData': 1, 'TOTPAuthData': 0}      # the login endpoint writes the profile only for users without U2F / TOTP tokens (self-service bootstrap OTP)
    todo = [(rt, c) for rt in todo for c in ([LOGIN_SHAPE] if rt['path'] == '/api/v0/login' else SHAPES)]
    res = sweep.parallel(lost_worker, todo)
    nsched = njudged = npaths = 0; replayed = set(); per_root = []
    for (rt, counts), out in zip(todo, res):
        if out['inconclusive']: chk.obligation(f'lost-update A={rt["path"]}', '-', 'inconclusive', out['inconclusive']); continue
        if rt.get('unit') and out['judged'] == 0: chk.obligation(f'lost-update A={rt["path"]}', '-', 'inconclusive', 'vacuous: the unit never saves after the injected request (harness or contract lost)'); continue
        nsched += out['schedules']; njudged += out['judged']; npaths += out['paths']
        per_root.append({'A': rt['path'], 'shape': counts, 'schedules': out['schedules'], 'both_saved': out['judged'], 'counterexamples': len(out['viol'])})
        chk.states += out['paths']; chk.transitions += out['transitions']; chk.queries += out['queries']; chk.solver_s += out['solver_s']; chk.functions |= set(out['functions'])
        seen = set()
        for site, what, md in out['viol']:
            if site in seen: continue
            seen.add(site)
            confirmed = None; files = None
            if rt['handler'] == TOKMGR and site.endswith('U2fAuthData') and site not in replayed:
                # native replay: rewritten storage.go (yield point at SaveUserProfile entry) through go test -overlay
                replayed.add(site)
                act = 'Disable' if '/disable/' in site else 'Delete'
                ov = replay.storage_with_save_hook(); src = replay.GO_LOST_UPDATE % {'baction': act}
                if ov is not None:
                    ok, txt = replay.go_test('cmd/keymasterd', 'zz_verif_c16_test.go', src, 'TestVerifC16LostUpdate', extra_overlay=ov)
                    chk.replays += 1
                    confirmed = (ok is False) if ok is not None else None
                    files = {'zz_verif_c16_test.go': src, 'native_output.txt': txt[-3000:]}
                    if ok is True:
                        chk.obligation(f'lost-update replay {site}', '-', 'inconclusive', 'the symbolic counterexample does not reproduce natively: encoding or stub suspected'); continue
            r_ = chk.violation('lost-update', site, what, md, replay_files=files, confirmed=confirmed)
            if r_ == 'new': verdict = 'violated'
            elif verdict == 'holds': verdict = 'known'
    if njudged == 0: chk.obligation('lost-update', '-', 'inconclusive', 'vacuous: no schedule in which both requests saved'); return
    chk.witnesses += njudged
    chk.obligation('lost-update: an acknowledged Disable/Delete of a second-factor token (B) survives a concurrent profile-mutating request (A) scheduled around it (A loads, B runs, A saves)',
                   f'{len({rt["path"] for rt, c in todo})} handlers as A x token manager as B, profile with one U2F or one WebAuthn token, B atomic after A\'s load', verdict, paths=npaths, witness=f'{nsched} interleaved schedules, {njudged} with both saves', t=time.time() - t)
    if covered: chk.notes.append('lost-update: handlers whose load-modify-save is inside a unit driven on its own: ' + ', '.join(f'{k} (via {v})' for k, v in sorted(covered.items())))
    if skipped: chk.notes.append('lost-update: handlers as request A explored in the thorough tier only: ' + ', '.join(skipped))
    chk.sample({'obligation': 'lost-update', 'per_root': per_root, 'A': sorted({rt['path'] for rt, c in todo}), 'schedules': nsched, 'judged': njudged})


def ob_double_spend_totp(chk, ir):
    """two presentations of the same TOTP code for the same user at the same instant: B (validateUserTOTP) is scheduled after every lock
    release / profile load / profile save of A (validateUserTOTP); at most one of them returns true."""
    t = time.time()
    if totpk.NAME not in ir.funcs: chk.obligation('double-spend-totp', '-', 'inconclusive', 'ANCHOR-LOST ' + totpk.NAME); return
    H, secret = totpk.setup(ir, ndev=1, budget=300); ex = H.ex
    st, state, w, r = H.mkstate(); st.aux['stateptr'] = state
    tt = z3.BitVec('t', lib.TW); code = z3.String('code')
    st.pc += [tt >= lib.T(1577836800 * 10**9), tt <= lib.T(3976214400 * 10**9)]
    load, save = store.install(H, initial=lambda ex_, s, user: store.concrete_profile(ex_, s, {'U2fAuthData': 0, 'WebauthnData': 0, 'TOTPAuthData': 1}), single=U)
    results = {}
    def on_ret(ex_, s, vals):
        s.ev('totp.result', ok=vals[0])
    ex.on_return[totpk.NAME] = on_ret
    def make_b(ex_, s2):
        return totpk.NAME, [state, U, z3.BitVec('otp1', 64), TimeV(tt)]
    pts = {'n': 0}
    point_ok = lambda s: True      # a B that needs a mutex A holds is pruned at its Lock (blocked)
    inject_after(H, '(*sync.Mutex).Unlock', lib.mu_unlock, point_ok, make_b)
    inject_after(H, LOAD, load, point_ok, make_b)
    inject_after(H, SAVE, save, point_ok, make_b)
    paths = totpk.call(H, st, state, U, code, tt, 1); verdict = 'holds'; ninj = 0; nboth = 0
    for p in paths:
        if p.status in ('unsupported', 'unwind'): chk.absorb(ex, paths); chk.obligation('double-spend-totp', '-', 'inconclusive', str(p.result)); return
        if p.status != 'returned' or not p.aux.get('injected'): continue
        ninj += 1
        res = [e for e in p.evs('totp.result')]
        if len(res) < 2: continue
        both = z3.And([e['ok'] for e in res])
        r_, m = ex.model_fresh(p.pc, both, 60000)
        if r_ == 'unknown': chk.absorb(ex, paths); chk.obligation('double-spend-totp', '-', 'inconclusive', 'solver unknown'); return
        if r_ == 'sat':
            nboth += 1
            inj = p.events[p.aux['injected'] - 1]
            sched = [(e['who'], e['k']) for e in p.events if e['k'] in ('lock', 'unlock', 'load', 'save', 'totp.validate', 'totp.result')]
            from_cache = any(not ex.feasible(p.pc, z3.Not(e['fromCache'])) for e in p.evs('load'))
            site = f"validateUserTOTP/B after A's {inj['k']}" + ('/offline-cache' if from_cache else '')
            out = chk.violation('double-spend-totp', site, f"the same TOTP code presented twice at the same instant is honoured twice (second presentation scheduled right after the first one's {inj['k']})", {'schedule': sched, 'model': model_dict(m) if m is not None else None})
            if out == 'new': verdict = 'violated'
            elif verdict == 'holds': verdict = 'known'
    chk.absorb(ex, paths)
    if ninj == 0: chk.obligation('double-spend-totp', '-', 'inconclusive', 'vacuous: no interleaved schedule'); return
    chk.witnesses += ninj
    chk.obligation('double-spend-totp: the same TOTP code presented twice at the same instant (second call scheduled after every lock release, profile load and profile save of the first) is honoured at most once',
                   '2 calls of validateUserTOTP, same user/code/instant, one device, B atomic at one point of A', verdict, paths=len(paths), witness=f'{ninj} interleaved schedules', t=time.time() - t)
    chk.sample({'obligation': 'double-spend-totp', 'schedules': ninj})


BOOT = f'(*{M}.RuntimeState).BootstrapOtpAuthHandler'
UPGRADE = f'(*{M}.RuntimeState).updateAuthCookieAuthlevel'


def ob_double_spend_bootstrap(chk, ir):
    """the same bootstrap OTP presented by two requests of the same user: B (BootstrapOtpAuthHandler) scheduled after every lock release,
    profile load and profile save of A (same handler); at most one of them has its session raised."""
    t = time.time()
    rt = [r for r in routes(ir) if r['handler'] == BOOT]
    if not rt: chk.obligation('double-spend-bootstrap-otp', '-', 'inconclusive', 'ANCHOR-LOST ' + BOOT); return
    rt = rt[0]
    def extra(H):
        ex = H.ex
        H.add_hints(lens(r'^range\(', [0, 1]), lens(r'OpenIDConnectIDP\.Client\)$', [0]), lens(r'Sha512Hash\)$', [0, 64]))
        H.no_inline = re.compile('|'.join(re.escape(x) + '$' for x in LU_SUMMARIES if x != 'userBootstrapOtpHash') + r'|/lib/authutil\.')
        H.stub(f'(*{M}.RuntimeState).writeFailureResponse', am.st_fail)
        load, save = store.install(H, initial=lambda ex_, s, user: store.concrete_profile(ex_, s, {'U2fAuthData': 0, 'WebauthnData': 0, 'TOTPAuthData': 0}), single=U)
        # both requests present the same value; the stored hash, while present, is the one of the initial profile: one shared verdict
        H.stub('crypto/subtle.ConstantTimeCompare', lambda ex_, st, a, ins: z3.If(z3.Bool('otp.matches'), z3.BitVecVal(1, 64), z3.BitVecVal(0, 64)))
        H.stub('crypto/sha512.Sum512', lambda ex_, st, a, ins: ex_.zero(ins['type']))
        def upgrade(ex_, st, a, ins):
            def ok(s2):
                s2.ev('session-raised', level=a[-1]); return (SV('cookie'), nilerr())
            return fork_results(ex_, st, ins, [(None, lambda s2: (SV(''), mk_error(s2, SV('cookie'), 'cookie'))), (None, ok)])
        H.stub(UPGRADE, upgrade)
        def make_b(ex_, s2):
            s2.aux['reqid'] = 2
            r2 = Ptr(s2.alloc(Lazy(H.REQ, '*r#2'))); w2 = IfaceV(H.LW, Ptr(s2.alloc(Opaque('w2'))))
            return BOOT, [s2.aux['stateptr'], w2, r2]
        point_ok = lambda s: True      # a B that needs a mutex A holds is pruned at its Lock (blocked)
        inject_after(H, '(*sync.Mutex).Unlock', lib.mu_unlock, point_ok, make_b)
        inject_after(H, LOAD, load, point_ok, make_b)
        inject_after(H, SAVE, save, point_ok, make_b)
    try:
        H, paths, path = sweep.run_route(ir, rt, budget_s=200, extra=extra, max_paths=40000, loop_bound=5)
    except Unsupported as e:
        chk.obligation('double-spend-bootstrap-otp', '-', 'inconclusive', str(e)); return
    ex = H.ex; verdict = 'holds'; ninj = 0
    for p in paths:
        if p.status in ('unsupported', 'unwind'): chk.absorb(ex, paths); chk.obligation('double-spend-bootstrap-otp', '-', 'inconclusive', str(p.result)); return
        if p.status != 'returned' or not p.aux.get('injected'): continue
        ninj += 1
        who = {e['who'] for e in p.evs('session-raised')}
        if len(who) > 1:
            inj = p.events[p.aux['injected'] - 1]
            sched = [(e['who'], e['k']) for e in p.events if e['k'] in ('lock', 'unlock', 'load', 'save', 'session-raised')]
            site = f"BootstrapOtpAuthHandler/B after A's {inj['k']}"
            confirmed = None; files = None
            if site not in [v['site'] for v in chk.violations]:
                ov = replay.storage_with_save_hook()
                if ov is not None:
                    okr, txt = replay.go_test('cmd/keymasterd', 'zz_verif_c16b_test.go', replay.GO_BOOTSTRAP_TWICE, 'TestVerifC16BootstrapTwice', extra_overlay=ov)
                    chk.replays += 1; confirmed = (okr is False) if okr is not None else None
                    files = {'zz_verif_c16b_test.go': replay.GO_BOOTSTRAP_TWICE, 'native_output.txt': txt[-3000:]}
                    if okr is True:
                        chk.absorb(ex, paths); chk.obligation('double-spend-bootstrap-otp replay', '-', 'inconclusive', 'the symbolic counterexample does not reproduce natively: encoding or stub suspected'); return
            out = chk.violation('double-spend-bootstrap-otp', site, f"the same bootstrap OTP presented by two concurrent requests raises both sessions (second request scheduled right after the first one's {inj['k']})", {'schedule': sched}, replay_files=files, confirmed=confirmed)
            if out == 'new': verdict = 'violated'
            elif verdict == 'holds': verdict = 'known'
    chk.absorb(ex, paths)
    if ninj == 0: chk.obligation('double-spend-bootstrap-otp', '-', 'inconclusive', 'vacuous: no interleaved schedule'); return
    chk.witnesses += ninj
    chk.obligation('double-spend-bootstrap-otp: one bootstrap OTP presented by two concurrent requests raises at most one session',
                   '2 requests to /api/v0/bootstrapOtpAuth, same user and value, B atomic at one lock release / load / save of A', verdict, paths=len(paths), witness=f'{ninj} interleaved schedules', t=time.time() - t)
    chk.sample({'obligation': 'double-spend-bootstrap-otp', 'schedules': ninj})


def main(chk):
    ir = chk.load_ir()
    chk.assumptions = ['sync.Mutex gives mutual exclusion and happens-before; initialisation (config load) is single-threaded and precedes every request',
                       'checkAuth admits an arbitrary identity; storage operations are atomic at LoadUserProfile / SaveUserProfile granularity (per-operation transactions)']
    chk.bounds = {'requests': 2, 'schedules': 'B runs atomically at one chosen storage/lock event of A (A-B-A interleavings); B-A-B by symmetry of roles'}
    ob_lockset(chk, ir)
    ob_lost_update(chk, ir)
    ob_double_spend_totp(chk, ir)
    ob_double_spend_bootstrap(chk, ir)


if __name__ == '__main__':
    run_check('C16', main)
