"""Gate lemma on the real checkAuth (shared by C01, C05, C06, C08, C11): executed from SSA with the identity-establishing
callees as contract stubs (authmodel).  For every successful return the lemma is decided by z3 on the path:

  L(user, bits) :=  exists verified credential c on the path with c.user = user (unexpired if a session cookie)
               and  for every factor bit m in bits: exists verified credential c with c.user = user and m in c.bits
               and  (bits & required) != 0
"""
import z3, time
from .engine import *
from .harness import *
from . import lib, authmodel as am
from .lib import M

CHECKAUTH = f'(*{M}.RuntimeState).checkAuth'
ALLBITS = [1 << i for i in range(1, 12)]


def justified(p, user, bits, now, nbits=16, interest=None):
    creds = p.evs('cred')
    def has(m=None):
        alts = []
        for c in creds:
            k = [c['user'] == user]
            if m is not None: k.append(c['bits'] & m != 0)
            if c['kind'] == 'jwt' and now is not None: k.append(c['exp'] >= now)
            alts.append(z3.And(k))
        return z3.Or(alts) if alts else z3.BoolVal(False)
    conj = [has()]
    for i in range(nbits):
        m = 1 << i
        if interest is not None and not (interest & m): continue
        conj.append(z3.Implies(bits & m != 0, has(m)))
    return z3.And(conj)


S = z3.StringSort()
ParsedHost = z3.Function('url.Parse.Host', S, S)     # host of the Origin / Referer value as net/url parses it


def request_terms(st):
    method = z3.String(lib.rk(st, '*r.Method')) if not st.aux.get('reqid') else z3.String(f'*r#{st.aux["reqid"]}.Method')
    host = z3.String('*r.Host') if not st.aux.get('reqid') else z3.String(f'*r#{st.aux["reqid"]}.Host')
    org = z3.String(lib.rk(st, 'req.Header[origin]')); ref = z3.String(lib.rk(st, 'req.Header[referer]'))
    eff = z3.If(org != z3.StringVal(''), org, ref)
    return method, host, eff


def same_site(st):
    """conclusion of the CSRF clause: a non-GET request that names an origin names this host"""
    method, host, eff = request_terms(st)
    return z3.Or(method == z3.StringVal('GET'), eff == z3.StringVal(''), host == z3.StringVal(''), ParsedHost(eff) == host)


def st_url_parse_host(ex, st, a, ins):
    """url.Parse for the gate: any URL whose Host is ParsedHost(argument) (so that the oracle can name it), or an error"""
    U = ex.ir.typeid('net/url.URL'); arg = a[0]
    def ok(s2):
        v = []
        s2.counter += 1
        for f in ex.ir.fields(U): v.append(ParsedHost(arg) if f['name'] == 'Host' else Lazy(f['type'], f'refurl!{s2.counter}.{f["name"]}'))
        return (Ptr(s2.alloc(StructV(v))), lib.nilerr())
    st.ev('url.Parse', arg=arg)
    return lib.fork_results(ex, st, ins, [(None, lambda s2: (NIL, lib.mk_error(s2, z3.StringVal('parse'), 'url.Parse'))), (None, ok)])


def run_checkauth(ir, required, cookies=(0, 1), budget_s=300, extra_hints=(), tls='any'):
    H = HandlerRun(ir, loop_bound=6, budget_s=budget_s)
    am.install(H)
    H.stub('net/url.Parse', st_url_parse_host)
    H.add_hints(lens(r'^req\.ncookies$', list(cookies)), lens(r'^len\(\*\*r\.TLS\.VerifiedChains\)$', [0, 1]),
                pin(r'^\*state\.oktaUsernameFilterRE$', NIL), *extra_hints)
    if tls == 'none': H.add_hints(pin(r'^\*r\.TLS$', NIL))
    st, state, w, r = H.mkstate()
    paths = H.ex.run(CHECKAUTH, [state, w, r, required], st)
    return H, paths


def gate_lemma(chk, ir, required, label, cookies=(0, 1), obligation='gate-lemma', site='checkAuth', interest=None):
    """returns True when the lemma was discharged on every successful path"""
    t = time.time()
    H, paths = run_checkauth(ir, required, cookies)
    ex = H.ex; nsucc = 0; verdict = 'holds'; stat = {}
    for p in paths:
        stat[p.status] = stat.get(p.status, 0) + 1
        if p.status in ('unsupported', 'unwind'):
            chk.absorb(ex, paths); chk.obligation(f'{obligation} {label}', label, 'inconclusive', p.result); return False
        if p.status == 'panic':
            r = chk.violation('no-panic', site, f'checkAuth panics: {p.result}', None)
            if r == 'new': verdict = 'violated'
    for p in paths:
        if p.status != 'returned': continue
        ai, err = p.result
        if isinstance(ai, Ptr):
            nsucc += 1
            v = ex.load(p, ai)
            AI = ir.typeid(M + '.authInfo')
            bits = ex.getfield(p, v, AI, 'AuthType'); user = ex.getfield(p, v, AI, 'Username')
            now = p.aux.get('now')
            req = required if z3.is_expr(required) else z3.BitVecVal(required, 64)
            good = z3.And(justified(p, user, bits, now, interest=interest), bits & req != 0, err_is_nil(err), same_site(p))
            r, m = ex.model(p.pc, z3.Not(good))
            if r == 'unknown':
                chk.absorb(ex, paths); chk.obligation(f'{obligation} {label}', label, 'inconclusive', 'solver unknown'); return False
            if r == 'sat':
                kinds = '+'.join(sorted({c['kind'] for c in p.evs('cred')})) or 'none'
                from .check import model_dict
                res = chk.violation(obligation, f'{site}/{kinds}', 'checkAuth admits an identity/level that no verified credential of an accepted kind established', model_dict(m))
                if res == 'new': verdict = 'violated'
                elif verdict == 'holds': verdict = 'known'
            # every failure writes a response and returns nil authInfo: checked below
        else:
            if err_is_nil(err) is True or (isinstance(err, IfaceV) and err.tid is None):
                res = chk.violation(obligation, site + '/nil-nil', 'checkAuth returns (nil, nil)', None)
                if res == 'new': verdict = 'violated'
    chk.absorb(ex, paths)
    if nsucc == 0:
        chk.obligation(f'{obligation} {label}', label, 'inconclusive', 'no admitting path (vacuous)'); return False
    chk.witnesses += nsucc
    chk.obligation(f'{obligation} {label}', label, verdict, paths=len(paths), witness=f'{nsucc} admitting paths; {stat}', t=time.time() - t)
    chk.sample({'obligation': obligation, 'config': label, 'paths': len(paths), 'admitting_paths': nsucc, 'statuses': stat})
    return verdict != 'violated'


def err_is_nil(err):
    if isinstance(err, IfaceV): return z3.BoolVal(err.tid is None)
    return z3.BoolVal(False)


def st_checkauth_any(ir):
    """stub for handler-level harnesses: checkAuth returns an error (having written a failure response) or an arbitrary authInfo
    that satisfies the lemma's conclusion for the required mask"""
    AI = ir.typeid(M + '.authInfo')
    def f(ex, st, a, ins):
        req = a[3]
        st.ev('checkAuth', required=req)
        n = len(st.evs('checkAuth'))
        def ok(s):
            bits = z3.BitVec(f'auth{n}.bits', 64); user = z3.String(f'auth{n}.user')
            ai = am.authinfo_struct(ex, s, bits, user, TimeV(z3.BitVec(f'auth{n}.exp', lib.TW)), TimeV(z3.BitVec(f'auth{n}.iat', lib.TW)))
            s.pc.append(bits & req != 0)
            s.pc.append(same_site(s))
            s.ev('admitted', bits=bits, user=user, required=req, iat=z3.BitVec(f'auth{n}.iat', lib.TW), exp=z3.BitVec(f'auth{n}.exp', lib.TW))
            return (Ptr(s.alloc(ai)), lib.nilerr())
        def bad(s):
            s.ev('fail', code=z3.BitVecVal(401, 64), msg=z3.StringVal('(checkAuth refusal)'))
            return (NIL, lib.mk_error(s, z3.StringVal('auth'), 'checkAuth'))
        return lib.fork_results(ex, st, ins, [(None, bad), (None, ok)])
    return f


AUTH_COOKIE = 'auth_cookie'


def last_auth_cookie_alts(ex, st):
    """[(condition, index, value term)] : which request cookie is the last one named auth_cookie"""
    lib.req_cookies(ex, st, [None], {})      # materialise (may raise Choice for the count)
    ptrs = st.memo[lib.rk(st, 'req.cookies')]
    T = ex.ir.typeid('net/http.Cookie'); ni = ex.ir.field_index(T, 'Name'); vi = ex.ir.field_index(T, 'Value')
    names = [ex.field(st, st.heap[p.obj], ni) for p in ptrs]; vals = [ex.field(st, st.heap[p.obj], vi) for p in ptrs]
    alts = []
    for i in range(len(ptrs)):
        c = z3.And([names[i] == z3.StringVal(AUTH_COOKIE)] + [names[j] != z3.StringVal(AUTH_COOKIE) for j in range(i + 1, len(ptrs))])
        alts.append((c, i, vals[i]))
    return alts


def st_checkauth_modes(ir):
    """refined gate stub for C05: an admission names the credential it came from - the LAST auth_cookie of the request (claims by
    Contract J), a client certificate, or basic-auth - as proved of the real checkAuth by the gate lemma + the last-cookie lemma"""
    from . import jose
    def f(ex, st, a, ins):
        req = a[3]
        alts = last_auth_cookie_alts(ex, st)
        st.ev('checkAuth', required=req)
        n = len(st.evs('checkAuth'))
        def mk(s, user, bits, how, **kw):
            ai = am.authinfo_struct(ex, s, bits, user, TimeV(z3.BitVec(f'auth{n}.exp', lib.TW)), TimeV(z3.BitVec(f'auth{n}.iat', lib.TW)))
            s.pc.append(bits & req != 0); s.pc.append(same_site(s))
            s.ev('admitted', bits=bits, user=user, required=req, how=how, **kw)
            return (Ptr(s.alloc(ai)), lib.nilerr())
        def bad(s):
            s.ev('fail', code=z3.BitVecVal(401, 64), msg=z3.StringVal('(checkAuth refusal)'))
            return (NIL, lib.mk_error(s, z3.StringVal('auth'), 'checkAuth'))
        out = [(None, bad)]
        for c, i, tok in alts:
            def cookie_mode(s, tok=tok):
                t = jose.tokid(tok)
                s.pc.append(jose.Verifies(tok)); s.pc.append(z3.String(f'jwt[{t}].token_type') == z3.StringVal('keymaster_auth'))
                return mk(s, z3.String(f'jwt[{t}].sub'), z3.BitVec(f'jwt[{t}].auth_type', 64), 'cookie', token=tok)
            out.append((c, cookie_mode))
        out.append((None, lambda s: mk(s, z3.String(f'cert{n}.user'), z3.BitVec(f'cert{n}.bits', 64), 'certificate')))
        none_named = z3.And([z3.Not(c) for c, i, tok in alts]) if alts else None      # basic-auth is only consulted when no auth_cookie is present
        out.append((none_named, lambda s: mk(s, z3.String(lib.rk(s, 'basic.user.normalised')), z3.BitVecVal(am.PASSWORD, 64), 'basic-auth')))
        return lib.fork_results(ex, st, ins, out)
    return f
