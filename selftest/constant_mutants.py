import sys, importlib.util, json, concurrent.futures as cf
spec = importlib.util.spec_from_file_location('ms', '/verif/tools/mutation_selftest.py'); ms = importlib.util.module_from_spec(spec); spec.loader.exec_module(ms)
ms.TMP = '/tmp/mutc'
M = [('C03', 'cmd/keymasterd/certgen.go', 'maxCertificateLifetime = time.Hour * 24', 'maxCertificateLifetime = time.Hour * 48'),
     ('C12', 'cmd/keymasterd/app.go', 'const maxAgeSecondsAuthCookie = 16 * 3600', 'const maxAgeSecondsAuthCookie = 32 * 3600'),
     ('C12', 'cmd/keymasterd/idp_oidc.go', 'const idpOpenIDCMaxAuthProcessMaxDurationSeconds = 300', 'const idpOpenIDCMaxAuthProcessMaxDurationSeconds = 600'),
     ('C14', 'cmd/keymasterd/2fa_totp.go', 'const minSecsBetweenTOTPValidations = 2', 'const minSecsBetweenTOTPValidations = 1'),
     ('C14', 'cmd/keymasterd/2fa_totp.go', 'const numFailedTOTPChecksForTimeoutIncrease = 5', 'const numFailedTOTPChecksForTimeoutIncrease = 10'),
     ('C03', 'cmd/keymasterd/roleRequestingCert.go', 'const maxRoleRequestingCertDuration = time.Hour * 24 * 45', 'const maxRoleRequestingCertDuration = time.Hour * 24 * 90'),
     ('C19', 'cmd/keymaster/main.go', 'const rsaKeySize = 3072', 'const rsaKeySize = 1024'),
     ('C07', 'lib/pwauth/ldap/impl.go', 'const defaultCacheDuration = time.Hour * 96', 'const defaultCacheDuration = time.Hour * 192'),
     ('C20', 'eventmon/eventrecorder/impl.go', 'durationMonth = time.Hour * 24 * 31', 'durationMonth = time.Hour * 24 * 62'),
     ('C16', 'cmd/keymasterd/2fa_totp.go', 'const minSecsBetweenTOTPValidations = 2', 'const minSecsBetweenTOTPValidations = 0'),
     ('C04', 'cmd/keymasterd/app.go', 'const maxAgeSecondsAuthCookie = 16 * 3600', 'const maxAgeSecondsAuthCookie = 160 * 3600')]
jobs = []
for i, (pid, path, old, new) in enumerate(M):
    lines = open('/repo/' + path).read().split('\n')
    ln = [k for k, l in enumerate(lines) if old in l]
    if not ln: print('NOT FOUND', path, old); continue
    jobs.append((500 + i, pid, path, 'const', ln[0] + 1, 'const', lines[ln[0]].replace(old, new)))
with cf.ThreadPoolExecutor(3) as ex:
    for res in ex.map(ms.run_one, jobs):
        tag = 'NOBUILD' if not res.get('builds') else {1: 'KILLED', 0: 'SURVIVED', 2: 'INCONCLUSIVE'}.get(res.get('exit'), 'ERROR')
        print(tag, res['property'], res['file'], '|', res['new'][:70], '|', (res.get('violations') or res.get('inconclusive') or [''])[0][:100], flush=True)
