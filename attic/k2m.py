import k2_lib, json
fn = k2_lib.ir.funcs['(*github.com/Cloud-Foundations/keymaster/cmd/keymasterd.RuntimeState).certGenHandler']
n = 0
for b in fn['blocks']:
    for ins in b['instrs']:
        if ins['op'] == 'BinOp' and ins['tok'] in ('&','==') and isinstance(ins['y'],dict) and ins['y'].get('int') == '64':
            ins['y']['int'] = '2'; n += 1   # TOTP arm now tests the password bit
print('mutated', n, 'instr (first only matters)')
k2_lib.main((1, 2))
