"""copyDBIntoSQLite over a relational model with a symbolic fault position (spike)"""
import time, z3, re
from ir import IR
from symx import *
ir = IR('/tmp/spike/ir')
M = 'github.com/Cloud-Foundations/keymaster/cmd/keymasterd'
STR = ir.typeid('string')
def nilerr(): return IfaceV(None, None)
def someerr(): return IfaceV(STR, Opaque('err'))
SAVE = "insert or replace into user_profile(username, profile_data) values(?, ?)"
SAVES = "insert or replace into expiring_signed_user_data(username, type, jws_data, expiration_epoch, update_epoch) values(?,?, ?, ?, ?)"
def lookup(tab, key):
    """tab: list of (name, blob, present) later entries win; returns (present, blob) as ite chain"""
    pres = z3.BoolVal(False); blob = z3.StringVal('')
    for n, b, p in tab:
        hit = (n == key)
        pres = z3.If(hit, p, pres); blob = z3.If(hit, b, blob)
    return pres, blob
def run(nsrc, ndst, lazy_query=True):
    ex = Exec(ir, {}); ex.ignore = re.compile(r'log\.DebugLogger\.')
    st = State()
    fault_at = z3.Int('fault_at')
    src = [(z3.String(f'src{i}.name'), z3.String(f'src{i}.blob')) for i in range(nsrc)]
    dst = [(z3.String(f'dst{i}.name'), z3.String(f'dst{i}.blob'), z3.BoolVal(True)) for i in range(ndst)]
    st.pc += [z3.Distinct(*[n for n, _ in src])] if nsrc > 1 else []
    st.pc += [z3.Distinct(*[n for n, _, _ in dst])] if ndst > 1 else []
    db = {'k': 0, 'dst': list(dst), 'overlay': None, 'committed': False}
    st.heap['DB'] = db
    def DB(st): return st.heap['DB']
    def faulty(ex, st, ins, okval, errval):
        d = DB(st); d['k'] += 1; k = d['k']
        out = []
        for cnd, v in ((fault_at == k, errval), (fault_at != k, okval)):
            if ex.feasible(st.pc, cnd):
                s2 = st.fork(); s2.pc.append(cnd)
                val = v(s2) if callable(v) else v
                s2.frames[-1].regs[ins['reg']] = val; out.append(s2)
        return out
    def q(ex, st, args, ins):
        h, sql = args[0], z3.simplify(args[1])
        sql = sql.as_string() if z3.is_string_value(sql) else 'SELECT ... expiring'   # the Sprintf one
        def ok(s2):
            if sql.startswith('SELECT username,profile_data'): return (Ptr(s2.alloc({'rows': list(src), 'i': -1})), nilerr())
            if sql.startswith('SELECT'): return (Ptr(s2.alloc({'rows': [], 'i': -1})), nilerr())
            if sql.startswith('DELETE from user_profile'):
                if not lazy_query: DB(s2)['dst'] = []        # eager driver: delete takes effect now, outside the tx
                return (Ptr(s2.alloc({'rows': [], 'i': -1, 'pending': 'delete'})), nilerr())
            raise Unsupported('sql ' + sql)
        return faulty(ex, st, ins, ok, (NIL, someerr()))
    def rows_next(ex, st, args, ins):
        r = st.heap[args[0].obj]; r['i'] += 1
        if r.get('pending') == 'delete': DB(st)['dst'] = []; r['pending'] = None
        return z3.BoolVal(r['i'] < len(r['rows']))
    def rows_scan(ex, st, args, ins):
        r = st.heap[args[0].obj]; row = r['rows'][r['i']]; dests = args[1]
        for j in range(dests.len):
            p = ex.load(st, Ptr(dests.obj, (dests.off + j,))).val
            v = row[j]
            if j == 1:  # []byte column
                o = Opaque('bytes'); o.of = v; v = o
            ex.store(st, p, v)
        return nilerr()
    def begin(ex, st, args, ins):
        def ok(s2): DB(s2)['overlay'] = []; return (Ptr(s2.alloc({'tx': True})), nilerr())
        return faulty(ex, st, ins, ok, (NIL, someerr()))
    def prepare(ex, st, args, ins):
        sql = z3.simplify(args[1]).as_string()
        return faulty(ex, st, ins, lambda s2: (Ptr(s2.alloc({'stmt': sql})), nilerr()), (NIL, someerr()))
    def stmt_exec(ex, st, args, ins):
        sql = st.heap[args[0].obj]['stmt']; a = args[1]
        vals = [ex.load(st, Ptr(a.obj, (a.off + j,))).val for j in range(a.len)]
        def ok(s2):
            if sql == SAVE:
                blob = vals[1].of if isinstance(vals[1], Opaque) else vals[1]
                DB(s2)['overlay'].append((vals[0], blob, z3.BoolVal(True)))
            return (Opaque('result'), nilerr())
        return faulty(ex, st, ins, ok, (NIL, someerr()))
    def commit(ex, st, args, ins):
        def ok(s2): d = DB(s2); d['dst'] = d['dst'] + d['overlay']; d['overlay'] = None; d['committed'] = True; return nilerr()
        return faulty(ex, st, ins, ok, someerr())
    def rollback(ex, st, args, ins):
        d = DB(st)
        if not d['committed']: d['overlay'] = None
        return nilerr()
    ex.stubs = {
        '(*database/sql.DB).Query': q, '(*database/sql.Rows).Next': rows_next, '(*database/sql.Rows).Scan': rows_scan,
        '(*database/sql.Rows).Close': lambda *a: nilerr(), '(*database/sql.Rows).Err': lambda *a: nilerr(),
        '(*database/sql.DB).Begin': begin, '(*database/sql.Tx).Prepare': prepare, '(*database/sql.Stmt).Exec': stmt_exec,
        '(*database/sql.Stmt).Close': lambda *a: nilerr(), '(*database/sql.Tx).Commit': commit, '(*database/sql.Tx).Rollback': rollback,
        'time.Now': lambda *a: Opaque('now'), '(time.Time).Unix': lambda *a: z3.BitVec('nowu', 64),
        'fmt.Sprintf': lambda ex, st, a, ins: (z3.StringVal('DELETE from user_profile ') if 'DELETE' in str(a[0]) else z3.String('fmtsql')),
        'errors.New': lambda *a: someerr(),
        'globals': {},
    }
    def g_init(name):
        def f(ex): return None
        return f
    # package-level statement tables (would come from executing init)
    def mk_map(ex_, st_, entries, elem):
        return MapV(st_.alloc({'sym': None, 'elem': elem, 'entries': [(str(z3.StringVal(k)), z3.StringVal(v), z3.BoolVal(True)) for k, v in entries.items()]}))
    st.heap['G'] = {}
    for gname, tbl in ((f'{M}.saveUserProfileStmt', {'sqlite': SAVE}), (f'{M}.saveSignedUserDataStmt', {'sqlite': SAVES})):
        st.heap['G'][gname] = st.alloc(mk_map(ex, st, tbl, STR))
    out = ex.run(f'{M}.copyDBIntoSQLite', [Ptr(st.alloc(Opaque('srcdb'))), Ptr(st.alloc(Opaque('dstdb'))), z3.StringVal('sqlite')], st)
    return ex, out, src, dst, fault_at
for lazy in (True, False):
    for nsrc, ndst in ((1, 1), (2, 2)):
        t = time.time()
        try: ex, out, src, dst, fault_at = run(nsrc, ndst, lazy)
        except Unsupported as e: print('UNSUPPORTED', e); raise SystemExit
        probe = z3.String('probe'); mixture = 0; notmirror = 0; cex = None
        for s in out:
            if s.status != 'returned': print('  ', s.status, s.result); continue
            err = s.result[0]; final = s.heap['DB']['dst']
            fp, fb = lookup(final, probe); op, ob = lookup(list(dst), probe); np_, nb = lookup([(n, b, z3.BoolVal(True)) for n, b in src], probe)
            same_old = z3.And(fp == op, z3.Implies(fp, fb == ob)); same_new = z3.And(fp == np_, z3.Implies(fp, fb == nb))
            if err.tid is None:   # success: must equal the primary
                r, m = ex.model(s.pc, z3.Not(same_new))
                if r == z3.sat: notmirror += 1; cex = cex or ('success-but-differs', m[probe])
            else:                 # failure: old or new for every key
                r, m = ex.model(s.pc, z3.And(z3.Not(same_old), z3.Not(same_new)))
                if r == z3.sat: mixture += 1; cex = cex or ('mixture', m[probe], m[fault_at])
        print(f'driver={"lazy(sqlite)" if lazy else "eager"} src={nsrc} dst={ndst}: paths={len(out)} not-mirrored(success)={notmirror} mixture(failure)={mixture} queries={ex.nq} wall={time.time()-t:.1f}s', cex or '')
