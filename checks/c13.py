"""C13 — authorization codes are redirected only to the client's own https hosts.

CanRedirectToURL, CorsOriginAllowed and idpOpenIDCGenericIsCorsOriginAllowed executed from SSA.  url.Parse is over-approximated
(any *url.URL or an error), (*URL).Hostname() is the library's host-without-port function (uninterpreted: the oracle speaks about the
same term), configured URL patterns are symbolic match outcomes, configured domains are arbitrary non-empty strings.
Oracle: accepted => scheme https, empty query, no ".." in the path, (domains configured => hostname = d or ends with "."+d for some d),
(patterns configured => one matched), something configured.
"""
import time, z3, re
from symx.check import run_check, term, model_dict
from symx.engine import *
from symx.harness import *
from symx import lib, replay
from symx.lib import M

SV = z3.StringVal
S = z3.StringSort()
Hostname = z3.Function('url.URL.Hostname', S, S)


def run_fn(chk, ir, fname, ndom, nre, kind):
    H = HandlerRun(ir, loop_bound=max(ndom, nre) + 4, budget_s=120); ex = H.ex
    H.extra_inline = re.compile('NEVER')
    doms = [z3.String(f'domain{i}') for i in range(ndom)]
    res = [z3.String(f'pattern{i}') for i in range(nre)]
    matched = [z3.Bool(f'pattern{i}.matches') for i in range(nre)]
    def re_match(ex_, s, a, ins):
        i = len(s.evs('re')); s.ev('re', pattern=a[0], subject=a[1])
        idx = [j for j in range(nre) if z3.is_true(z3.simplify(a[0] == res[j]))] if nre else []
        b = matched[idx[0]] if idx else z3.Bool(lib.fresh_name(s, 're'))
        return lib.fork_results(ex_, s, ins, [(None, lambda s2: (z3.BoolVal(False), lib.mk_error(s2, SV('re'), 're'))), (None, (b, lib.nilerr()))])
    H.stub('regexp.MatchString', re_match)
    def hostname(ex_, s, a, ins):
        U = ir.typeid('net/url.URL'); u = ex_.load(s, a[0])
        return Hostname(ex_.getfield(s, u, U, 'Host'))
    H.stub('(*net/url.URL).Hostname', hostname)
    H.stub('(*net/url.URL).EscapedPath', lambda ex_, s, a, ins: z3.Function('url.URL.EscapedPath', S, S)(z3.String('urlterm')))
    if kind == 'client': st = State()
    else: st, state, w, r = H.mkstate()
    for d in doms: st.pc.append(d != SV(''))          # an empty configured domain is an operator error (admits every host by construction)
    arg = z3.String('redirect_uri')
    if kind == 'client':
        CT = ir.typeid(M + '.OpenIDConnectClientConfig'); v = []
        for f in ir.fields(CT):
            if f['name'] == 'AllowedRedirectDomains': v.append(ex.mkslice(st, doms))
            elif f['name'] == 'AllowedRedirectURLRE': v.append(ex.mkslice(st, res))
            else: v.append(Lazy(f['type'], 'client.' + f['name']))
        recv = Ptr(st.alloc(StructV(v)))
        paths = ex.run(fname, [recv, arg], st)
    else:
        CT = ir.typeid(M + '.OpenIDConnectClientConfig')
        def client(i, ds):
            v = []
            for f in ir.fields(CT):
                if f['name'] == 'AllowedRedirectDomains': v.append(ex.mkslice(st, ds))
                else: v.append(Lazy(f['type'], f'client{i}.' + f['name']))
            return StructV(v)
        clients = [client(0, doms[:1]), client(1, doms[1:])] if ndom >= 2 else [client(0, doms)]
        H.add_hints(pin(r'OpenIDConnectIDP\.Client$', lambda ex_, s, tid, name: ex_.mkslice(s, [clone(c) for c in clients])))
        paths = ex.run(fname, [state, arg], st)
    return H, paths, doms, matched, arg


def oracle(ir, ex, p, doms, matched, full):
    # the URL object returned by url.Parse on this path
    ups = [e for e in p.evs('url.Parse')]
    if not ups: return None
    tag = 'urlparse(' + z3.simplify(ups[-1]['arg']).sexpr()[:80] + ')'
    Host = z3.String(f'{tag}.Host'); Scheme = z3.String(f'{tag}.Scheme'); RawQuery = z3.String(f'{tag}.RawQuery'); Path = z3.String(f'{tag}.Path')
    hn = Hostname(Host)
    dom_ok = z3.Or([z3.Or(hn == d, z3.SuffixOf(z3.Concat(SV('.'), d), hn)) for d in doms]) if doms else z3.BoolVal(True)
    conj = [Scheme == SV('https'), dom_ok]
    if full:
        conj += [RawQuery == SV(''), z3.Not(z3.Contains(Path, SV('..')))]
        conj.append(z3.Or(matched) if matched else z3.BoolVal(True))
        conj.append(z3.BoolVal(bool(doms) or bool(matched)))
    return conj, {'Host': Host, 'Scheme': Scheme, 'RawQuery': RawQuery, 'Path': Path}


def main(chk):
    ir = chk.load_ir()
    from symx import selfcheck
    selfcheck.obligation(chk, {'strings'}, ir)      # hostnameInDomain etc.: encoding vs native build on concrete host / domain pairs
    quick = chk.tier == 'quick'
    confs = [(0, 0), (1, 0), (2, 0), (0, 1), (1, 1), (2, 2)] if quick else [(d, r) for d in range(0, 4) for r in range(0, 3)]
    chk.bounds = {'domains x patterns': confs, 'strings': 'unbounded (sequence theory)'}
    chk.assumptions = ['url.Parse over-approximated: any URL structure or an error', '(*URL).Hostname() = the library\'s host-without-port function (uninterpreted)',
                       'configured patterns: symbolic match outcomes; configured domains non-empty']
    targets = [(f'(*{M}.OpenIDConnectClientConfig).CanRedirectToURL', 'client', True, 'redirect'),
               (f'(*{M}.OpenIDConnectClientConfig).CorsOriginAllowed', 'client', False, 'cors-client'),
               (f'(*{M}.RuntimeState).idpOpenIDCGenericIsCorsOriginAllowed', 'state', False, 'cors-generic')]
    for fname, kind, full, label in targets:
        if fname not in ir.funcs: chk.obligation(label, '-', 'inconclusive', 'ANCHOR-LOST ' + fname); continue
        t = time.time(); verdict = 'holds'; total = 0; nacc = 0
        for nd, nr in confs:
            if not full and nr: continue
            if not full and nd == 0: continue
            H, paths, doms, matched, arg = run_fn(chk, ir, fname, nd, nr, kind); ex = H.ex; total += len(paths)
            for p in paths:
                if p.status == 'panic':
                    if chk.violation('no-panic', label, 'panics: ' + p.result, None) == 'new': verdict = 'violated'
                    continue
                if p.status != 'returned': chk.absorb(ex, paths); chk.obligation(label, f'{nd}x{nr}', 'inconclusive', p.result); break
                ok = p.result[0]; err = p.result[-1]
                if not (isinstance(err, IfaceV) and err.tid is None): continue
                if not ex.feasible(p.pc, ok): continue
                nacc += 1
                o = oracle(ir, ex, p, doms, matched, full)
                if o is None:
                    if chk.violation(label, label + '/unparsed', 'accepts without parsing the URL', None) == 'new': verdict = 'violated'
                    continue
                conj, f = o
                for i, c in enumerate(conj):
                    r_, m = ex.model_fresh(list(p.pc) + [ok], z3.Not(c), 60000)
                    if r_ == 'unknown': chk.obligation(label, f'{nd}x{nr}', 'inconclusive', 'solver unknown'); break
                    if r_ == 'sat':
                        what = ['scheme is not https', 'host is neither a configured domain nor a subdomain of one (dot boundary)', 'query string present', 'parent-directory segment in the path', 'no configured pattern matched', 'nothing configured'][i]
                        md = {k: str(m.eval(v, model_completion=True)) for k, v in f.items()}; md.update({f'domain{j}': str(m.eval(d, model_completion=True)) for j, d in enumerate(doms)})
                        md['hostname'] = str(m.eval(Hostname(f['Host']), model_completion=True))
                        rep = None
                        if i == 1 and full: rep = replay_redirect(chk, md, doms)
                        if rep is False: chk.obligation(label, f'{nd}x{nr}', 'inconclusive', f'ENCODER-MISMATCH {md}'); break
                        if chk.violation(label, f'{label}/{what}', f'accepted although {what}', md, confirmed=rep) == 'new': verdict = 'violated'
            chk.absorb(ex, paths)
        if nacc == 0: chk.obligation(label, '-', 'inconclusive', 'vacuous: nothing accepted'); continue
        chk.witnesses += nacc
        chk.obligation(f'{label}: accepted => https' + (', no query, no "..", pattern matched' if full else '') + ', host = domain or subdomain of one', f'domains x patterns {confs}', verdict, paths=total, witness=f'{nacc} accepting paths', t=time.time() - t)
        chk.sample({'obligation': label, 'paths': total, 'accepting': nacc})


def unq(s):
    s = s.strip('"')
    return re.sub(r'\\u\{([0-9a-fA-F]+)\}', lambda m: chr(int(m.group(1), 16)), s)


def replay_redirect(chk, md, doms):
    host = unq(md['hostname']); d0 = [unq(md[f'domain{j}']) for j in range(len(doms))]
    if not re.fullmatch(r'[A-Za-z0-9.\-]+', host) or not all(re.fullmatch(r'[A-Za-z0-9.\-]+', d) for d in d0): return None
    src = GO_REDIRECT.replace('@URL@', f'https://{host}/cb').replace('@DOMAINS@', ', '.join('"%s"' % d for d in d0))
    ok, out = replay.go_test('cmd/keymasterd', 'zz_verif_c13_test.go', src, 'TestVerifC13Replay'); chk.replays += 1
    return None if ok is None else (not ok)


GO_REDIRECT = r'''package main

import (
	"strings"
	"testing"
)

// generated by /verif (C13 replay): fails when a host that is neither a configured domain nor a subdomain of one is accepted
func TestVerifC13Replay(t *testing.T) {
	client := OpenIDConnectClientConfig{AllowedRedirectDomains: []string{@DOMAINS@}}
	ok, u, err := client.CanRedirectToURL("@URL@")
	if err != nil || !ok {
		return
	}
	for _, d := range client.AllowedRedirectDomains {
		if u.Hostname() == d || strings.HasSuffix(u.Hostname(), "."+d) {
			return
		}
	}
	t.Fatalf("redirect to %s accepted for domains %v", "@URL@", client.AllowedRedirectDomains)
}
'''

if __name__ == '__main__':
    run_check('C13', main)
