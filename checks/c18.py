"""C18 — request-controlled text is never rendered as markup.

html/template auto-escapes ordinary fields (library contract); what can go wrong in first-party code is a value *converted to*
template.HTML / JS / URL / HTMLAttr / CSS, which bypasses escaping.  The check therefore:
 1. sweeps every route (route table from main's SSA) and, at every template execution, takes each raw-markup field of the data value
    (found from the struct's static field types in the IR).  Its string term is flattened: constant pieces are first-party markup, every
    non-constant piece X must be, under the path condition, provably free of the five markup-significant bytes  " ' < > &  (z3 validity) -
    which holds for the output of html.EscapeString / template.HTMLEscapeString (contract) and for base64 text (alphabet contract).
 2. kernel: the value that reaches VALUE="..." for an arbitrary login destination (ensureHTMLSafeLoginDestination + what the pages do with
    it) contains no markup-significant byte; counterexamples are replayed through the real function.
"""
import time, z3, re
from symx.check import run_check, term, model_dict
from symx.engine import *
from symx.harness import *
from symx import lib, authmodel as am, gate, sweep, replay
from symx.lib import M

SV = z3.StringVal
BAD = ['"', "'", '<', '>', '&']
RAW_TYPES = ('html/template.HTML', 'html/template.JS', 'html/template.URL', 'html/template.HTMLAttr', 'html/template.CSS', 'html/template.JSStr', 'html/template.Srcset')
B64 = z3.Star(z3.Union(z3.Range(SV('A'), SV('Z')), z3.Range(SV('a'), SV('z')), z3.Range(SV('0'), SV('9')), z3.Re(SV('+')), z3.Re(SV('/')), z3.Re(SV('=')), z3.Re(SV('-')), z3.Re(SV('_'))))


def inert(x):
    return z3.And([z3.Not(z3.Contains(x, SV(c))) for c in BAD])


def st_escape(ex, st, a, ins):
    st.counter += 1
    o = z3.String(f'htmlescaped!{st.counter}')
    st.pc.append(inert_escaped(o))
    st.ev('escape', arg=a[0], out=o)
    return o


def inert_escaped(o):
    # output of html.EscapeString: no raw " ' < > ; every & starts an entity - the oracle only needs the first four plus "& is followed by an entity",
    # modelled as: no raw quote / angle bracket (the ampersands it contains are entity starts by contract)
    return z3.And([z3.Not(z3.Contains(o, SV(c))) for c in ['"', "'", '<', '>']])


def st_b64(ex, st, a, ins):
    st.counter += 1
    o = z3.String(f'base64!{st.counter}'); st.pc.append(z3.InRe(o, B64)); return o


def flatten(t):
    t = z3.simplify(t)
    if z3.is_app(t) and t.decl().kind() == z3.Z3_OP_SEQ_CONCAT:
        out = []
        for c in t.children(): out += flatten(c)
        return out
    return [t]


def raw_fields(ir, ex, st, data):
    """(field name, string term) for every raw-markup typed field of a template data value (one level of nesting into slices of structs)"""
    out = []
    v = data.val if isinstance(data, IfaceV) else data
    tid = data.tid if isinstance(data, IfaceV) else None
    if isinstance(v, Ptr) and tid is not None and not str(tid).startswith('dyn:'):
        v = ex.load(st, v); tid = ir.T(tid)['elem']
    if not isinstance(v, StructV) or tid is None or str(tid).startswith('dyn:'): return out
    for i, f in enumerate(ir.fields(tid)):
        ts = ir.tstr(f['type'])
        if ts in RAW_TYPES:
            x = ex.field(st, v, i)
            out.append((f['name'], x))
        elif ir.kind(f['type']) == 'slice':
            et = ir.under(f['type'])[1]['elem']
            if ir.kind(et) == 'struct' and any(ir.tstr(g['type']) in RAW_TYPES for g in ir.fields(et)):
                sl = ex.field(st, v, i)
                try:
                    for el in ex.slice_values(st, sl):
                        for j, g in enumerate(ir.fields(et)):
                            if ir.tstr(g['type']) in RAW_TYPES: out.append((f'{f["name"]}[].{g["name"]}', ex.field(st, el, j)))
                except Choice: pass
    return out


SUMMARIES = ['userHasU2FTokens', 'trySelfServiceGenerateBootstrapOTP', 'userBootstrapOtpHash', 'getRequiredWebUIAuthLevel']


def ob_sweep(chk, ir):
    t = time.time(); verdict = 'holds'; total = 0; nroutes = 0; nsinks = 0; seen_sinks = {}
    reach = {}
    shared = re.compile(r'\.(writeFailureResponse|writeHTMLLoginPage|writeHTML2FAAuthPage)$')
    for rt in routes(ir):
        h = rt['handler']
        if isinstance(h, str) and h in ir.funcs:
            fs = ir.reachable([h], within=lambda f: not shared.search(f)); reach[h] = set().union(*[ir.static_callees(f) for f in fs]) if fs else set()
    for rt in routes(ir):
        h = rt['handler']
        if not isinstance(h, str) or h not in ir.funcs: continue
        if not any('template.Template).Execute' in c for c in reach.get(h, ())): continue
        out = {'bad': []}
        def extra(H):
            H.no_inline = re.compile('|'.join(re.escape(x) + '$' for x in SUMMARIES))
            H.stub(f'(*{M}.RuntimeState).writeFailureResponse', am.st_fail)        # the shared failure pages are checked once, below
            H.stub(f'(*{M}.RuntimeState).writeHTMLLoginPage', lambda ex, st, a, ins: st.ev('page', kind='login') and None)
            H.stub(f'(*{M}.RuntimeState).writeHTML2FAAuthPage', lambda ex, st, a, ins: (st.ev('page', kind='2fa'), lib.nilerr())[1])
            H.add_hints(lens(r'AllowedAuthBackendsFor(Certs|WebUI)\)$', [0]), lens(r'^len\(\*r\.Header\[', [1]), lens(r'^range\(', [0, 1]), lens(r'^len\(', [0, 1]))
            H.stub('html.EscapeString', st_escape); H.stub('html/template.HTMLEscapeString', st_escape)
            H.stub_pat(r'encoding/base64\.Encoding\)\.EncodeToString$', st_b64)
            def tmpl(ex, st, a, ins):
                data = a[3] if len(a) > 3 else a[2]
                name = a[2] if len(a) > 3 else None
                st.ev('template', name=name, data=data)
                for fname, x in raw_fields(ir, ex, st, data):
                    key = (term(name, 40), fname)
                    if not (z3.is_expr(x) and z3.is_string(x)):
                        out['bad'].append((key, 'raw-markup field is not a string term', None)); continue
                    for piece in flatten(x):
                        if z3.is_string_value(piece): continue
                        if z3.is_const(piece) and str(piece).startswith(('htmlescaped!', 'base64!')): r_, m = 'unsat', None
                        else: r_, m = ex.model_fresh(st.pc, z3.Not(inert(piece)), 30000)
                        seen_sinks[key] = seen_sinks.get(key, 0) + 1
                        if r_ == 'sat': out['bad'].append((key, f'non-constant piece {term(piece, 100)} of a raw-markup value may contain markup characters', m))
                        elif r_ == 'unknown': out['bad'].append((key, 'solver unknown', 'unknown'))
                raise PathCut('sink stop: template rendered')
            for nm in ('(*html/template.Template).ExecuteTemplate', '(*html/template.Template).Execute', '(*text/template.Template).ExecuteTemplate'):
                H.stub(nm, tmpl)
        try:
            H, paths, path = sweep.run_route(ir, rt, budget_s=600, extra=extra, max_paths=30000)
        except Unsupported as e:
            chk.obligation(f'markup sinks {rt["path"]}', '-', 'inconclusive', str(e)); continue
        if paths is None: continue
        nroutes += 1; total += len(paths)
        bad = [p for p in paths if p.status in ('unsupported', 'unwind')]
        if bad: chk.absorb(H.ex, paths); chk.obligation(f'markup sinks {rt["path"]}', '-', 'inconclusive', bad[0].result); continue
        nsinks += sum(1 for p in paths if p.evs('template'))
        for key, what, m in out['bad']:
            if m == 'unknown': chk.obligation(f'markup sinks {rt["path"]}', '-', 'inconclusive', 'solver unknown'); continue
            if chk.violation('raw-markup-sinks', f"{rt['path']} template {key[0]} field {key[1]}", what, model_dict(m) if m is not None else None) == 'new': verdict = 'violated'
        chk.absorb(H.ex, paths)
    if nsinks == 0: chk.obligation('raw-markup-sinks', '-', 'inconclusive', 'vacuous: no template execution reached'); return
    chk.witnesses += nsinks
    chk.obligation('raw-markup-sinks: every non-constant piece of every template.HTML/JS/URL/... value is provably free of " \' < > &', f'{nroutes} routes that can execute a template, all inputs', verdict, paths=total,
                   witness=f'{nsinks} rendering paths; raw-markup fields seen: ' + ', '.join(f'{k[0]}.{k[1]}' for k in sorted(seen_sinks)), t=time.time() - t)
    chk.sample({'obligation': 'raw-markup-sinks', 'routes': nroutes, 'fields': [f'{k[0]}.{k[1]}' for k in sorted(seen_sinks)]})


GO_ESC = r'''package main

import (
	"strings"
	"testing"
)

// generated by /verif (C18 replay): fails when the value placed inside VALUE="..." of the login pages can break out of the attribute
func TestVerifC18Replay(t *testing.T) {
	for _, dest := range []string{"/?\"><script>alert(1)</script>", "x:\"><b>", "/a\"b", "/<i>"} {
		got := ensureHTMLSafeLoginDestination(dest)
		if strings.ContainsAny(got, "\"<>") {
			t.Fatalf("destination %q reaches the page as %q", dest, got)
		}
	}
}
'''


def ob_kernel(chk, ir):
    t = time.time(); name = f'{M}.ensureHTMLSafeLoginDestination'
    if name not in ir.funcs: chk.obligation('destination-attribute', '-', 'inconclusive', 'ANCHOR-LOST ' + name); return
    H = HandlerRun(ir, loop_bound=6, budget_s=60); ex = H.ex
    H.stub('html.EscapeString', st_escape); H.stub('html/template.HTMLEscapeString', st_escape)
    dest = z3.String('login_destination')
    paths = ex.run(name, [dest], State()); verdict = 'holds'; n = 0
    for p in paths:
        if p.status != 'returned': chk.absorb(ex, paths); chk.obligation('destination-attribute', '-', 'inconclusive', p.result); return
        res = p.result[0]; n += 1
        for piece in flatten(res):
            if z3.is_string_value(piece):
                if any(c in piece.as_string() for c in '"<>'):
                    if chk.violation('destination-attribute', 'ensureHTMLSafeLoginDestination', 'constant with markup characters', None) == 'new': verdict = 'violated'
                continue
            r_, m = ex.model_fresh(p.pc, z3.Not(z3.And([z3.Not(z3.Contains(piece, SV(c))) for c in '"<>'])), 30000)
            if r_ == 'unknown': chk.obligation('destination-attribute', '-', 'inconclusive', 'solver unknown'); return
            if r_ == 'sat':
                okr, outp = replay.go_test('cmd/keymasterd', 'zz_verif_c18_test.go', GO_ESC, 'TestVerifC18Replay'); chk.replays += 1
                if okr is True:
                    chk.obligation('destination-attribute', '-', 'inconclusive', 'counterexample of the encoding (over-approximated URL.String) does not reproduce natively'); chk.absorb(ex, paths); return
                if chk.violation('destination-attribute', 'ensureHTMLSafeLoginDestination', 'the login destination reaches VALUE="..." with a raw double quote / angle bracket', model_dict(m), confirmed=(okr is False)) == 'new': verdict = 'violated'
    chk.absorb(ex, paths)
    chk.obligation('destination-attribute: the value placed in VALUE="..." has no raw " < >', 'all destination strings (unbounded)', verdict, paths=len(paths), t=time.time() - t)


def ob_pages(chk, ir):
    """the two shared pages (login, second factor) rendered by every failure path: executed directly with arbitrary arguments"""
    t = time.time(); verdict = 'holds'; total = 0; nsinks = 0
    for fname in (f'(*{M}.RuntimeState).writeHTMLLoginPage', f'(*{M}.RuntimeState).writeHTML2FAAuthPage'):
        if fname not in ir.funcs: chk.obligation('shared-pages', '-', 'inconclusive', 'ANCHOR-LOST ' + fname); return
        H = HandlerRun(ir, loop_bound=6, budget_s=100); ex = H.ex
        H.ex.ptr_nilable = False
        H.stub('html.EscapeString', st_escape); H.stub('html/template.HTMLEscapeString', st_escape)
        out = []
        def tmpl(ex_, st, a, ins):
            data = a[3] if len(a) > 3 else a[2]
            st.ev('template', data=data)
            for fn_, x in raw_fields(ir, ex_, st, data):
                for piece in flatten(x):
                    if z3.is_string_value(piece): continue
                    if z3.is_const(piece) and str(piece).startswith(('htmlescaped!', 'base64!')): continue
                    r_, m = ex_.model_fresh(st.pc, z3.Not(inert(piece)), 30000)
                    if r_ != 'unsat': out.append((fn_, piece, m if r_ == 'sat' else 'unknown'))
            raise PathCut('sink')
        for nm in ('(*html/template.Template).ExecuteTemplate', '(*html/template.Template).Execute'): H.stub(nm, tmpl)
        H.add_hints(lens(r'^len\(', [0, 1]))
        st, state, w, r = H.mkstate()
        fn = ir.funcs[fname]; args = []
        for prm in fn['params']:
            args.append({'state': state, 'w': w, 'r': r}.get(prm['name']) or ex.fresh(st, prm['type'], 'arg.' + prm['name']))
        paths = ex.run(fname, args, st); total += len(paths)
        bad = [p for p in paths if p.status in ('unsupported', 'unwind')]
        if bad: chk.absorb(ex, paths); chk.obligation('shared-pages', fname.split('.')[-1], 'inconclusive', bad[0].result); return
        nsinks += sum(1 for p in paths if p.evs('template'))
        for fn_, piece, m in out:
            if m == 'unknown': chk.obligation('shared-pages', '-', 'inconclusive', 'solver unknown'); return
            if chk.violation('raw-markup-sinks', f'{fname.split(".")[-1]} field {fn_}', f'non-constant piece {term(piece, 100)} of a raw-markup value may contain markup characters', model_dict(m)) == 'new': verdict = 'violated'
        chk.absorb(ex, paths)
    if nsinks == 0: chk.obligation('shared-pages', '-', 'inconclusive', 'vacuous'); return
    chk.witnesses += nsinks
    chk.obligation('shared-pages: login and second-factor pages (rendered by every failure path) put no unescaped request text in raw markup', 'arbitrary arguments', verdict, paths=total, t=time.time() - t)


def main(chk):
    ir = chk.load_ir()
    chk.assumptions = ['html/template contextual auto-escaping of ordinary fields is correct (library)', 'html.EscapeString / template.HTMLEscapeString output contains no raw " \' < >',
                       'base64 encoders emit only their alphabet', 'url.Parse / (*URL).String over-approximated (fresh strings)', 'checkAuth admits an arbitrary identity']
    chk.bounds = {'routes': 'every route whose handler can reach a template execution', 'strings': 'unbounded'}
    ob_kernel(chk, ir)
    ob_pages(chk, ir)
    ob_sweep(chk, ir)


if __name__ == '__main__':
    run_check('C18', main)
