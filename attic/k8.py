"""C09 obligation 1 spike: every route handler with Signer == nil, generic havoc stubs"""
import time, z3, re, signal, faulthandler, json
faulthandler.register(signal.SIGALRM); signal.alarm(560)
from ir import IR
from symx import *
ir = IR('/tmp/spike/ir')
M = 'github.com/Cloud-Foundations/keymaster/cmd/keymasterd'
RS = ir.typeid(M + '.RuntimeState'); REQ = ir.typeid('net/http.Request'); STR = ir.typeid('string')
IGN = re.compile(r'log\.DebugLogger\.|log\.Printf|SetUsername|\(\*sync\.Mutex\)|metricLog|prometheus|setSecurityHeaders|\.Header$|Header\)\.(Set|Add)|WriteHeader|net/http\.Error|fmt\.Fprintf|ResponseWriter\.Write')
SIGN = re.compile(r'Serialize|SignCert|CreateCertificate|NewSigner|setNewAuthCookie|genNewSerialized|SetCookie')
# route table from main()
routes = []
mainfn = ir.funcs[M + '.main']
regs = {}
for b in mainfn['blocks']:
    for ins in b['instrs']:
        if ins['op'] == 'MakeClosure': regs[ins['reg']] = ins['fn']['name']
        if ins['op'] == 'Call' and ins['call'].get('callee') in ('(*net/http.ServeMux).HandleFunc', 'net/http.HandleFunc'):
            a = ins['call']['args']; path = [x for x in a if x.get('k') == 'const'][0]['str']; h = [x for x in a if x.get('k') == 'reg' and x['name'] in regs]
            if h: routes.append((path, regs[h[0]['name']].replace('$bound', '')))
print(len(routes), 'routes from main()')
def havoc(ex, st, name, args, ins):
    tid = ins.get('type')
    def mk(t, nm):
        k = ir.kind(t)
        if k == 'tuple': return tuple(mk(e, f'{nm}.{i}') for i, e in enumerate(ir.T(t)['elems']))
        if k == 'basic': return ex.fresh(t, nm)
        if k == 'interface': return IfaceV(None, None) if 'error' in ir.T(t)['str'] else IfaceV(STR, Opaque(nm))
        if k == 'pointer': return Ptr(st.alloc(Lazy(ir.under(t)[1]['elem'], '*' + nm)))
        if k == 'slice': return SliceV(None, 0, 0, 0)
        if k == 'struct': return StructV(Lazy(f['type'], nm + '.' + f['name']) for f in ir.under(t)[1]['fields'])
        if k == 'map': return MapV(st.alloc({'sym': nm, 'elem': ir.under(t)[1]['elem'], 'entries': []}))
        return Opaque(nm)
    st.events.append(('call', name))
    if SIGN.search(name): st.events.append(('SIGN', name))
    if tid is None: return None
    ex.fresh_n += 1
    return mk(tid, f'{name.split(".")[-1]}!{ex.fresh_n}')
results = {}
t0 = time.time()
for path, h in routes:
    if h not in ir.funcs: results[path] = 'handler body not found: ' + h; continue
    ex = Exec(ir, {}, max_paths=3000, loop_bound=6); ex.ignore = IGN; ex.default_stub = havoc
    ex.inline = lambda name: name.startswith('(*' + M) or name.startswith(M)
    ex.solver.set('timeout', 5000)
    st = State()
    state = Ptr(st.alloc(Lazy(RS, 'state'))); r = Ptr(st.alloc(Lazy(REQ, 'r')))
    w = IfaceV(ir.typeid('*github.com/Cloud-Foundations/keymaster/lib/instrumentedwriter.LoggingWriter'), Ptr(st.alloc(Opaque('w'))))
    ex.hints = [(r'^state\.Signer$', lambda *a: IfaceV(None, None)), (r'^state\.Ed25519Signer$', lambda *a: IfaceV(None, None)),
                (r'^r\.URL\.Path$', lambda ex_, st_, tid, name, p=path: z3.Concat(z3.StringVal(p), z3.String('tail')))]
    ex.stubs = {f'(*{M}.RuntimeState).writeFailureResponse': lambda ex, st, a, ins: st.events.append(('fail', a[3]))}
    t = time.time()
    try:
        out = ex.run(h, [state, w, r], st)
        signs = sum(1 for s in out if any(e[0] == 'SIGN' for e in s.events)); pan = sum(1 for s in out if s.status == 'panic')
        results[path] = f'paths={len(out)} signing={signs} panics={pan} {time.time()-t:.1f}s'
    except Unsupported as e:
        results[path] = 'UNSUPPORTED: ' + str(e)[:110]
    except Exception as e:
        results[path] = 'ERROR: ' + repr(e)[:110]
for p, v in results.items(): print(f'{p:38s} {v}')
print('total', round(time.time() - t0, 1), 's')
