#!/usr/bin/env python3
"""regenerate MANIFEST.json from the table below (claimed checks) - every other property goes to not_applicable with its reason"""
import json, os
V = os.path.dirname(os.path.dirname(os.path.abspath(__file__)))
ALL = [json.loads(l)['id'] for l in open(os.path.join(V, 'properties.jsonl'))]
TECH = 'bounded symbolic execution of the real go/ssa (regenerated from /repo) + SMT (z3; cvc5/z3-4.8 portfolio on unknown): oracle decided per path'
CLAIMED = {
 'C01': ('every acceptable-methods list up to the bound x every 64-bit factor set x every credential shape: the /certgen/ handler and checkAuth are executed from SSA and z3 decides an independent oracle on every path (sign only after a verified, acceptable factor for the named user; acceptable users are served)',
         'bounds: list length <=2 (quick) / <=4 (thorough), cookies <=1/<=2, one clock reading per request; identity-establishing callees (JWT decode, certificate chain checks, password backend) are contract stubs listed in the evidence; go/ssa lowering, the executor and z3 are trusted'),
 'C03': ('every int64 duration (all 2^64 values, plus parse errors) x every clock second 2020..2096 x every IssuedAt: the handler clamp, the SSH epoch arithmetic (float64 via FP theory, amd64 float->uint64) and the X.509 / automation validity computations are executed from SSA; z3 decides validity <= now + min(requested, 24h, IssuedAt+24h-now) with wrap-around excluded by unsigned comparison',
         'A-clock (one reading per request); checkAuth admits an arbitrary session (C01/C06 decide admission); time.ParseDuration = arbitrary int64 or error; library signing calls are sinks; counterexamples are replayed natively with go test -overlay before being reported'),
}
CLAIMED['C02'] = ('the /certgen/ endpoint executed end-to-end from SSA down to the library signing calls, which capture the certificate as terms; for every user name, URL, submitted key bytes, configured extension list (<=1 quick / <=3 thorough), realm/CA shape z3 decides: principal/CN = admitted user, key = parse(submitted bytes) that passed the strength predicate, user type / non-CA / ClientAuth, extensions = 5 standard + configured expanded for that user, right signer and issuer; and the same for a second request on the post-state of the first',
    'library parsers, shell.Expand and signing calls are uninterpreted functions of their actual arguments; that signatures verify under the published keys is outside (x/crypto arithmetic); checkAuth admits an arbitrary user (C01/C06)')
CLAIMED['C10'] = ('the strength predicate executed from SSA (crypto/rsa Size from its own SSA) over every dynamic key type x RSA bit length 0..16384 x every exponent x every parser-producible curve; every issuing handler (SSH, X.509, Kubernetes, automation, refresh, cloud-role) executed end-to-end: z3 decides that each signing sink receives a key term for which the predicate returned true, weak keys get a 4xx status, and no path panics; the address-extension decoder over every asn1-well-formed bit string (BitLength 0..64)',
    'third-party parsers are uninterpreted functions (their byte-level robustness is a fuzzer\'s subject, outside this technique); counterexamples of the kernels are replayed natively')
CLAIMED['C11'] = ('encode/decode of the address extension, VerifyIPRestrictedX509CertIP and the daemon-side callers executed from SSA together with net.IPNet.Contains / IPv4 / CIDRMask / IPMask.Size / IP.To4 from the net package\'s own SSA: every prefix 0..32 x every address byte (round trip), every block list up to the bound x every BitLength 0..64 x every peer (membership both directions, IPv6 / unparsable / malformed never admitted, no panic), the daemon verifies (leaf, TCP peer address), refresh keeps identity and netblocks, and the gate lemma for the refresh endpoint',
    'asn1 marshal/unmarshal = identity on the family list subject to the BIT STRING length invariant; net.ParseIP / SplitHostPort contracts; block lists bounded (1x1, 1x2 quick; 2x1 thorough); counterexamples replayed natively')
CLAIMED['C13'] = ('CanRedirectToURL and both CORS origin tests executed from SSA over an over-approximated url.Parse (any URL structure), arbitrary non-empty configured domains (<=2 quick / <=3 thorough) and symbolic pattern outcomes; z3 decides accepted => https, no query, no "..", host equals a configured domain or ends with "."+domain, a pattern matched when patterns are configured',
    'url.Parse is over-approximated and (*URL).Hostname() is the library function (uninterpreted); strings are unbounded (sequence theory); counterexamples are replayed through the real function')
CLAIMED['C17'] = ('the destination filter executed from SSA for every destination string of 0..12 (quick) / 0..24 (thorough) arbitrary bytes: result = profile path or SAFE (regular-language oracle: one leading slash, second byte neither slash nor backslash, no control bytes); and a sweep of every service route that can reach http.Redirect (route table and reachability from the SSA): at each redirect z3 decides that the Location term is a safe constant, SAFE under the path condition (destinations flow through the filter, incl. the pendingOauth2 store/reload invariant), or a first-party URL with a constant same-origin prefix',
    'destination length bounded (byte loop unrolled, unwinding checked); sites use the filter\'s contract proved by the kernel obligation; documented external redirects (federated provider, CLI localhost flow, OpenID authorization response = C13) are listed, not decided; kernel counterexamples are replayed natively per violation class')
NA_REASON = {}
checks = []
for pid in ALL:
    if pid in CLAIMED:
        text, note = CLAIMED[pid]
        checks.append({'property_id': pid, 'quick_cmd': f'./run {pid} quick', 'thorough_cmd': f'./run {pid} thorough', 'evidence_file': f'evidence/{pid}.json', 'engine': 'symx',
                       'technique': TECH, 'replay_cmd_template': 'sh {path}/replay.sh',
                       'level_claimed': {'category': 'model_checking', 'text': text, 'design_ref': f'DESIGN.md section 4 {pid}'}, 'level_note': note})
na = [{'property_id': p, 'reason': NA_REASON.get(p, 'check not yet registered in this revision (under construction; see DESIGN.md section 4 for the planned encoding)')} for p in ALL if p not in CLAIMED]
m = {'version': 1, 'setup_cmd': './setup.sh',
     'hooks': {'guard': 'verif', 'enable': 'no source hooks: harnesses are injected with go/packages overlays and go test -overlay; nothing in /repo is tagged', 'baseline_off_cmd': 'python3 /verif/tools/baseline.py', 'source_commits': [], 'add_only': True},
     'engines': [{'name': 'symx', 'path': 'symx/', 'serves_properties': sorted(CLAIMED), 'kind_free_text': 'go/ssa (x/tools v0.50.0, go1.26.8) -> JSON IR -> Python symbolic executor -> z3 5.1.0 (+ z3 4.8.12 / cvc5 portfolio): bounded symbolic model checking of the real code'}],
     'checks': checks, 'not_applicable': na,
     'notes': 'exit 0 = held within the stated bounds; exit 1 + VIOLATION line = counterexample; exit 2 = inconclusive (solver unknown, unwinding assertion, unmodelled construct) - never reported as success'}
json.dump(m, open(os.path.join(V, 'MANIFEST.json'), 'w'), indent=1)
print('claimed', sorted(CLAIMED), 'n/a', len(na))
