#!/usr/bin/env python3
"""Run the registered checks against every kept seeded change, each on its own scratch worktree of /repo (removed afterwards), and write
seeded/<id>/meta.json + seeded/MATRIX.json.  usage: seed_matrix.py [-j N] [seed ids...]
Nothing is applied to /repo itself: the checks are pointed at the scratch copy with VERIF_REPO (IR cache, replay and evidence go to a
scratch out dir so the real evidence files are not touched)."""
import json, os, subprocess, sys, shutil, re, concurrent.futures as cf

V = '/verif'; S = os.path.join(V, 'seeded'); TMP = '/tmp/sm'
# peers: other properties whose check is expected to notice the change as well (run in addition to the seed's own property)
PEERS = {'C01b': ['C06'], 'C06a': ['C01'], 'C11b': ['C06'], 'C04a': ['C12'], 'C04b': ['C12'], 'C07b': ['C04'], 'C12a': ['C04'], 'C12b': ['C04'], 'C10c': ['C11'], 'C12c': ['C04'], 'C16e': ['C14']}


def run(sid):
    sd = os.path.join(S, sid); am = json.load(open(os.path.join(sd, 'agent_meta.json')))
    pid = am.get('property') or sid[:3]
    wt = os.path.join(TMP, sid); out = os.path.join(TMP, 'out_' + sid); ev = os.path.join(TMP, 'ev_' + sid)
    subprocess.run(['git', '-C', '/repo', 'worktree', 'remove', '--force', wt], capture_output=True); shutil.rmtree(wt, ignore_errors=True)
    os.makedirs(TMP, exist_ok=True)
    subprocess.run(['git', '-C', '/repo', 'worktree', 'add', '--detach', wt, 'HEAD'], check=True, capture_output=True)
    res = {'seed': sid, 'property': pid, 'checks': {}}
    try:
        ported = os.path.exists(os.path.join(sd, 'patch_on_fixed_tree.diff'))
        pf = os.path.join(sd, 'patch_on_fixed_tree.diff' if ported else 'patch.diff')
        r = subprocess.run(['git', '-C', wt, 'apply', pf], capture_output=True, text=True)
        res['patch_file'] = os.path.basename(pf); res['applies_on_current_tree'] = r.returncode == 0
        if r.returncode != 0:
            res['note'] = 'the change no longer applies to the repaired tree: ' + r.stderr.strip()[:200]
            return res
        env = dict(os.environ, VERIF_REPO=wt, VERIF_OUT=out, VERIF_EVIDENCE=ev, GOFLAGS='-mod=mod', GOPROXY='off'); env.pop('GOSUMDB', None)
        for p in [pid] + PEERS.get(sid, []):
            r = subprocess.run([os.path.join(V, 'run'), p, 'quick'], capture_output=True, text=True, env=env)
            viol = sorted(set(re.findall(r'^  violation: (.*?): ', r.stdout, re.M)))
            res['checks'][p] = {'exit': r.returncode, 'violation_lines': len(re.findall(r'^VIOLATION', r.stdout, re.M)), 'obligations_violated': viol[:6],
                                'inconclusive': re.findall(r'^INCONCLUSIVE (.*)$', r.stdout, re.M)[:2]}
    finally:
        subprocess.run(['git', '-C', '/repo', 'worktree', 'remove', '--force', wt], capture_output=True)
        shutil.rmtree(wt, ignore_errors=True); shutil.rmtree(out, ignore_errors=True); shutil.rmtree(ev, ignore_errors=True)
    return res


def meta(sid, res):
    sd = os.path.join(S, sid); am = json.load(open(os.path.join(sd, 'agent_meta.json')))
    ver = {}
    for f in ('verified.json', 'verified_on_fixed_tree.json'):
        p = os.path.join(sd, f)
        if os.path.exists(p): ver[f] = {k: v for k, v in json.load(open(p)).items() if k in ('base', 'ok', 'demo_passes_without_change', 'demo_fails_with_change', 'suite_passes_with_change', 'patch_file', 'demo_cmd')}
    caught = [p for p, c in res.get('checks', {}).items() if c['exit'] == 1 and c['violation_lines'] > 0]
    m = {'seed': sid, 'breaks_property': res['property'], 'what_it_changes': am.get('summary'), 'why_it_breaks_the_property': am.get('breaks'),
         'needs_to_manifest': am.get('needs'), 'files': am.get('files'), 'origin': 'written by a fresh sub-agent that was given only the property text and its own scratch worktree of /repo',
         'what_i_ran_to_confirm_it': {'tool': 'tools/verify_seed.py (scratch worktree: demo passes without the change, fails with it; change builds; the 143 baseline tests still pass with it)', 'results': ver},
         'checked_against': {'tool': 'tools/seed_matrix.py (scratch worktree at the current repaired HEAD, checks pointed at it with VERIF_REPO)', 'patch_file': res.get('patch_file'), 'results': res.get('checks'), 'caught_by': caught}}
    if res.get('note'): m['note'] = res['note']
    extra = os.path.join(sd, 'NOTE.txt')
    if os.path.exists(extra): m['note'] = (m.get('note', '') + ' ' + open(extra).read().strip()).strip()
    json.dump(m, open(os.path.join(sd, 'meta.json'), 'w'), indent=1)
    return m


if __name__ == '__main__':
    args = sys.argv[1:]; j = 3
    if args[:1] == ['-j']: j = int(args[1]); args = args[2:]
    seeds = args or sorted(d for d in os.listdir(S) if os.path.isdir(os.path.join(S, d)))
    allres = {}
    with cf.ThreadPoolExecutor(j) as ex:
        for sid, res in zip(seeds, ex.map(run, seeds)):
            m = meta(sid, res); allres[sid] = {'property': res['property'], 'caught_by': m['checked_against']['caught_by'], 'checks': res.get('checks'), 'note': m.get('note')}
            print(sid, 'caught by', m['checked_against']['caught_by'] or 'NOTHING', {p: (c['exit'], c['violation_lines']) for p, c in res.get('checks', {}).items()}, res.get('note', ''), flush=True)
    mp = os.path.join(S, 'MATRIX.json'); old = json.load(open(mp)) if os.path.exists(mp) else {}
    old.update(allres); json.dump(old, open(mp, 'w'), indent=1)
