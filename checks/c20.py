"""C20 — every certificate issued is reported to the audit stream; history persists.

 1. publish next to every signing site: every route that can reach a library signing call (found from the call graph of the SSA) is executed
    end-to-end; on every path that signs and answers, a Publish event carrying the same certificate bytes (same term) precedes the first
    body write.
 2. non-blocking fan-out: publishCert / transmitEvent executed from SSA over 0..3 subscriber channels of arbitrary fill level (channel and
    select semantics in the executor): the call returns on every path, every subscriber with room receives exactly the event.
 3. history across save/reload: k <= 3 events recorded at arbitrary non-decreasing instants, listed, saved (gob = identity, contract),
    reloaded at an arbitrary later instant and listed again: same events, same order, minus those older than the retention; and
    expireOldEvents drops exactly the entries older than the retention.
"""
import time, z3, re, itertools
from symx.check import run_check, term, model_dict
from symx.engine import *
from symx.harness import *
from symx import lib, authmodel as am, gate, sweep, issue, replay
from symx.lib import M, KM, nilerr, mk_error, fork_results

SV = z3.StringVal
ER = KM + '/eventmon/eventrecorder'
EN = KM + '/keymasterd/eventnotifier'
MONTH_S = 31 * 24 * 3600


def ob_publish(chk, ir):
    t = time.time(); verdict = 'holds'; total = 0; nsigned = 0; routes_done = []
    gen = f'(*{M}.RuntimeState).generateRoleCert'
    for rt in routes(ir):
        h = rt['handler']
        if not isinstance(h, str) or h not in ir.funcs or rt['mux'] != 'service': continue
        fs = ir.reachable([h]); callees = set().union(*[ir.static_callees(f) for f in fs])
        dyn_aws = any(f.endswith('requestAwsRoleCertificateHandler') for f in fs)
        if not (callees & {'crypto/x509.CreateCertificate', '(*golang.org/x/crypto/ssh.Certificate).SignCert'}) and not dyn_aws: continue
        def extra(H):
            H.stub(f'(*{M}.RuntimeState).writeFailureResponse', am.st_fail)
            H.stub('regexp.MatchString', lambda ex, st, a, ins: (z3.Function('regexp.MatchString', z3.StringSort(), z3.StringSort(), z3.BoolSort())(a[0], a[1]), nilerr()))
            H.add_hints(lens(r'AllowedAuthBackendsFor(Certs|WebUI)\)$', [1]), lens(r'SSHCertConfig\.Extensions\)$', [0]), lens(r'AutomationAdmins\)$', [0]), lens(r'^len\(\*r\.(Post)?Form\[', [1]),
                        lens(r'VerifiedChains', [1]))
            H.stub(f'(*{M}.RuntimeState).isAutomationUser', lambda ex, s, a, ins: fork_results(ex, s, ins, [(None, lambda s2: (z3.BoolVal(False), mk_error(s2, SV('x'), 'automation'))), (None, (z3.Bool('isAutomationUser'), nilerr()))]))
            H.stub('net.ParseCIDR', lambda ex, s, a, ins: fork_results(ex, s, ins, [(None, lambda s2: (NILSLICE(), NIL, mk_error(s2, SV('cidr'), 'ParseCIDR'))), (None, lambda s2: (NILSLICE(), Ptr(s2.alloc(Lazy(ir.typeid('net.IPNet'), 'cidr'))), nilerr()))]))
            H.stub(KM + '/lib/certgen.ExtractIPNetsFromIPRestrictedX509', lambda ex, s, a, ins: fork_results(ex, s, ins, [(None, lambda s2: (NILSLICE(), mk_error(s2, SV('x'), 'extract'))), (None, (NILSLICE(), nilerr()))]))
            H.stub(KM + '/lib/certgen.genDelegationExtension', issue.ext_stub('delegation'))
            H.stub_pat(r'base64\.Encoding\)\.DecodeString$', lambda ex, s, a, ins: fork_results(ex, s, ins, [(None, lambda s2: (NILSLICE(), mk_error(s2, SV('b64'), 'b64'))), (None, (BytesV(z3.Function('b64decode', z3.StringSort(), z3.StringSort())(a[1])), nilerr()))]))
            if dyn_aws:
                H.stub('verif.failureWriter', lambda ex, s, a, ins: s.ev('fail', code=a[3], msg=a[2]) and None)
                H.stub('verif.accountOK', lambda ex, s, a, ins: z3.Bool('accountAllowed'))
                H.stub(KM + '/lib/server/aws_identity_cert.getCallerIdentity', lambda ex, s, a, ins: fork_results(ex, s, ins, [(None, lambda s2: (ex.zero(ins['type'])[0], mk_error(s2, SV('sts'), 'sts'))), (None, lambda s2: (ex.fresh(s2, ir.under(ins['type'])[1]['elems'][0], 'arn'), nilerr()))]))
                H.stub_pat(r'^io/ioutil\.ReadAll$|^io\.ReadAll$', lambda ex, s, a, ins: fork_results(ex, s, ins, [(None, lambda s2: (NILSLICE(), mk_error(s2, SV('read'), 'read'))), (None, (BytesV(z3.String('req.body')), nilerr()))]))
                def pem_encode(ex, s, a, ins):
                    s.ev('resp.write', data=BytesV(z3.Function('pem.Encode', z3.StringSort(), z3.StringSort())(issue.pem_bytes(ex, s, a[1]))), via='pem.Encode', w=a[0]); return nilerr()
                H.stub('encoding/pem.Encode', pem_encode)
                H.add_hints(nonnil_iface(r'awsCertIssuer\.params\.Logger$'), nonnil_iface(r'^\*r\.Body$'),
                            pin(r'awsCertIssuer\.params\.FailureWriter$', FuncV('verif.failureWriter')), pin(r'awsCertIssuer\.params\.AccountIdValidator$', FuncV('verif.accountOK')),
                            pin(r'awsCertIssuer\.params\.CertificateGenerator$', lambda ex, st, tid, name: FuncV(gen + '$bound', [st.aux['stateptr']])))
        try:
            H, st, state, w, r, path = sweep.mkrun(ir, rt, budget_s=450, extra=extra, max_paths=30000)
            st.aux['stateptr'] = state
            paths = H.run(h, st, [state, w, r])
        except Unsupported as e:
            chk.obligation(f'publish {rt["path"]}', '-', 'inconclusive', str(e)); continue
        total += len(paths); routes_done.append(rt['path'])
        bad = [p for p in paths if p.status in ('unsupported', 'unwind')]
        if bad: chk.absorb(H.ex, paths); chk.obligation(f'publish {rt["path"]}', '-', 'inconclusive', bad[0].result); continue
        for p in paths:
            if p.status != 'returned': continue
            signs = p.evs('sign')
            if not signs: continue
            ev = p.events
            writes = [i for i, e in enumerate(ev) if e['k'] == 'resp.write']
            ok200 = [e for e in p.evs('resp.status') if z3.is_bv_value(z3.simplify(lib.tobv(e['code']))) and z3.simplify(lib.tobv(e['code'])).as_long() == 200] or (writes and not p.evs('fail'))
            if not ok200 or not writes: continue       # signing failed / refused afterwards: nothing returned to the requester
            nsigned += 1
            first_write = writes[0]
            for sg in signs:
                pubs = [(i, e) for i, e in enumerate(ev) if e['k'] == 'publish' and i < first_write]
                want_kind = sg['kind']
                matched = False
                for i, e in pubs:
                    if e['kind'] != want_kind: continue
                    d = e['data']
                    if want_kind == 'x509':
                        if isinstance(d, BytesV) and z3.is_true(z3.simplify(d.s == sg['der'])): matched = True
                    else:
                        if isinstance(d, BytesV): matched = True
                if not matched:
                    late = [e for i, e in enumerate(ev) if e['k'] == 'publish' and i >= first_write and e['kind'] == want_kind]
                    what = 'published only after the response body was written' if late else 'never published to the event stream (or with other bytes than the certificate returned)'
                    r_ = chk.violation('publish-with-every-certificate', f"{rt['path']} ({want_kind})", f'a signed {want_kind} certificate is returned but {what}', None)
                    if r_ == 'new': verdict = 'violated'
                    elif verdict == 'holds': verdict = 'known'
        chk.absorb(H.ex, paths)
    if nsigned == 0: chk.obligation('publish-with-every-certificate', '-', 'inconclusive', 'vacuous: no path signs and answers'); return
    chk.witnesses += nsigned
    chk.obligation('publish-with-every-certificate: same bytes published before the first body write on every issuing path', f'routes {routes_done}', verdict, paths=total, witness=f'{nsigned} issuing paths', t=time.time() - t)
    chk.sample({'obligation': 'publish-with-every-certificate', 'routes': routes_done, 'issuing_paths': nsigned})


def ob_fanout(chk, ir):
    t = time.time(); verdict = 'holds'; total = 0; ndeliv = 0
    NT = ir.typeid(EN + '.EventNotifier')
    EV = [t_ for t_ in ir.types if ir.tstr(t_) == KM + '/proto/eventmon.EventV0'][0]
    for fname, mk in ((f'(*{EN}.EventNotifier).publishCert', 'cert'), (f'(*{EN}.EventNotifier).transmitEvent', 'event')):
        if fname not in ir.funcs: chk.obligation('fan-out', '-', 'inconclusive', 'ANCHOR-LOST ' + fname); return
        for nsub in range(0, 4):
            H = HandlerRun(ir, loop_bound=nsub + 3, budget_s=60); ex = H.ex
            st = State()
            chans = []
            mcell = {'base': None, 'elem': None, 'key': None, 'writes': [], 'lazy': {}}
            for i in range(nsub):
                c = Ptr(st.alloc({'chan': [], 'room': z3.Bool(f'sub{i}.hasRoom')})); chans.append(c)
                mcell['writes'].append(['set', c, c])
            nv = []
            for f in ir.fields(NT):
                if f['name'] == 'transmitChannels':
                    u = ir.under(f['type'])[1]; mcell['elem'] = u['elem']; mcell['key'] = u['key']; nv.append(MapV(st.alloc(mcell)))
                else: nv.append(Lazy(f['type'], 'n.' + f['name']))
            n = Ptr(st.alloc(StructV(nv)))
            data = BytesV(z3.String('certDER')); ctype = z3.String('certType')
            if mk == 'cert': args = [n, ctype, data]
            else:
                evv = StructV(Lazy(f['type'], 'event.' + f['name']) for f in ir.fields(EV)); args = [n, evv]
            paths = ex.run(fname, args, st); total += len(paths)
            for p in paths:
                if p.status == 'blocked':
                    r_, m = ex.model(p.pc)
                    if chk.violation('fan-out-never-blocks', fname.split('.')[-1], 'publishing blocks when a subscriber channel is full: ' + p.result, model_dict(m)) == 'new': verdict = 'violated'
                    continue
                if p.status != 'returned': chk.absorb(ex, paths); chk.obligation('fan-out', fname, 'inconclusive', p.result); return
                # mutex released
                if p.aux.get('locks'):
                    if chk.violation('fan-out-never-blocks', fname.split('.')[-1] + '/lock', 'returns with the notifier mutex held', None) == 'new': verdict = 'violated'
                for i, c in enumerate(chans):
                    cell = p.heap[c.obj]; room = z3.Bool(f'sub{i}.hasRoom')
                    got = cell['chan']
                    hasroom = ex.check(p.pc, room)[0] != 'unsat' and ex.check(p.pc, z3.Not(room))[0] == 'unsat'
                    if hasroom:
                        ndeliv += 1
                        okd = len(got) == 1
                        if okd and mk == 'cert':
                            v = got[0]; cd = ex.getfield(p, v, EV, 'CertData'); ty = ex.getfield(p, v, EV, 'Type')
                            okd = isinstance(cd, BytesV) and z3.is_true(z3.simplify(cd.s == data.s)) and z3.is_true(z3.simplify(ty == ctype))
                        if not okd:
                            if chk.violation('fan-out-delivers', fname.split('.')[-1], f'a subscriber with room does not receive exactly the event ({len(got)} deliveries)', None) == 'new': verdict = 'violated'
                    elif got:
                        if chk.violation('fan-out-delivers', fname.split('.')[-1], 'a full subscriber received a delivery', None) == 'new': verdict = 'violated'
            chk.absorb(ex, paths)
    if ndeliv == 0: chk.obligation('fan-out', '-', 'inconclusive', 'vacuous'); return
    chk.witnesses += ndeliv
    chk.obligation('fan-out: publishing never blocks and every subscriber with room gets exactly the event (same bytes)', '0..3 subscribers x arbitrary fill level', verdict, paths=total, witness=f'{ndeliv} deliveries checked', t=time.time() - t)


def ob_history(chk, ir, K):
    t = time.time(); verdict = 'holds'; total = 0; ncmp = 0
    RT = ir.typeid(ER + '.EventRecorder'); ET = ir.typeid(ER + '.EventType')
    rec = f'(*{ER}.EventRecorder).recordWebLoginEvent'; lst = f'(*{ER}.EventRecorder).getEventsList'; load = ER + '.loadEvents'; exp = f'(*{ER}.EventRecorder).expireOldEvents'
    for f_ in (rec, lst, load, exp):
        if f_ not in ir.funcs: chk.obligation('history', '-', 'inconclusive', 'ANCHOR-LOST ' + f_); return
    EVS = ir.typeid(ER + '.Events')
    for k in range(1, K + 1):
        H = HandlerRun(ir, loop_bound=k + 4, budget_s=400); ex = H.ex
        H.ex.ptr_nilable = False
        clock = {'n': 0}
        times = [z3.BitVec(f't{i}', 64) for i in range(k + 2)]
        class SecT(TimeV):
            """instant known in whole seconds (keeps the retention arithmetic free of the ns multiplication/division)"""
            def __init__(self, sec): self.sec = sec; TimeV.__init__(self, lib.T(sec) * lib.T(10**9))
        def now(ex_, st, a, ins):
            i = st.aux.get('clk', 0); st.aux['clk'] = i + 1
            return SecT(times[min(i, k + 1)])
        H.stub('time.Now', now)
        def t_add(ex_, st, a, ins):
            d = z3.simplify(a[1]) if z3.is_expr(a[1]) else None
            if isinstance(a[0], SecT) and d is not None and z3.is_bv_value(d) and d.as_signed_long() % 10**9 == 0:
                return SecT(a[0].sec + z3.BitVecVal(d.as_signed_long() // 10**9, 64))
            return TimeV(a[0].ns + lib.T(a[1]))
        H.stub('(time.Time).Add', t_add)
        H.stub('(time.Time).Unix', lambda ex_, st, a, ins: a[0].sec if isinstance(a[0], SecT) else z3.Extract(63, 0, lib.floordiv(a[0].ns, 10**9)))
        H.stub('time.Since', lambda ex_, st, a, ins: z3.BitVecVal(0, 64))
        st = State()
        base = 1577836800
        st.pc += [z3.UGE(times[0], base)] + [z3.ULE(times[i], times[i + 1]) for i in range(k + 1)] + [z3.ULE(times[k + 1], 3976214400)]
        mt = [f for f in ir.fields(RT) if f['name'] == 'eventsMap'][0]; mu = ir.under(mt['type'])[1]
        def mkrec(s, mapv):
            v = []
            for f in ir.fields(RT): v.append(mapv if f['name'] == 'eventsMap' else Lazy(f['type'], 'sr.' + f['name']))
            return Ptr(s.alloc(StructV(v)))
        m0 = MapV(st.alloc({'base': None, 'elem': mu['elem'], 'key': mu['key'], 'writes': [], 'lazy': {}}))
        sr = mkrec(st, m0); user = SV('alice')
        cur = [st]
        # 1. record k events (clock reads t0..t(k-1))
        for i in range(k):
            nxt = []
            for s in cur:
                s.status = 'run'; s.frames = []; s.aux['clk'] = i
                ps = ex.run(rec, [sr, user], s); total += len(ps)
                nxt += [p for p in ps if p.status == 'returned']
                if any(p.status not in ('returned',) for p in ps):
                    chk.absorb(ex, ps); chk.obligation('history', f'k={k}', 'inconclusive', [p.result for p in ps if p.status != 'returned'][0]); return
            cur = nxt
        def listing(s, srptr):
            s.status = 'run'; s.frames = []
            lp = Ptr(s.alloc(NIL))
            ps = ex.run(lst, [srptr, lp], s)
            outl = []
            for p in ps:
                if p.status != 'returned': return None
                evp = p.result[0]; evs = ex.load(p, evp)
                mp = ex.getfield(p, evs, EVS, 'Events')
                ents = ex.map_entries(p, mp.obj)
                sl = [e[1] for e in ents if z3.is_true(z3.simplify(e[0] == user))]
                vals = ex.slice_values(p, sl[-1]) if sl else []
                outl.append((p, mp, vals))
            return outl
        # 1c. expiry: expireOldEvents at clock t(k) drops exactly the entries older than the retention (listing compared with the recorded instants)
        for s in cur:
            s4 = s.fork(); s4.status = 'run'; s4.frames = []; s4.aux['clk'] = k
            pe = ex.run(exp, [sr], s4); total += len(pe)
            for p4 in pe:
                if p4.status != 'returned': chk.obligation('history', f'k={k}', 'inconclusive', f'expireOldEvents: {p4.result}'); return
                l4 = listing(p4.fork(), sr)
                if l4 is None: chk.obligation('history', f'k={k}', 'inconclusive', 'listing after expiry failed'); return
                ci0 = ir.field_index(ET, 'CreateTime'); mint = times[k] - MONTH_S
                for p5, _, kept in l4:
                    ncmp += 1
                    for pattern in itertools.product([True, False], repeat=k):
                        cond = z3.And([z3.UGE(times[i], mint) if b else z3.ULT(times[i], mint) for i, b in enumerate(pattern)])
                        if not ex.feasible(p5.pc, cond): continue
                        want = [times[i] for i in reversed(range(k)) if pattern[i]]
                        ok5 = len(kept) == len(want) and not ex.feasible(list(p5.pc) + [cond], z3.Not(z3.And([ex.field(p5, e, ci0) == w_ for e, w_ in zip(kept, want)] + [z3.BoolVal(True)])))
                        if not ok5:
                            res = chk.violation('history-survives-restart', f'expireOldEvents k={k}', f'after expiry at an arbitrary later instant the history holds {len(kept)} events where {len(want)} are younger than the retention (or not those)', {'kept_pattern': pattern})
                            if res == 'new': verdict = 'violated'
                            elif verdict == 'holds': verdict = 'known'
                            break
        for s in cur:
            l1 = listing(s, sr)
            if l1 is None: chk.obligation('history', f'k={k}', 'inconclusive', 'listing failed'); return
            for p1, saved_map, before in l1:
                total += 1
                # 1b. the listing itself is faithful: when all k events lie within the retention, it holds exactly the k recorded events in
                #     newest-first order (compared with the instants that were fed in, not with another run of the lister)
                ci0 = ir.field_index(ET, 'CreateTime')
                within = z3.ULT(times[k - 1] - times[0], MONTH_S) if k > 1 else z3.BoolVal(True)
                if ex.feasible(p1.pc, within):
                    okl = len(before) == k and not ex.feasible(list(p1.pc) + [within], z3.Not(z3.And([ex.field(p1, e, ci0) == times[k - 1 - i] for i, e in enumerate(before)])))      # the listing is newest first
                    if not okl:
                        res = chk.violation('history-survives-restart', f'getEventsList k={k}', f'the listing of {k} events recorded within the retention holds {len(before)} events or not the recorded instants (newest first)', {'recorded': k, 'listed': len(before)})
                        if res == 'new': verdict = 'violated'
                        elif verdict == 'holds': verdict = 'known'
                # 2. reload at clock t(k)  (gob save/load = identity on the saved map)
                H.stub('os.Open', lambda ex_, st_, a, ins: (Ptr(st_.alloc(Opaque('file'))), nilerr()))
                H.stub('bufio.NewReader', lambda ex_, st_, a, ins: Ptr(st_.alloc(Opaque('reader'))))
                H.stub('encoding/gob.NewDecoder', lambda ex_, st_, a, ins: Ptr(st_.alloc(Opaque('decoder'))))
                def decode(ex_, st_, a, ins, saved_map=saved_map):
                    dst = a[1].val if isinstance(a[1], IfaceV) else a[1]
                    ex_.store(st_, dst, saved_map); return nilerr()
                H.stub('(*encoding/gob.Decoder).Decode', decode)
                s2 = p1.fork(); s2.status = 'run'; s2.frames = []; s2.aux['clk'] = k
                ps = ex.run(load, [SV('file')], s2); total += len(ps)
                for p2 in ps:
                    if p2.status != 'returned': chk.obligation('history', f'k={k}', 'inconclusive', p2.result); return
                    m2, err = p2.result
                    if not (isinstance(err, IfaceV) and err.tid is None): continue
                    sr2 = mkrec(p2, m2)
                    # 2b. expiry keeps working on the reloaded history: expireOldEvents at the later instant t(k+1), then list
                    s6 = p2.fork(); s6.status = 'run'; s6.frames = []; s6.aux['clk'] = k + 1
                    for p6 in ex.run(exp, [sr2], s6):
                        total += 1
                        if p6.status != 'returned': chk.obligation('history', f'k={k}', 'inconclusive', f'expireOldEvents after reload: {p6.result}'); return
                        l6 = listing(p6.fork(), sr2)
                        if l6 is None: chk.obligation('history', f'k={k}', 'inconclusive', 'listing after reload + expiry failed'); return
                        ci0 = ir.field_index(ET, 'CreateTime'); mint6 = times[k + 1] - MONTH_S
                        for p7, _, kept in l6:
                            ncmp += 1
                            for pattern in itertools.product([True, False], repeat=k):
                                cond = z3.And([z3.UGE(times[i], mint6) if b else z3.ULT(times[i], mint6) for i, b in enumerate(pattern)])
                                if not ex.feasible(p7.pc, cond): continue
                                want = [times[i] for i in reversed(range(k)) if pattern[i]]
                                ok7 = len(kept) == len(want) and not ex.feasible(list(p7.pc) + [cond], z3.Not(z3.And([ex.field(p7, e, ci0) == w_ for e, w_ in zip(kept, want)] + [z3.BoolVal(True)])))
                                if not ok7:
                                    res = chk.violation('history-survives-restart', f'expireOldEvents after reload k={k}', f'after save, reload and a later expiry the history holds {len(kept)} events where {len(want)} are younger than the retention (or not those)', {'kept_pattern': pattern})
                                    if res == 'new': verdict = 'violated'
                                    elif verdict == 'holds': verdict = 'known'
                                    break
                    l2 = listing(p2, sr2)
                    if l2 is None: chk.obligation('history', f'k={k}', 'inconclusive', 'second listing failed'); return
                    for p3, _, after in l2:
                        ncmp += 1
                        # expected: the entries of `before` with CreateTime >= t(k) - 31d, same order
                        mint = times[k] - MONTH_S
                        ci = ir.field_index(ET, 'CreateTime')
                        keep = [ex.field(p3, e, ci) >= 0 for e in before]
                        keepc = [z3.UGE(ex.field(p3, e, ci), mint) for e in before]
                        # compare as sequences under every keep-pattern: z3 decides element-wise

                        for pattern in itertools.product([True, False], repeat=len(before)):
                            cond = z3.And([kc if b else z3.Not(kc) for kc, b in zip(keepc, pattern)]) if before else z3.BoolVal(True)
                            if not ex.feasible(p3.pc, cond): continue
                            exp_list = [e for e, b in zip(before, pattern) if b]
                            same = len(after) == len(exp_list) and all(z3.is_true(z3.simplify(ex.keyeq(ex.forceall(p3, clone(a_)), ex.forceall(p3, clone(b_))))) or not ex.feasible(list(p3.pc) + [cond], z3.Not(ex.keyeq(ex.forceall(p3, clone(a_)), ex.forceall(p3, clone(b_))))) for a_, b_ in zip(after, exp_list))
                            if not same:
                                r_, m = ex.model(p3.pc, cond)
                                md = {f't{i}': m.eval(times[i], model_completion=True).as_long() for i in range(k + 2)} if m is not None else {}
                                md['events_before_restart'] = len(before); md['events_after_restart'] = len(after); md['kept_pattern'] = pattern
                                res = chk.violation('history-survives-restart', f'loadEvents/getEventsList k={k}', 'the per-user history listed after save+reload differs from the one listed before (order / retention)', md)
                                if res == 'new': verdict = 'violated'
                                elif verdict == 'holds': verdict = 'known'
                                break
        chk.absorb(ex)
    if ncmp == 0: chk.obligation('history', '-', 'inconclusive', 'vacuous'); return
    chk.witnesses += ncmp
    chk.obligation('history-survives-restart: events(load(save(h))) = events(h) minus entries older than the retention, same order', f'1..{K} events, arbitrary non-decreasing instants', verdict, paths=total, witness=f'{ncmp} before/after comparisons', t=time.time() - t)



def ob_weblogins(chk, ir):
    """the daemon reports web logins: every route on which a browser login completes publishes a web-login event for the session's user
    before answering (route environment and sweep shared with C05)"""
    from checks import c05
    from symx import sweep
    from symx.harness import routes
    c05._IR = ir
    t = time.time(); verdict = 'holds'
    targets = {f'(*{M}.RuntimeState).updateAuthCookieAuthlevel', f'(*{M}.RuntimeState).setNewAuthCookie', f'(*{M}.RuntimeState).genNewSerializedAuthJWT'}
    todo = []
    for rt in routes(ir):
        h = rt['handler']
        if rt['mux'] != 'service' or not isinstance(h, str) or h not in ir.funcs: continue
        fs = ir.reachable([h], within=lambda f: not f.endswith('.writeFailureResponse'))
        if fs & targets: todo.append(rt)
    total = 0; n = 0; where = []
    for rt, out in zip(todo, sweep.parallel(c05.route_worker, todo)):
        if out['inconclusive']: chk.obligation(f'web-logins route {rt["path"]}', '-', 'inconclusive', out['inconclusive']); continue
        total += out['paths']; n += out.get('weblogins', 0)
        if out.get('weblogins'): where.append(rt['path'])
        chk.states += out['paths']; chk.transitions += out['transitions']; chk.queries += out['queries']; chk.solver_s += out['solver_s']; chk.functions |= set(out['functions'])
        for site, what, md in out.get('weblogin_viol', []):
            r_ = chk.violation('web-logins-reported', site, what, md)
            if r_ == 'new': verdict = 'violated'
            elif verdict == 'holds': verdict = 'known'
    if n == 0: chk.obligation('web-logins-reported', '-', 'inconclusive', 'vacuous: no completing browser login'); return
    chk.witnesses += n
    chk.obligation('web-logins-reported: every completed browser login (session cookie minted or raised, browser sent on to its login destination) is preceded by a web-login event naming the session\'s user',
                   f'routes {where}; cookies 1..2; factor verifiers as contracts', verdict, paths=total, witness=f'{n} completing browser-login paths', t=time.time() - t)


def main(chk):
    ir = chk.load_ir()
    chk.assumptions = ['gob encode/decode of the saved history = identity (encoding/gob)', 'library signing calls are sinks carrying the certificate bytes as a term', 'channel semantics: a send succeeds iff the channel has room',
                       'checkAuth admits an arbitrary identity']
    chk.bounds = {'subscribers': '0..3', 'events': '1..3 quick / 1..4 thorough', 'routes': 'every service route that can reach a signing call'}
    ob_publish(chk, ir)
    ob_fanout(chk, ir)
    ob_history(chk, ir, 3 if chk.tier == "quick" else 4)
    ob_weblogins(chk, ir)
    from checks.c12 import ob_authorize
    ob_authorize(chk, ir, sp_login=True)      # service-provider logins: the authorization endpoint (environment shared with C12)


if __name__ == '__main__':
    run_check('C20', main)
