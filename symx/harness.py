"""Handler-level harness: real handler from the IR, lazily initialised *RuntimeState / *http.Request, shared stubs."""
import z3, re, time
from .engine import *
from . import lib
from .lib import M, KM


def pin(pattern, value):
    """hint: access paths matching pattern materialise to value (or callable(ex, st, tid, name))"""
    pat = re.compile(pattern)
    if callable(value): return (pat, value)
    return (pat, lambda ex, st, tid, name: value)


def nonnil_ptr(pattern):
    pat = re.compile(pattern)
    def f(ex, st, tid, name):
        if tid is None: return NotImplemented
        u = ex.ir.under(tid)[1]
        if u['kind'] != 'pointer': return NotImplemented
        return Ptr(st.alloc(Lazy(u['elem'], '*' + name)))
    return (pat, f)


def nonnil_iface(pattern, tag=None):
    pat = re.compile(pattern)
    def f(ex, st, tid, name):
        if tid is None or ex.ir.kind(tid) != 'interface': return NotImplemented
        return IfaceV('dyn:' + (tag or name), Opaque(tag or name))
    return (pat, f)


def lens(pattern, ls):
    pat = re.compile(pattern)
    return (pat, lambda ex, st, tid, name: list(ls) if tid is None else NotImplemented)


def str_list(pattern, n, prefix):
    """a configuration list of exactly n arbitrary strings named prefix0.."""
    pat = re.compile(pattern)
    def f(ex, st, tid, name):
        if tid is None: return NotImplemented
        return ex.mkslice(st, [z3.String(f'{prefix}{i}') for i in range(n)])
    return (pat, f)


class HandlerRun:
    """one symbolic execution of a handler method  func (state *RuntimeState) h(w, r)"""
    def __init__(self, ir, loop_bound=8, max_paths=20000, budget_s=240):
        self.ir = ir
        self.ex = Exec(ir, loop_bound=loop_bound, max_paths=max_paths)
        self.ex.deadline = time.process_time() + budget_s
        lib.install(self.ex, *lib.ALL)
        self.RS = ir.typeid(M + '.RuntimeState'); self.REQ = ir.typeid('net/http.Request')
        self.LW = ir.typeid('*' + KM + '/lib/instrumentedwriter.LoggingWriter')
        self.ex.hints = [
            nonnil_ptr(r'^\*r\.URL$'),
            nonnil_ptr(r'^\*state\.(Config\.|passwordAttemptGlobalLimiter|htmlTemplate|textTemplates|db$|cacheDB$|dbDone|vipClient|webAuthn|isAdminCache)'),
            nonnil_iface(r'^\*state\.logger$|^G:.*\.logger$|^G:.*eventNotifier$'),
            pin(r'^G:.*\.eventNotifier$', lambda ex, st, tid, name: Ptr(st.alloc(Opaque('eventNotifier')))),
        ]
        self.ex.inline = self.inline_policy
        self.first_party = re.compile('^\\(?\\*?' + re.escape(KM) + '/')
        self.extra_inline = re.compile(r'^\(net/url\.Values\)\.(Get|Has)$')
        self.no_inline = re.compile(r'NEVERMATCH')

    def inline_policy(self, name):
        if self.no_inline.search(name): return False
        return bool(self.first_party.search(name) or self.extra_inline.search(name))

    def add_hints(self, *h):
        self.ex.hints = list(h) + self.ex.hints

    def stubs(self, d):
        lib.install_more(self.ex, d) if hasattr(lib, 'install_more') else None

    def stub(self, name, fn):
        self.ex.stubs[name] = lib.counted(self.ex, name if isinstance(name, str) else name.pattern, fn)

    def stub_pat(self, pattern, fn):
        self.ex.stub_pats.insert(0, (re.compile(pattern), lib.counted(self.ex, pattern, fn)))

    def mkstate(self):
        st = State()
        state = Ptr(st.alloc(Lazy(self.RS, '*state'))); r = Ptr(st.alloc(Lazy(self.REQ, '*r')))
        w = IfaceV(self.LW, Ptr(st.alloc(Opaque('w'))))
        return st, state, w, r

    def run(self, handler, st=None, args=None):
        if st is None:
            st, state, w, r = self.mkstate(); args = [state, w, r]
        t = time.time()
        paths = self.ex.run(handler, args, st)
        self.wall = time.time() - t
        return paths


def routes(ir):
    """route table from main's SSA: every (*http.ServeMux).HandleFunc/Handle and http.HandleFunc/Handle call with a constant path"""
    out = []
    for fname, fn in ir.funcs.items():
        if fn.get('pkg') != M: continue
        regs = {}
        for b in fn['blocks']:
            for ins in b['instrs']:
                if 'reg' in ins: regs[ins['reg']] = ins
        def resolve(o, depth=0):
            if o is None or depth > 6: return None
            if o['k'] == 'func': return o['name']
            if o['k'] == 'reg' and o['name'] in regs:
                d = regs[o['name']]
                if d['op'] == 'MakeClosure':
                    n = d['fn']['name']
                    return n[:-6] if n.endswith('$bound') else n
                if d['op'] in ('ChangeType', 'MakeInterface', 'ChangeInterface', 'Convert'): return resolve(d['x'], depth + 1)
                if d['op'] == 'Call':
                    c = d['call']
                    if c['mode'] == 'static' and c['callee'] in ('net/http.HandlerFunc',): return resolve(c['args'][0], depth + 1)
                    return ('call', c.get('callee'), [resolve(a, depth + 1) for a in c['args']])
            return None
        for b in fn['blocks']:
            for ins in b['instrs']:
                if ins['op'] != 'Call': continue
                c = ins['call']
                cal = c.get('callee', '')
                if cal in ('(*net/http.ServeMux).HandleFunc', '(*net/http.ServeMux).Handle', 'net/http.HandleFunc', 'net/http.Handle'):
                    a = c['args']
                    if cal.startswith('(*'): mux, patho, ho = a[0], a[1], a[2]
                    else: mux, patho, ho = None, a[0], a[1]
                    path = patho.get('str') if patho['k'] == 'const' else None
                    out.append({'path': path, 'mux': 'admin' if mux is None else 'service', 'handler': resolve(ho), 'in': fname, 'pos': ins.get('pos')})
    return out


def inject_after(H, stub_name, orig_stub, point_ok, make_b):
    """schedule exploration at event granularity: after the stubbed call `stub_name` executed by request A (and accepted by point_ok),
    fork a schedule in which request B runs to completion at that point (B's frames are pushed on A's stack, so A resumes afterwards).
    make_b(ex, st) -> (function name, args).  At most one injection per path."""
    def stub(ex, st, a, ins):
        r = orig_stub(ex, st, a, ins)
        states = r if type(r) is list else None
        if states is None:
            lib.setreg(st, ins, r); states = [st]
        out = []
        for s in states:
            out.append(s)
            if s.status != 'run' or s.aux.get('injected') or any(f.tag for f in s.frames): continue
            if not point_ok(s): continue
            s2 = s.fork(); s2.aux['injected'] = len(s2.events)
            fname, args = make_b(ex, s2)
            f = Frame(ex.ir.funcs[fname], args); f.tag = 'B'; f.ret = None
            s2.frames.append(f); ex.encoded.add(fname)
            out.append(s2)
        return out
    H.stub(stub_name, stub)
