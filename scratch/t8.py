import sys; sys.path.insert(0,'/verif')
from checks.c02 import *
from symx.check import Check
chk = Check('C02','quick'); ir = chk.load_ir()
H, path = setup(ir, 1)
st, state, w, r = H.mkstate(); st.pc.append(z3.PrefixOf(SV(PREFIX), path))
def cb(ex, p, e):
    if e['kind']=='ssh':
        m = ex.getfield(p, e['cert']['Permissions'], ex.ir.typeid('golang.org/x/crypto/ssh.Permissions'), 'Extensions')
        print('MAP', m, p.heap[m.obj]['base'], [(w[0], term(w[1],60)) for w in p.heap[m.obj]['writes']], 'G' , [k for k in p.aux.get('G',{}) if 'certgen' in k])
H.ex.on_sign = cb
paths = H.run(handler_for(ir, PREFIX), st, [state, w, r])
print(len(paths))
