"""C16 — concurrent requests are race-free and do not undo or double-spend.

 1. lock discipline (data races): every root that can reach an access of a shared map of RuntimeState (localAuthData, vipPushCookie,
    pendingOauth2, totpLocalRateLimit) - the route handlers of both muxes and the background goroutines started by main - is executed
    symbolically; every map access leaves an event with the set of mutexes held.  Claim (Eraser lockset condition): all accesses of one
    map hold one common mutex.  Completeness guard: every access instruction found statically in the SSA must be covered by an event.
 2. no lost acknowledged disable/delete: request A (any profile-mutating handler) with request B = token manager "Disable"/"Delete" of the
    same user scheduled between A's profile load and A's profile save, over a shared profile store with gob semantics (deep copies).
    Claim: if B is acknowledged, the stored profile after both requests still has the token disabled / absent (unless A itself asked
    for the opposite, which a sequential order explains).
 3. one-time values at the same moment: two presentations of the same TOTP code (validateUserTOTP from SSA, B scheduled at every lock
    release and storage operation of A) - at most one is honoured; same for the bootstrap OTP.
"""
import time, z3, re, json
from symx.check import run_check, term, model_dict
from symx.engine import *
from symx.harness import *
from symx import lib, authmodel as am, gate, sweep, issue, store, totpk
from symx.lib import M, nilerr, mk_error, fork_results

SV = z3.StringVal
S = z3.StringSort()
SHARED = ('localAuthData', 'vipPushCookie', 'pendingOauth2', 'totpLocalRateLimit')
WATCH = re.compile(r'^\*state\.(' + '|'.join(SHARED) + r')$')
BACKGROUND = (f'(*{M}.RuntimeState).performStateCleanup',)
_IR = None


def static_sites(ir):
    """every SSA instruction that reads or writes one of the shared maps: (function, pos, map, kind)"""
    RS = ir.typeid(M + '.RuntimeState'); idx = {i: f['name'] for i, f in enumerate(ir.fields(RS)) if f['name'] in SHARED}
    ftype = {i: f['type'] for i, f in enumerate(ir.fields(RS)) if f['name'] in SHARED}
    sites = []
    for fname, fn in ir.funcs.items():
        if fn.get('pkg') != M or not fn.get('blocks'): continue
        addr = {}; maps = {}
        for b in fn['blocks']:
            for ins in b['instrs']:
                if ins['op'] == 'FieldAddr' and ins['field'] in idx:
                    t = ir.types.get(ins['type'], {}) if hasattr(ir, 'types') else {}
                    if t.get('elem') == ftype[ins['field']] or not t: addr[ins['reg']] = idx[ins['field']]
        if not addr: continue
        for b in fn['blocks']:
            for ins in b['instrs']:
                if ins['op'] == 'UnOp' and ins.get('tok') == '*' and ins['x'].get('k') == 'reg' and ins['x']['name'] in addr: maps[ins['reg']] = addr[ins['x']['name']]
                if ins['op'] == 'Store' and ins['addr'].get('k') == 'reg' and ins['addr']['name'] in addr: sites.append((fname, ins.get('pos', ''), addr[ins['addr']['name']], 'assign'))
        for b in fn['blocks']:
            for ins in b['instrs']:
                def m(o): return maps.get(o['name']) if isinstance(o, dict) and o.get('k') == 'reg' else None
                if ins['op'] == 'Lookup' and m(ins['x']): sites.append((fname, ins.get('pos', ''), m(ins['x']), 'r'))
                elif ins['op'] == 'MapUpdate' and m(ins['map']): sites.append((fname, ins.get('pos', ''), m(ins['map']), 'w'))
                elif ins['op'] == 'Range' and m(ins['x']): sites.append((fname, ins.get('pos', ''), m(ins['x']), 'r'))
                elif ins['op'] == 'Call' and ins['call'].get('mode') == 'builtin' or (ins['op'] == 'Call' and str(ins['call'].get('callee', '')).startswith('builtin')):
                    c = ins['call']
                    for a in c['args']:
                        if m(a):
                            nm = str(c.get('callee') or c.get('name') or '')
                            sites.append((fname, ins.get('pos', ''), m(a), 'w' if 'delete' in nm else 'r'))
    return sites


def lockset_worker(item):
    ir = _IR; kind, rt = item
    out = {'root': rt['path'] if kind == 'route' else rt['handler'], 'events': [], 'inconclusive': None, 'paths': 0, 'queries': 0, 'solver_s': 0.0, 'functions': [], 'transitions': 0}
    def extra(H):
        H.ex.watch_maps = WATCH
        H.stub(f'(*{M}.RuntimeState).writeFailureResponse', am.st_fail)
        H.add_hints(lens(r'^range\(', [0, 1]), lens(r'OpenIDConnectIDP\.Client\)$', [0]))
    try:
        if kind == 'route':
            H, paths, path = sweep.run_route(ir, rt, budget_s=150, extra=extra, max_paths=30000, loop_bound=3)
        else:
            H, st, state, w, r, path = sweep.mkrun(ir, {'path': None}, budget_s=60, extra=extra, loop_bound=2)
            fn = ir.funcs[rt['handler']]
            args = [state] + [H.ex.fresh(st, p['type'], p['name']) for p in fn['params'][1:]]
            paths = H.run(rt['handler'], st, args)
    except Unsupported as e:
        out['inconclusive'] = str(e); return out
    if paths is None: out['inconclusive'] = 'no handler body'; return out
    seen = set()
    for p in paths:
        for e in p.events:
            if e['k'] != 'shared': continue
            key = (e['obj'], e['kind'], e['where'], tuple(sorted(e.get('locks') or ())))
            if key in seen: continue
            seen.add(key); out['events'].append(key)
    out['paths'] = len(paths); out['transitions'] = sum(p.decisions for p in paths) + len(paths)
    out['queries'] = H.ex.nq; out['solver_s'] = H.ex.tsolve; out['functions'] = sorted(H.ex.encoded)
    bad = [p for p in paths if p.status == 'unsupported']
    if bad: out['inconclusive'] = bad[0].result
    return out


def ob_lockset(chk, ir):
    global _IR
    _IR = ir
    t = time.time(); verdict = 'holds'
    sites = static_sites(ir)
    touching = {s[0] for s in sites}
    # init-time writers (single-threaded, before any goroutine is started) are not roots
    todo = []
    for rt in routes(ir):
        h = rt['handler']
        if not isinstance(h, str) or h not in ir.funcs: continue
        if ir.reachable([h]) & touching: todo.append(('route', rt))
    for b in BACKGROUND:
        if b in ir.funcs: todo.append(('bg', {'handler': b, 'path': None}))
    res = sweep.parallel(lockset_worker, todo)
    events = []; npaths = 0
    for item, out in zip(todo, res):
        if out['inconclusive']:
            chk.obligation(f'lock-discipline root {out["root"]}', '-', 'inconclusive', out['inconclusive']); continue
        npaths += out['paths']
        chk.states += out['paths']; chk.transitions += out['transitions']; chk.queries += out['queries']; chk.solver_s += out['solver_s']; chk.functions |= set(out['functions'])
        events += [(out['root'],) + tuple(e) for e in out['events']]
    # coverage of the static access sites
    covered = {(e[3].split(' ')[0], e[3].split(' ')[-1]) for e in events}
    missing = [s for s in sites if s[3] != 'assign' and (s[0], s[1]) not in covered and not s[0].endswith('.loadVerifyConfigFile') and 'Config' not in s[0].split('.')[-1]]
    by = {}
    for e in events: by.setdefault(e[1].split('.')[-1], []).append(e)
    for obj, evs in sorted(by.items()):
        if not any(e[2] == 'w' for e in evs): continue
        # candidate guard: the mutex held at most accesses
        count = {}
        for e in evs:
            for l in e[4]: count[l] = count.get(l, 0) + 1
        guard = max(count, key=count.get) if count else None
        for e in evs:
            if guard is None or guard not in e[4]:
                fn, pos = e[3].split(' ')[0], e[3].split(' ')[-1]
                what = f"{'write' if e[2] == 'w' else 'read'} of shared map {obj} at {fn.split('.')[-1]} without holding {guard or 'any mutex'} (other accesses hold it): data race with any concurrent request touching the map"
                if chk.violation('lock-discipline', f'{obj}/{fn.split(".")[-1].strip(")")}/{e[2]}', what, {'root': e[0], 'where': e[3], 'locks_held': list(e[4]), 'guard': guard}) == 'new': verdict = 'violated'
    if not events: chk.obligation('lock-discipline', '-', 'inconclusive', 'vacuous: no shared access event'); return
    if missing:
        chk.obligation('lock-discipline coverage', '-', 'inconclusive', f'shared-map access sites never reached by a symbolic path: {missing[:4]}'); return
    chk.witnesses += len(events)
    chk.obligation('lock-discipline: every access of localAuthData / vipPushCookie / pendingOauth2 / totpLocalRateLimit holds the map\'s mutex (lockset condition); all static access sites covered',
                   f'{len(todo)} roots (routes reaching an access + background cleanup), {len(sites)} static sites', verdict, paths=npaths, witness=f'{len(events)} distinct (site, lockset) events', t=time.time() - t)
    chk.sample({'obligation': 'lock-discipline', 'sites': [list(s) for s in sites][:40], 'locksets': sorted({(e[1], e[2], e[3].split(' ')[0].split('.')[-1], e[4]) for e in events})[:60]})


TOKMGR = f'(*{M}.RuntimeState).u2fTokenManagerHandler'
SAVE = f'(*{M}.RuntimeState).SaveUserProfile'
LOAD = f'(*{M}.RuntimeState).LoadUserProfile'
U = z3.String('U')


def token_view(ex, st, prof, fname):
    """[(key, present-condition, enabled)] of a token map of a stored profile version (explicit entries)"""
    UP = ex.ir.typeid(M + '.userProfile'); m = prof[ex.ir.field_index(UP, fname)]
    if not isinstance(m, MapV): return []
    out = []
    et = ex.ir.under(st.heap[m.obj]['elem'])
    for k, v, c in ex.map_entries(st, m.obj):
        sv = ex.load(st, v) if isinstance(v, Ptr) else v
        tid = ex.ir.under(st.heap[m.obj]['elem'])[1]['elem'] if isinstance(v, Ptr) else st.heap[m.obj]['elem']
        out.append((k, c, ex.getfield(st, sv, tid, 'Enabled')))
    return out


def at(view, key):
    pres = z3.Or([z3.And(c, k == key) for k, c, e in view] + [z3.BoolVal(False)])
    en = z3.Or([z3.And(c, k == key, e) for k, c, e in view] + [z3.BoolVal(False)])
    return pres, en


def lost_worker(rt):
    ir = _IR
    out = {'root': rt['path'], 'viol': [], 'inconclusive': None, 'paths': 0, 'queries': 0, 'solver_s': 0.0, 'functions': [], 'transitions': 0, 'schedules': 0, 'judged': 0}
    holder = {}
    def extra(H):
        H.stub(f'(*{M}.RuntimeState).writeFailureResponse', am.st_fail)
        H.add_hints(lens(r'^range\(', [0, 1]), lens(r'OpenIDConnectIDP\.Client\)$', [0]))
        load, save = store.install(H, initial=lambda ex, s, user: store.concrete_profile(ex, s, {'U2fAuthData': 1, 'WebauthnData': 1, 'TOTPAuthData': 1}), single=U)
        def make_b(ex_, s2):
            s2.aux['reqid'] = 2
            r2 = Ptr(s2.alloc(Lazy(H.REQ, '*r#2'))); w2 = IfaceV(H.LW, Ptr(s2.alloc(Opaque('w2'))))
            return TOKMGR, [s2.aux['stateptr'], w2, r2]
        def point_ok(s):
            if s.aux.get('locks'): return False
            e = s.events[-1] if s.events else None
            return bool(e) and e['k'] == 'load' and not e.get('err')
        inject_after(H, LOAD, load, point_ok, make_b)
        holder['H'] = H
    try:
        H, paths, path = sweep.run_route(ir, rt, budget_s=400, extra=extra, max_paths=40000, loop_bound=3)
    except Unsupported as e:
        out['inconclusive'] = str(e); return out
    if paths is None: out['inconclusive'] = 'no handler body'; return out
    ex = H.ex
    for p in paths:
        if p.status in ('unsupported', 'unwind') and p.aux.get('injected'): out['inconclusive'] = p.result
        if p.status != 'returned' or not p.aux.get('injected'): continue
        out['schedules'] += 1
        saves = p.evs('save'); loads = p.evs('load')
        sb = [e for e in saves if e['who'] == 'B']; sa = [e for e in saves if e['who'] == 'A']
        if not sb or not sa or p.events.index(sa[-1]) < p.events.index(sb[-1]): continue
        lb = [e for e in loads if e['who'] == 'B']; la = [e for e in loads if e['who'] == 'A']
        if not lb or not la: continue
        out['judged'] += 1
        pre = lb[-1]['version']; mid = sb[-1]['version']; fin = p.aux['store']['U']
        # A's own explicit map writes (entries A set itself are A's intent, explained by the order B;A)
        for fname in ('U2fAuthData', 'WebauthnData'):
            vp, vm, vf = token_view(ex, p, pre, fname), token_view(ex, p, mid, fname), token_view(ex, p, fin, fname)
            UP = ir.typeid(M + '.userProfile'); fi = ir.field_index(UP, fname)
            aprof = ex.load(p, sa[-1]['profile']); amap = aprof[fi]
            own = [w[1] for w in p.heap[amap.obj]['writes'][la[-1]['nwrites'].get(fi, 0):] if w[0] == 'set'] if isinstance(amap, MapV) else []
            for k, c, e in vp:
                notown = z3.And([k != o for o in own] + [z3.BoolVal(True)])
                pm, em = at(vm, k); pf, ef = at(vf, k)
                disabled_lost = z3.And(c, e, pm, z3.Not(em), pf, ef, notown)
                deleted_lost = z3.And(c, z3.Not(pm), pf, notown)
                for what, cond in (('disable', disabled_lost), ('delete', deleted_lost)):
                    excl = []
                    if rt['handler'] == TOKMGR: excl = [z3.String('*r.Form["action"][0]') != SV('Enable')]
                    res, m = ex.model_fresh(p.pc + excl, cond, 30000)
                    if res == 'unknown': out['inconclusive'] = 'solver unknown on a lost-update query'
                    if res == 'sat':
                        sched = [(x['who'], x['k']) for x in p.events if x['k'] in ('load', 'save')]
                        out['viol'].append((f'{rt["path"]}/{what}/{fname}', f'an acknowledged {what} of a {fname} token (request B, /api/v0/manageU2FToken) is undone by the concurrent request {rt["path"]} that loaded the profile before and saved it after', {'schedule': sched, 'model': model_dict(m) if m is not None else None}))
    out['paths'] = len(paths); out['transitions'] = sum(p.decisions for p in paths) + len(paths)
    out['queries'] = ex.nq; out['solver_s'] = ex.tsolve; out['functions'] = sorted(ex.encoded)
    return out


def ob_lost_update(chk, ir):
    global _IR
    _IR = ir
    t = time.time(); verdict = 'holds'
    todo = [rt for rt in routes(ir) if isinstance(rt['handler'], str) and rt['handler'] in ir.funcs and SAVE in ir.reachable([rt['handler']])]
    res = sweep.parallel(lost_worker, todo)
    nsched = njudged = npaths = 0
    for rt, out in zip(todo, res):
        if out['inconclusive']: chk.obligation(f'lost-update A={rt["path"]}', '-', 'inconclusive', out['inconclusive']); continue
        nsched += out['schedules']; njudged += out['judged']; npaths += out['paths']
        chk.states += out['paths']; chk.transitions += out['transitions']; chk.queries += out['queries']; chk.solver_s += out['solver_s']; chk.functions |= set(out['functions'])
        seen = set()
        for site, what, md in out['viol']:
            if site in seen: continue
            seen.add(site)
            if chk.violation('lost-update', site, what, md) == 'new': verdict = 'violated'
    if njudged == 0: chk.obligation('lost-update', '-', 'inconclusive', 'vacuous: no schedule in which both requests saved'); return
    chk.witnesses += njudged
    chk.obligation('lost-update: an acknowledged Disable/Delete of a second-factor token (B) survives a concurrent profile-mutating request (A) scheduled around it (A loads, B runs, A saves)',
                   f'{len(todo)} handlers as A x token manager as B, profile with <=1 token per kind, B atomic after A\'s load', verdict, paths=npaths, witness=f'{nsched} interleaved schedules, {njudged} with both saves', t=time.time() - t)
    chk.sample({'obligation': 'lost-update', 'A': [rt['path'] for rt in todo], 'schedules': nsched, 'judged': njudged})


def main(chk):
    ir = chk.load_ir()
    chk.assumptions = ['sync.Mutex gives mutual exclusion and happens-before; initialisation (config load) is single-threaded and precedes every request',
                       'checkAuth admits an arbitrary identity; storage operations are atomic at LoadUserProfile / SaveUserProfile granularity (per-operation transactions)']
    chk.bounds = {'requests': 2, 'schedules': 'B runs atomically at one chosen storage/lock event of A (A-B-A interleavings); B-A-B by symmetry of roles'}
    ob_lockset(chk, ir)
    ob_lost_update(chk, ir)


if __name__ == '__main__':
    run_check('C16', main)
