"""C09 — a sealed server signs nothing; only the right passphrase unseals it, once.

 1. sealed sweep: every route of both muxes (route table from main's SSA) executed with Signer = Ed25519Signer = nil and no published keys:
    no signing / token-minting / session-cookie event on any path; /readyz answers 503.  (Paths that end in a nil-signer panic sign
    nothing either; they are listed.)
 2. unseal: secretInjectorHandler + unsealCA + loadSignersFromPemData + signerPublicKeyToKeymasterKeys from SSA; pgpDecryptFileData is the
    library contract  err = nil <=> password = passphrase(blob).  No TLS / no verified chain => refused before any decryption; wrong
    passphrase or any later failure => still sealed, no ready signal; success => signer set, exactly one ready signal; already unsealed =>
    error, nothing changes.
 3. one transition under interleaving: a second injection request is scheduled at every lock release of the first (event-granularity
    schedule exploration on the real code): at most one of the two performs the transition / sends the ready signal.
 4. after a successful unseal the published keys include the public halves of every signing key (fingerprint = uninterpreted injective).
"""
import time, z3, re
from symx.check import run_check, term, model_dict
from symx.engine import *
from symx.harness import *
from symx import lib, authmodel as am, gate, sweep, issue
from symx.lib import M, nilerr, mk_error, fork_results

SV = z3.StringVal
S = z3.StringSort()


def ob_sealed(chk, ir):
    t = time.time(); verdict = 'holds'; total = 0; nroutes = 0; panics = {}; skipped = []
    for rt in routes(ir):
        h = rt['handler']
        if h == INJ: continue      # the unseal route itself: obligation 2
        if not isinstance(h, str) or h not in ir.funcs:
            skipped.append(f"{rt['path']} ({'static file server / library handler' if h else 'unresolved'})"); continue
        def extra(H):
            H.stub(f'(*{M}.RuntimeState).writeFailureResponse', am.st_fail)
            H.add_hints(lens(r'OpenIDConnectIDP\.Client\)$', [0]))
        try:
            H, paths, path = sweep.run_route(ir, rt, sealed=True, budget_s=240, extra=extra, max_paths=20000)
        except Unsupported as e:
            chk.obligation(f'sealed {rt["path"]}', '-', 'inconclusive', str(e)); continue
        if paths is None: skipped.append(rt['path']); continue
        nroutes += 1; total += len(paths)
        bad = [p for p in paths if p.status in ('unsupported', 'unwind')]
        if bad: chk.absorb(H.ex, paths); chk.obligation(f'sealed {rt["path"]}', '-', 'inconclusive', bad[0].result); continue
        for p in paths:
            if p.status == 'panic': panics[rt['path']] = panics.get(rt['path'], 0) + 1
            for e in p.events:
                if e['k'] in ('sign', 'mint'):
                    if chk.violation('sealed-signs-nothing', rt['path'], f"{e['k']} event while the signer is sealed", None) == 'new': verdict = 'violated'
                if e['k'] == 'setcookie':
                    v = z3.simplify(e['value']) if z3.is_expr(e['value']) else None
                    nm = z3.simplify(e['name']) if z3.is_expr(e['name']) else None
                    if nm is not None and z3.is_string_value(nm) and nm.as_string() == 'auth_cookie' and not (v is not None and z3.is_string_value(v) and v.as_string() == ''):
                        # only a cookie carrying a freshly minted token is a session; re-setting the presented value (logout) is not
                        if any(x['k'] == 'mint' for x in p.events):
                            if chk.violation('sealed-signs-nothing', rt['path'], 'session cookie issued while sealed', None) == 'new': verdict = 'violated'
            if rt['path'] == '/readyz' and p.status == 'returned':
                codes = [z3.simplify(lib.tobv(e['code'])) for e in p.evs('resp.status')]
                if not codes or not all(z3.is_bv_value(c) and c.as_long() == 503 for c in codes):
                    if chk.violation('sealed-signs-nothing', '/readyz', 'readiness does not report 503 while sealed', None) == 'new': verdict = 'violated'
        chk.absorb(H.ex, paths)
    if nroutes == 0: chk.obligation('sealed', '-', 'inconclusive', 'no route'); return
    chk.obligation('sealed-signs-nothing: no sign / mint / session cookie on any path of any route; /readyz = 503', f'{nroutes} routes (service + admin mux), all inputs', verdict, paths=total, t=time.time() - t,
                   witness='nil-signer panic paths (nothing signed): ' + (', '.join(f'{k}: {v}' for k, v in sorted(panics.items())) or 'none'))
    chk.sample({'obligation': 'sealed-signs-nothing', 'routes': nroutes, 'paths': total, 'not_executed': skipped})
    if skipped: chk.notes.append('routes not executed (no first-party handler body): ' + '; '.join(skipped))


def unseal_harness(ir, budget=120):
    H = HandlerRun(ir, loop_bound=6, budget_s=budget); ex = H.ex
    issue.install(H)
    H.ex.ptr_nilable = False
    passphrase = z3.Function('passphrase', S, S)
    def decrypt(ex_, st, a, ins):
        blob, pw = a[0], a[1]
        bt = blob.s if isinstance(blob, BytesV) else z3.String('blob:' + repr(blob))
        pt = pw.s if isinstance(pw, BytesV) else z3.String('pw:' + repr(pw))
        ok = pt == passphrase(bt)
        st.ev('decrypt', blob=bt, password=pt, ok=ok)
        return fork_results(ex_, st, ins, [(z3.Not(ok), lambda s: (NILSLICE(), mk_error(s, SV('cannot decrypt key'), 'pgp'))),
                                           (ok, lambda s: (BytesV(z3.Function('plaintext', S, S)(bt)), nilerr()))])
    H.stub(f'{M}.pgpDecryptFileData', decrypt)
    def get_signer(ex_, st, a, ins):
        b = a[0]; bt = b.s if isinstance(b, BytesV) else z3.String('pem')
        def ok(s):
            s.counter += 1
            return (IfaceV('dyn:signer!%d' % s.counter, Opaque('signer', of=bt)), nilerr())
        return fork_results(ex_, st, ins, [(None, lambda s: (IfaceV(None, None), mk_error(s, SV('pem'), 'pem'))), (None, ok)])
    H.stub(f'{M}.getSignerFromPEMBytes', get_signer)
    for g in ('generateCADer', 'generateSelfRoleRequestingCADer'):
        H.stub(f'{M}.{g}', lambda ex_, st, a, ins, g=g: fork_results(ex_, st, ins, [(None, lambda s: (NILSLICE(), mk_error(s, SV(g), g))), (None, lambda s: (BytesV(z3.String(lib.fresh_name(s, g))), nilerr()))]))
    FP = z3.Function('fingerprint', S, S)
    def fingerprint(ex_, st, a, ins):
        k = a[0]
        inner = k.val if isinstance(k, IfaceV) else k
        ident = SV(repr(getattr(inner, 'of', inner))) if not z3.is_expr(getattr(inner, 'of', None)) else inner.of
        if isinstance(inner, Opaque) and inner.what == 'pub':
            src = inner.of; sv = src.val if isinstance(src, IfaceV) else src
            ident = sv.of if z3.is_expr(getattr(sv, 'of', None)) else SV(repr(sv))
        elif isinstance(inner, Opaque) and hasattr(inner, 'name'): ident = z3.String('keyid:' + inner.name)
        return (FP(ident), nilerr())      # contract: every key kind the loaders accept has an SSH encoding (ssh.NewPublicKey succeeds)
    H.stub(f'{M}.getKeyFingerprint', fingerprint)
    H.stub_pat(r'^crypto\.Signer\.Public$|Signer\)\.Public$|\(dyn:signer!\d+\)\.Public$', sweep.st_signer_public)
    H.stub(f'(*{M}.RuntimeState).writeFailureResponse', am.st_fail)
    H.add_hints(lens(r'^len\(\*r\.Form\[', [1]), lens(r'KeymasterPublicKeys\)$', [0, 1]),
                pin(r'KeymasterPublicKeys\[\d\]$', lambda ex_, st, tid, name: IfaceV('dyn:pubkey', Opaque('pubkey', name=name))),
                (re.compile(r'^\*r\.TLS$'), lambda ex_, st, tid, name: sweep._choice_nil(ex_, st, tid, name)),
                lens(r'VerifiedChains\)$', [0, 1]), lens(r'VerifiedChains\[0\]\)$', [1]),
                pin(r'^\*state\.(SSHCARawFileContent)$', lambda ex_, st, tid, name: BytesV(z3.String('blob.main'))))
    return H, passphrase, FP


INJ = f'(*{M}.RuntimeState).secretInjectorHandler'


def ob_unseal(chk, ir):
    t = time.time()
    if INJ not in ir.funcs: chk.obligation('unseal', '-', 'inconclusive', 'ANCHOR-LOST ' + INJ); return
    RS = ir.typeid(M + '.RuntimeState'); si = ir.field_index(RS, 'Signer')
    verdict = 'holds'; total = 0; nsucc = 0
    for pre in ('sealed', 'unsealed'):
        for ed in ('no-ed25519', 'ed25519'):
            H, passphrase, FP = unseal_harness(ir); ex = H.ex
            H.add_hints(pin(r'^\*state\.Ed25519CAFileContent$', (lambda ex_, st, tid, name: BytesV(z3.String('blob.ed'))) if ed == 'ed25519' else (lambda ex_, st, tid, name: NILSLICE())))
            if pre == 'sealed': H.add_hints(pin(r'^\*state\.(Signer|Ed25519Signer)$', IfaceV(None, None)))
            else: H.add_hints(nonnil_iface(r'^\*state\.Signer$', 'oldSigner'), pin(r'^\*state\.Ed25519Signer$', IfaceV(None, None)))
            chan = {}
            def send_hook(ex_, st, fr, ins): pass
            st, state, w, r = H.mkstate()
            paths = ex.run(INJ, [state, w, r], st); total += len(paths)
            for p in paths:
                if p.status == 'panic':
                    r_, m = ex.model(p.pc)
                    if chk.violation('unseal', 'secretInjectorHandler/panic', 'panics: ' + p.result, model_dict(m)) == 'new': verdict = 'violated'
                    continue
                if p.status != 'returned': chk.absorb(ex, paths); chk.obligation('unseal', f'{pre}/{ed}', 'inconclusive', p.result); return
                sv = ex.load(p, Ptr(state.obj, (si,)))
                sealed_after = isinstance(sv, IfaceV) and sv.tid is None
                sends = p.evs('send'); dec = p.evs('decrypt')
                ok200 = any(z3.is_bv_value(z3.simplify(lib.tobv(e['code']))) and z3.simplify(lib.tobv(e['code'])).as_long() == 200 for e in p.evs('resp.status'))
                tls = p.memo.get('*r.TLS'); nch = p.memo.get('len(**r.TLS.VerifiedChains)')
                def v(site, what, m=None):
                    nonlocal verdict
                    if chk.violation('unseal', site, what, model_dict(m) if m is not None else None) == 'new': verdict = 'violated'
                if (isinstance(tls, Nil) or nch == 0) and (dec or not sealed_after and pre == 'sealed' or sends):
                    v('secretInjectorHandler/no-client-cert', 'injection processed without TLS / verified client certificate')
                if pre == 'unsealed':
                    changed = not (isinstance(sv, IfaceV) and isinstance(sv.val, Opaque) and sv.val.what == 'oldSigner')
                    if changed or sends or ok200: v('unsealCA/already-unsealed', 'a repeated injection on an unsealed server changes state / signals / answers OK')
                    continue
                if not sealed_after:
                    nsucc += 1
                    # success requires every decryption on the path to have used the right passphrase
                    good = z3.And([d['ok'] for d in dec]) if dec else z3.BoolVal(False)
                    r_, m = ex.model(p.pc, z3.Not(good))
                    if r_ == 'sat': v('unsealCA/wrong-passphrase', 'unsealed although a decryption did not use the right passphrase', m)
                    if len(sends) != 1: v('unsealCA/ready-signal', f'{len(sends)} ready signals on a successful unseal')
                    if not ok200: v('secretInjectorHandler', 'successful unseal not acknowledged with 200')
                    # published keys include the signing keys
                    kl = ex.load(p, Ptr(state.obj, (ir.field_index(RS, 'KeymasterPublicKeys'),)))
                    keys = ex.slice_values(p, kl) if isinstance(kl, SliceV) else []
                    def ident(k):
                        inner = k.val if isinstance(k, IfaceV) else k
                        if isinstance(inner, Opaque) and inner.what == 'pub':
                            svv = inner.of.val if isinstance(inner.of, IfaceV) else inner.of
                            return svv.of if z3.is_expr(getattr(svv, 'of', None)) else SV(repr(svv))
                        if isinstance(inner, Opaque) and hasattr(inner, 'name'): return z3.String('keyid:' + inner.name)
                        return SV(repr(inner))
                    signers = [sv]
                    edv = ex.load(p, Ptr(state.obj, (ir.field_index(RS, 'Ed25519Signer'),)))
                    if isinstance(edv, IfaceV) and edv.tid is not None: signers.append(edv)
                    if __import__('os').environ.get('DBG2'): print('SUCC', ed, len(keys), [term(ident(k)) for k in keys], len(signers))
                    for sg in signers:
                        sid = sg.val.of if z3.is_expr(getattr(sg.val, 'of', None)) else SV(repr(sg.val))
                        have = z3.Or([FP(ident(k)) == FP(sid) for k in keys]) if keys else z3.BoolVal(False)
                        r_, m = ex.model(p.pc, z3.Not(have))
                        if r_ == 'sat' and __import__('os').environ.get('DBG'): print('DBG keys', [term(ident(k)) for k in keys], 'signer', term(sid), [ (e['k']) for e in p.events][-12:])
                        if r_ == 'sat': v('signerPublicKeyToKeymasterKeys', 'a signing key is missing from the published keymaster keys after unsealing', m)
                else:
                    if sends: v('unsealCA/ready-signal', 'ready signal although the server stays sealed')
                    if ok200: v('secretInjectorHandler', 'answers 200 although the server stays sealed')
                    edv = ex.load(p, Ptr(state.obj, (ir.field_index(RS, 'Ed25519Signer'),)))
            chk.absorb(ex, paths)
    if nsucc == 0: chk.obligation('unseal', '-', 'inconclusive', 'vacuous: no successful unseal path'); return
    chk.witnesses += nsucc
    chk.obligation('unseal: TLS client certificate required; only the right passphrase unseals; failure leaves the server sealed; one ready signal; published keys include the signing keys',
                   'sealed/unsealed x with/without Ed25519 CA x 0..1 pre-published keys x all form inputs', verdict, paths=total, witness=f'{nsucc} successful unseal paths', t=time.time() - t)


def ob_interleave(chk, ir):
    """two injections: B is scheduled at every lock release of A"""
    t = time.time(); RS = ir.typeid(M + '.RuntimeState'); si = ir.field_index(RS, 'Signer')
    H, passphrase, FP = unseal_harness(ir, budget=200); ex = H.ex
    H.add_hints(pin(r'^\*state\.Ed25519CAFileContent$', lambda ex_, st, tid, name: NILSLICE()), pin(r'^\*state\.(Signer|Ed25519Signer)$', IfaceV(None, None)),
                lens(r'KeymasterPublicKeys\)$', [0]), nonnil_ptr(r'^\*r(#2)?\.TLS$'), lens(r'VerifiedChains\)$', [1]), nonnil_ptr(r'^\*r#2\.URL$'), lens(r'^len\(\*r#2\.Form\[', [1]))
    st, state, w, r = H.mkstate()
    def make_b(ex_, s2):
        s2.aux['reqid'] = 2
        r2 = Ptr(s2.alloc(Lazy(H.REQ, '*r#2'))); w2 = IfaceV(H.LW, Ptr(s2.alloc(Opaque('w2'))))
        return INJ, [state, w2, r2]
    inject_after(H, '(*sync.Mutex).Unlock', lib.mu_unlock, lambda s: True, make_b)
    paths = ex.run(INJ, [state, w, r], st); verdict = 'holds'; ninj = 0
    for p in paths:
        if p.status == 'panic': continue
        if p.status != 'returned': chk.absorb(ex, paths); chk.obligation('one-transition', '-', 'inconclusive', p.result); return
        if not p.aux.get('injected'): continue
        ninj += 1
        sends = p.evs('send')
        oks = [e for e in p.evs('resp.status') if z3.is_bv_value(z3.simplify(lib.tobv(e['code']))) and z3.simplify(lib.tobv(e['code'])).as_long() == 200]
        if len(sends) > 1 or len({e['who'] for e in oks}) > 1:
            sched = [(e['who'], e['k']) for e in p.events if e['k'] in ('lock', 'unlock', 'decrypt', 'send')]
            if chk.violation('one-transition', 'unsealCA', f'two interleaved injections both perform the unseal transition ({len(sends)} ready signals)', {'schedule': sched}) == 'new': verdict = 'violated'
    chk.absorb(ex, paths)
    if ninj == 0: chk.obligation('one-transition', '-', 'inconclusive', 'no schedule with an injected second request'); return
    chk.obligation('one-transition: two interleaved injections (second one scheduled at every lock release of the first) yield at most one transition', '2 requests, schedules at lock-release granularity', verdict, paths=len(paths), witness=f'{ninj} interleaved schedules', t=time.time() - t)
    chk.sample({'obligation': 'one-transition', 'schedules': ninj})


def main(chk):
    ir = chk.load_ir()
    chk.assumptions = ['pgpDecryptFileData: err = nil <=> password is the passphrase the blob was encrypted with (x/crypto/openpgp contract)', 'getKeyFingerprint injective on key identity',
                       'sync.Mutex gives mutual exclusion; schedules are explored at lock-release granularity only', 'checkAuth admits an arbitrary identity (sealed handlers must refuse before or regardless)']
    chk.bounds = {'routes': 'all with a first-party handler', 'requests': '1 (unseal) / 2 interleaved', 'pre-published keys': '0..1'}
    ob_sealed(chk, ir)
    ob_unseal(chk, ir)
    ob_interleave(chk, ir)


if __name__ == '__main__':
    run_check('C09', main)
