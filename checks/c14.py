"""C14 — password and one-time-code guessing is throttled.

 1. limiter before backend: both password entry points (login form / basic-auth header on the login endpoint, and the basic-auth branch of the
    real checkAuth) executed from SSA: every password-backend call is preceded on its path by a limiter Allow() that returned true, and
    Allow() = false is answered 429 with no backend call.
 2. the bucket (x/time/rate Limiter.Allow -> reserveN / advance / tokensFromDuration executed from the library's SSA, float64 by the FP
    theory) at the configured rates (default 10/s burst 100; floor 1/s burst 10): one inductive step from an arbitrary state
    0 <= tokens <= burst, last <= now: admits only if min(burst, tokens + rate*dt) >= 1, then debits one token, and keeps the invariant.
 3. TOTP: validateUserTOTP from SSA from an arbitrary rate-limit record, two consecutive calls at arbitrary instants: two evaluations of a code
    are >= 2 s apart; after every fifth consecutive failure the lock-out instant lies at least an hour in the future and grows, and no code is
    evaluated before it.
"""
import time, z3, re
from symx.check import run_check, term, model_dict
from symx.engine import *
from symx.harness import *
from symx import lib, authmodel as am, gate, sweep, totpk
from symx.lib import M, nilerr, mk_error, fork_results

SV = z3.StringVal
SEC = 10**9


def ob_limiter_before_backend(chk, ir):
    t = time.time(); verdict = 'holds'; total = 0; nback = 0
    def examine(paths, site):
        nonlocal verdict, nback
        for p in paths:
            if p.status in ('unsupported', 'unwind'): return p.result
            ev = p.events
            for i, e in enumerate(ev):
                if e['k'] != 'backend': continue
                nback += 1
                allows = [x for x in ev[:i] if x['k'] == 'allow']
                if not allows:
                    if chk.violation('limiter-before-backend', site, 'the password backend is consulted without asking the attempt limiter first', None) == 'new': verdict = 'violated'
                    continue
                if not z3.is_true(z3.simplify(allows[-1]['result'])) and H.ex.feasible(p.pc, z3.Not(allows[-1]['result'])):
                    if chk.violation('limiter-before-backend', site, 'the password backend is consulted although the limiter refused', None) == 'new': verdict = 'violated'
            # refusal => 429 and no backend
            for i, e in enumerate(ev):
                if e['k'] == 'allow' and not H.ex.feasible(p.pc, e['result']):
                    if any(x['k'] == 'backend' for x in ev[i:]):
                        if chk.violation('limiter-before-backend', site, 'backend call after a refused attempt', None) == 'new': verdict = 'violated'
                    codes = [z3.simplify(lib.tobv(x['code'])) for x in ev[i:] if x['k'] in ('fail', 'resp.status')]
                    if not codes or not (z3.is_bv_value(codes[0]) and codes[0].as_long() == 429):
                        if chk.violation('limiter-before-backend', site + '/status', 'a throttled attempt is not answered 429', None) == 'new': verdict = 'violated'
        return None
    # (a) login endpoint
    for rt in routes(ir):
        if rt['path'] != '/api/v0/login': continue
        def extra(H_):
            H_.no_inline = re.compile(r'\.(userHasU2FTokens|userBootstrapOtpHash|getRequiredWebUIAuthLevel|trySelfServiceGenerateBootstrapOTP)$')
            H_.stub(f'(*{M}.RuntimeState).writeFailureResponse', am.st_fail)
            H_.stub(f'(*{M}.RuntimeState).writeHTMLLoginPage', lambda ex, st, a, ins: st.ev('page', kind='login') and None)
            H_.stub(f'(*{M}.RuntimeState).writeHTML2FAAuthPage', lambda ex, st, a, ins: (st.ev('page', kind='2fa'), nilerr())[1])
            H_.stub(f'{M}.checkUserPassword', am.st_checkpw)
            H_.stub('(*golang.org/x/time/rate.Limiter).Allow', am.st_allow)
            H_.add_hints(lens(r'AllowedAuthBackendsFor(Certs|WebUI)\)$', [0]), lens(r'^len\(\*r\.Header\[', [1]), lens(r'^len\(\*r\.Form\[', [1, 2]), lens(r'^len\(', [0, 1]))
            H_.ex.on_mint = lambda ex, st, e: (_ for _ in ()).throw(PathCut('sink stop: logged in'))
        H, paths, path = sweep.run_route(ir, rt, budget_s=120, extra=extra, max_paths=40000)
        total += len(paths); bad = examine(paths, '/api/v0/login'); chk.absorb(H.ex, paths)
        if bad: chk.obligation('limiter-before-backend', '/api/v0/login', 'inconclusive', bad); return
    # (b) basic-auth branch of checkAuth
    H, paths = gate.run_checkauth(ir, z3.BitVec('requiredAuthType', 64), cookies=[0, 1])
    total += len(paths); bad = examine(paths, 'checkAuth/basic-auth'); chk.absorb(H.ex, paths)
    if bad: chk.obligation('limiter-before-backend', 'checkAuth', 'inconclusive', bad); return
    # (c) any other caller of the password backend in package main must be one of the two above
    callers = {n for n, c, _ in ir.callers_of(lambda c: c == f'{M}.checkUserPassword', pkgs={M})}
    known = {f'(*{M}.RuntimeState).loginHandler', f'(*{M}.RuntimeState).checkAuth'}
    for extra_caller in sorted(callers - known):
        if chk.violation('limiter-before-backend', extra_caller.split('.')[-1], 'a further password entry point calls the backend: not covered by the limiter obligations', None) == 'new': verdict = 'violated'
    if nback == 0: chk.obligation('limiter-before-backend', '-', 'inconclusive', 'vacuous: backend never reached'); return
    chk.witnesses += nback
    chk.obligation('limiter-before-backend: every backend call follows Allow() = true; a refused attempt gets 429 and no backend call', 'login endpoint (form, multi-value form, basic-auth header) + checkAuth basic-auth branch; all callers of the backend enumerated', verdict, paths=total, witness=f'{nback} backend calls examined', t=time.time() - t)
    chk.sample({'obligation': 'limiter-before-backend', 'backend_calls': nback, 'callers': sorted(callers)})


def ob_bucket(chk, ir):
    t = time.time(); name = '(*golang.org/x/time/rate.Limiter).Allow'
    if name not in ir.funcs: chk.obligation('bucket', '-', 'inconclusive', 'rate.Limiter.Allow body not in the IR'); return
    LT = ir.typeid('golang.org/x/time/rate.Limiter')
    verdict = 'holds'; total = 0; n = 0
    for rate, burst in ((10, 100), (1, 10)):
        H = HandlerRun(ir, loop_bound=6, budget_s=240); ex = H.ex; ex.ptr_nilable = False
        H.inline_policy = lambda nm: nm.startswith('(*golang.org/x/time/rate.Limiter)') or nm.startswith('(golang.org/x/time/rate.Limit)')
        ex.inline = H.inline_policy
        now = z3.BitVec('now', lib.TW); last = z3.BitVec('lim.last', lib.TW); tokens = z3.FP('lim.tokens', z3.Float64())
        H.stub('time.Now', lambda ex_, st, a, ins: TimeV(now))
        st = State()
        F = lambda v: z3.FPVal(float(v), z3.Float64())
        EPS = rate * 2e-9      # the library admits when the missing fraction of a token is worth less than a nanosecond (duration truncation)
        st.pc += [z3.fpGEQ(tokens, F(-EPS)), z3.fpLEQ(tokens, F(burst)), last <= now, last >= lib.T(lib.ZERO_NS),      # last is a time.Time the limiter stored: never before the zero Time
                   now - last <= lib.T(10**6 * SEC), now >= lib.T(1577836800 * SEC), now <= lib.T(3976214400 * SEC)]
        v = []
        for f in ir.fields(LT):
            v.append({'limit': F(rate), 'burst': z3.BitVecVal(burst, 64), 'tokens': tokens, 'last': TimeV(last)}.get(f['name'], Lazy(f['type'], 'lim.' + f['name'])))
        lim = Ptr(st.alloc(StructV(v)))
        paths = ex.run(name, [lim], st); total += len(paths)
        ti = ir.field_index(LT, 'tokens'); li = ir.field_index(LT, 'last')
        for p in paths:
            if p.status in ('unsupported', 'unwind', 'panic'): chk.absorb(ex, paths); chk.obligation('bucket', f'{rate}/{burst}', 'inconclusive', p.result); return
            ok = p.result[0]; n += 1
            tok2 = ex.load(p, Ptr(lim.obj, (ti,))); last2 = ex.load(p, Ptr(lim.obj, (li,)))
            dt = z3.fpDiv(z3.RNE(), z3.fpSignedToFP(z3.RNE(), lib.sat64(now - last), z3.Float64()), F(1e9))
            avail = z3.fpMin(F(burst), z3.fpAdd(z3.RNE(), tokens, z3.fpMul(z3.RNE(), dt, F(rate))))
            claims = [('admits only with a whole token available', z3.Implies(ok, z3.fpGEQ(avail, F(1 - EPS)))), ('debits one token', z3.Implies(ok, z3.fpEQ(tok2, z3.fpSub(z3.RNE(), avail, F(1))))),
                      ('keeps -eps <= tokens <= burst', z3.And(z3.fpGEQ(tok2, F(-EPS)), z3.fpLEQ(tok2, F(burst)))), ('refusal leaves the state unchanged', z3.Implies(z3.Not(ok), z3.And(z3.fpEQ(tok2, tokens), last2.ns == last))),
                      ('last never exceeds now', last2.ns <= now)]
            for cname, c in claims:
                r_, m = ex.model_fresh(p.pc, z3.Not(c), 120000)
                if r_ == 'unknown': chk.absorb(ex, paths); chk.obligation('bucket', f'{rate}/{burst}', 'inconclusive', f'solver unknown on "{cname}"'); return
                if r_ == 'sat':
                    if chk.violation('bucket', f'rate.Limiter.Allow {rate}/{burst}: {cname}', f'token bucket step violates: {cname}', model_dict(m)) == 'new': verdict = 'violated'
        chk.absorb(ex, paths)
    if n == 0: chk.obligation('bucket', '-', 'inconclusive', 'vacuous'); return
    chk.obligation('bucket: one Allow() step from an arbitrary state admits only with >= 1 token, debits exactly one, keeps the invariant', 'configured (rate, burst) = (10/s, 100) and (1/s, 10); all token levels and instants; window bound follows by telescoping (DESIGN C14)', verdict, paths=total, t=time.time() - t)


def ob_totp(chk, ir):
    t = time.time()
    if totpk.NAME not in ir.funcs: chk.obligation('totp-throttle', '-', 'inconclusive', 'ANCHOR-LOST ' + totpk.NAME); return
    verdict = 'holds'; total = 0; n = 0
    RL = ir.typeid(M + '.totpRateLimitInfo')
    H, secret = totpk.setup(ir, ndev=1); ex = H.ex
    # which of the three neighbouring periods a value belongs to does not matter for the throttle claims: an evaluation is the first
    # candidate tried for a device (its verdict symbolic), the two further candidates are taken not to match
    def hotp_first(ex_, s_, a, ins):
        if not totpk.hotp_is_first(s_, a[1]): return (z3.BoolVal(False), nilerr())      # counter - 1 / counter + 1
        okb = a[0] == totpk.HOTP(a[2], lib.tobv(a[1]))
        s_.ev('totp.validate', code=a[0], step=lib.tobv(a[1]), ok=okb)
        return (okb, nilerr())
    H.stub('github.com/pquerna/otp/hotp.ValidateCustom', hotp_first)
    st, state, w, r = H.mkstate()
    user = SV('alice'); t1 = z3.BitVec('t1', lib.TW); t2 = z3.BitVec('t2', lib.TW)
    st.pc += [t1 >= lib.T(1577836800 * SEC), t1 <= t2, t2 <= lib.T(3976214400 * SEC)]
    # lemma (floor division is monotone): t1 <= t2 gives unix(t1) <= unix(t2) and step(t1) <= step(t2); stated so that the solver need not
    # derive it through the constant multiplications that tie the seconds / 30 s steps to the nanosecond instants
    st.pc += [z3.ULE(totpk.clock_vars(1)[0], totpk.clock_vars(2)[0]), z3.ULE(totpk.clock_vars(1)[1], totpk.clock_vars(2)[1])]
    # arbitrary pre-state record for the user (instants not after t1; failCount arbitrary)
    fc0 = z3.BitVec('pre.failCount', 32); lc0 = z3.BitVec('pre.lastCheckTime', lib.TW); lo0 = z3.BitVec('pre.lockoutExpirationTime', lib.TW); lf0 = z3.BitVec('pre.lastFailTime', lib.TW)
    st.pc += [lc0 <= t1, lf0 <= t1, lo0 <= t1 + lib.T(10**6 * SEC), lc0 >= lib.T(lib.ZERO_NS), lf0 >= lib.T(lib.ZERO_NS), lo0 >= lib.T(lib.ZERO_NS), z3.ULE(fc0, 1000)]
    rec = StructV({'lastCheckTime': TimeV(lc0), 'failCount': fc0, 'lockoutExpirationTime': TimeV(lo0), 'lastFailTime': TimeV(lf0)}.get(f['name'], Lazy(f['type'], 'pre.' + f['name'])) for f in ir.fields(RL))      # further fields of the record: arbitrary
    mt = [f for f in ir.fields(H.RS) if f['name'] == 'totpLocalRateLimit'][0]; mu = ir.under(mt['type'])[1]
    mcell = {'base': None, 'elem': mu['elem'], 'key': mu['key'], 'writes': [['set', user, rec]], 'lazy': {}}
    H.add_hints(pin(r'^\*state\.totpLocalRateLimit$', MapV(st.alloc(mcell))))
    ps1 = totpk.call(H, st, state, user, z3.String('code1'), t1, 1); total += len(ps1)
    def record(p):
        m = ex.load(p, Ptr(state.obj, (ir.field_index(H.RS, 'totpLocalRateLimit'),)))
        ents = ex.map_entries(p, m.obj)
        e = [x for x in ents if z3.is_true(z3.simplify(x[0] == user))]
        return e[-1][1] if e else None
    for p1 in ps1:
        if p1.status in ('unsupported', 'unwind', 'panic'): chk.absorb(ex, ps1); chk.obligation('totp-throttle', '-', 'inconclusive', p1.result); return
        ev1 = p1.evs('totp.validate')
        rec1 = record(p1)
        if rec1 is None: continue
        fc1 = ex.getfield(p1, rec1, RL, 'failCount'); lo1 = ex.getfield(p1, rec1, RL, 'lockoutExpirationTime').ns
        failed_eval = ev1 and z3.is_false(z3.simplify(p1.result[0])) and all(not ex.feasible(p1.pc, e['ok']) for e in ev1)      # the code was judged wrong (not: an internal error after a match)
        # lock-out after every fifth consecutive failure
        if failed_eval:
            n += 1
            fifth = z3.URem(fc1, z3.BitVecVal(5, 32)) == 0
            claims = [('fifth failure => lock-out at least an hour ahead', z3.Implies(fifth, lo1 >= t1 + lib.T(3600 * SEC))), ('the lock-out grows with repeated failures', z3.Implies(fifth, lo1 >= lo0 + lib.T(3600 * SEC))),
                      ]
            for cname, c in claims:
                r_, m = ex.model_fresh(p1.pc, z3.Not(c), 60000)
                if r_ == 'unknown': chk.obligation('totp-throttle', '-', 'inconclusive', 'solver unknown'); return
                if r_ == 'sat':
                    md = model_dict(m); md['post.failCount'] = str(m.eval(fc1, model_completion=True)); md['post.lockout'] = str(m.eval(lo1, model_completion=True)); md['events'] = [e['k'] for e in p1.events]
                    res = chk.violation('totp-lockout', f'validateUserTOTP: {cname}', f'after the failure that makes the count a multiple of five: not ({cname})', md)
                    if res == 'new': verdict = 'violated'
                    elif verdict == 'holds': verdict = 'known'
        # second call on the post-state
        s2 = p1.fork()
        ps2 = totpk.call(H, s2, state, user, z3.String('code2'), t2, 2); total += len(ps2)
        for p2 in ps2:
            if p2.status in ('unsupported', 'unwind', 'panic'): chk.absorb(ex, ps2); chk.obligation('totp-throttle', '-', 'inconclusive', p2.result); return
            ev2 = [e for e in p2.evs('totp.validate')][len(ev1):]
            if ev1 and ev2:
                n += 1
                r_, m = ex.model_fresh(p2.pc, t2 - t1 < lib.T(2 * SEC), 60000)
                if r_ == 'sat':
                    if chk.violation('totp-spacing', 'validateUserTOTP', 'two code evaluations for the same user less than two seconds apart', model_dict(m)) == 'new': verdict = 'violated'
            if ev2:
                # no evaluation while locked out (lock-out as recorded after call 1)
                r_, m = ex.model_fresh(p2.pc, t2 < lo1, 60000)
                if r_ == 'sat':
                    if chk.violation('totp-lockout', 'validateUserTOTP/evaluates-while-locked', 'a code is evaluated before the lock-out instant', model_dict(m)) == 'new': verdict = 'violated'
    chk.absorb(ex)
    if n == 0: chk.obligation('totp-throttle', '-', 'inconclusive', 'vacuous'); return
    chk.witnesses += n
    chk.obligation('totp-throttle: evaluations >= 2 s apart; every fifth failure locks out >= 1 h (growing); nothing evaluated while locked out', 'two consecutive calls at arbitrary instants from an arbitrary rate-limit record (one step of the induction over attempt sequences)', verdict, paths=total, witness=f'{n} cases', t=time.time() - t)


def main(chk):
    ir = chk.load_ir()
    chk.assumptions = ['A-clock: all clock reads of one call return the same instant', 'totp.Validate contract: valid iff the code is the HOTP value for step floor(t/30)+d, d in {-1,0,1}', 'rate.Limiter mutex gives mutual exclusion (true concurrency of Allow() is the library\'s)',
                       'int64(floor(float64(x)/30)) computed exactly for epoch seconds']
    chk.bounds = {'bucket': 'configured (10,100) and (1,10); one inductive step', 'totp': 'two consecutive calls (inductive step)', 'devices': 1}
    ob_limiter_before_backend(chk, ir)
    ob_totp(chk, ir)
    if chk.tier == 'thorough': ob_bucket(chk, ir)
    else: chk.notes.append('the token-bucket step (x/time/rate from its SSA, FP theory) is discharged in the thorough tier only (minutes of solver time)')


if __name__ == '__main__':
    run_check('C14', main)
