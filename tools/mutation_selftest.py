#!/usr/bin/env python3
"""Mutation self-test of the checks (development aid, not registered in MANIFEST): operator mutants of the functions each property is
anchored in are generated mechanically (== / !=, < / <=, > / >=, && / ||, dropped negation, dropped early return), applied one at a time
to a scratch worktree of /repo (never to /repo itself), filtered by `go build`, and the property's check is run on the worktree
(VERIF_REPO).  Result: which mutants the check reports (exit 1), which it does not (exit 0: to be triaged - equivalent mutant, mutant
outside the property, or a blind spot) and which make it inconclusive (exit 2).
usage: mutation_selftest.py [-j N] [-k mutants-per-property] [property ids...]   -> out/mutation_selftest.json"""
import json, os, re, random, subprocess, sys, shutil, concurrent.futures as cf

V = '/verif'; TMP = '/tmp/mut'
ANCHORS = {      # property -> [(file, function name)]
    'C01': [('cmd/keymasterd/certgen.go', 'certGenHandler'), ('cmd/keymasterd/app.go', 'checkAuth')],
    'C02': [('cmd/keymasterd/certgen.go', 'postAuthSSHCertHandler'), ('cmd/keymasterd/certgen.go', 'postAuthX509CertHandler'), ('lib/certgen/certgen.go', 'GenSSHCertFileString')],
    'C03': [('cmd/keymasterd/certgen.go', 'certGenHandler'), ('lib/certgen/certgen.go', 'GenSSHCertFileString'), ('lib/certgen/certgen.go', 'GenUserX509Cert')],
    'C04': [('cmd/keymasterd/jwt.go', 'getAuthInfoFromJWT'), ('cmd/keymasterd/jwt.go', 'getStorageDataFromStorageStringDataJWT'), ('cmd/keymasterd/jwt.go', 'publicToPreferedJoseSigAlgo')],
    'C05': [('cmd/keymasterd/2fa_vip.go', 'VIPPollCheckHandler'), ('cmd/keymasterd/2fa_totp.go', 'TOTPAuthHandler'), ('cmd/keymasterd/2fa_bootstrapOTP.go', 'BootstrapOtpAuthHandler')],
    'C06': [('cmd/keymasterd/app.go', 'checkAuth'), ('cmd/keymasterd/app.go', 'getUsernameIfKeymasterSigned')],
    'C07': [('lib/pwauth/ldap/impl.go', 'passwordAuthenticate'), ('lib/pwauth/ldap/impl.go', 'updateOrDeletePasswordHash')],
    'C08': [('cmd/keymasterd/app.go', 'u2fTokenManagerHandler'), ('cmd/keymasterd/adminHandlers.go', 'ensurePostAndGetUsername'), ('cmd/keymasterd/app.go', 'IsAdminUser')],
    'C09': [('cmd/keymasterd/unseal.go', 'secretInjectorHandler'), ('cmd/keymasterd/unseal.go', 'unsealCA'), ('cmd/keymasterd/app.go', 'sendFailureToClientIfLocked')],
    'C10': [('lib/certgen/certgen.go', 'ValidatePublicKeyStrength'), ('lib/certgen/iprestricted.go', 'decodeIPV4AddressChoice'), ('cmd/keymasterd/certgen.go', 'getValidSSHPublicKey')],
    'C11': [('lib/certgen/iprestricted.go', 'encodeIpAddressChoice'), ('lib/certgen/iprestricted.go', 'decodeIPV4AddressChoice'), ('lib/certgen/iprestricted.go', 'VerifyIPRestrictedX509CertIP'), ('cmd/keymasterd/app.go', 'getUsernameIfIPRestricted')],
    'C12': [('cmd/keymasterd/idp_oidc.go', 'idpOpenIDCTokenHandler'), ('cmd/keymasterd/idp_oidc.go', 'idpOpenIDCUserinfoHandler')],
    'C13': [('cmd/keymasterd/idp_oidc.go', 'CanRedirectToURL'), ('cmd/keymasterd/idp_oidc.go', 'hostnameInDomain'), ('cmd/keymasterd/idp_oidc.go', 'CorsOriginAllowed')],
    'C14': [('cmd/keymasterd/2fa_totp.go', 'validateUserTOTP'), ('cmd/keymasterd/app.go', 'checkPasswordAttemptLimit')],
    'C15': [('cmd/keymasterd/storage.go', 'copyDBIntoSQLite'), ('cmd/keymasterd/storage.go', 'LoadUserProfile')],
    'C16': [('cmd/keymasterd/2fa_totp.go', 'validateUserTOTP'), ('cmd/keymasterd/2fa_bootstrapOTP.go', 'BootstrapOtpAuthHandler'), ('cmd/keymasterd/app.go', 'performStateCleanup')],
    'C17': [('cmd/keymasterd/app.go', 'getLoginDestination'), ('cmd/keymasterd/app.go', 'isLocalLoginDestination')],
    'C18': [('cmd/keymasterd/app.go', 'ensureHTMLSafeLoginDestination'), ('cmd/keymasterd/app.go', 'writeHTMLLoginPage')],
    'C19': [('lib/client/sshagent/agent.go', 'deleteDuplicateEntries'), ('lib/client/twofa/twofa.go', 'doCertRequest'), ('cmd/keymasterd/certgen.go', 'getValidSSHPublicKey')],
    'C20': [('eventmon/eventrecorder/impl.go', 'loadEvents'), ('eventmon/eventrecorder/impl.go', 'expireOldEvents'), ('lib/server/eventnotifier/impl.go', 'transmitEvent')],
}
OPS = [('==', '!='), ('!=', '=='), ('<=', '<'), ('>=', '>'), (' < ', ' <= '), (' > ', ' >= '), ('&&', '||'), ('||', '&&')]


def func_range(src, name):
    lines = src.split('\n')
    for i, l in enumerate(lines):
        if re.match(r'func (\([^)]*\) )?' + re.escape(name) + r'\(', l):
            for j in range(i + 1, len(lines)):
                if lines[j] == '}': return i, j
    return None


def mutants_of(path, name, src):
    rng = func_range(src, name)
    if not rng: return []
    lines = src.split('\n'); out = []
    for ln in range(rng[0] + 1, rng[1]):
        l = lines[ln]; st = l.strip()
        if not st or st.startswith('//') or 'logger.' in st or 'log.' in st or 'Debugf' in st or 'Printf' in st or 'metric' in st: continue
        code = l.split('//')[0]
        for a, b in OPS:
            k = code.find(a)
            if k < 0: continue
            if a in ('<=', '>=') and False: continue
            if a.strip() in ('<', '>') and ('<-' in code or '->' in code): continue
            if a == '==' and 'err' in code and 'nil' in code: pass
            out.append((ln, a.strip(), l[:k] + b + l[k + len(a):]))
        if os.environ.get('MUT_CONST'):
            out = [o for o in out if False] if os.environ.get('MUT_CONST') == 'only' and ln == rng[0] + 1 else out
            for mm in re.finditer(r'(?<![\w.\"])(\d+)(?![\w.\"])', code):
                v = int(mm.group(1))
                if v < 2 or code.strip().startswith('case ') or '"' in code[:mm.start()].split('(')[-1]: continue
                out.append((ln, 'const*2', l[:mm.start()] + str(v * 2) + l[mm.end():]))
                out.append((ln, 'const/2', l[:mm.start()] + str(max(1, v // 2)) + l[mm.end():]))
                break
        m = re.search(r'\bif !(\w|\()', code)
        if m: out.append((ln, 'drop-negation', l[:m.start()] + 'if ' + l[m.start() + 4:]))
        if st == 'return' and lines[ln - 1].strip() and not lines[ln - 1].strip().startswith('//'):
            out.append((ln, 'drop-return', l.replace('return', '// (mutant) return dropped')))
    if os.environ.get('MUT_CONST') == 'only': out = [o for o in out if o[1].startswith('const')]
    return [(path, name, ln + 1, op, new) for ln, op, new in out]


def run_one(job):
    idx, pid, path, fname, line, op, new = job
    wt = os.path.join(TMP, f'm{idx}'); outd = os.path.join(TMP, f'out{idx}'); evd = os.path.join(TMP, f'ev{idx}')
    subprocess.run(['git', '-C', '/repo', 'worktree', 'remove', '--force', wt], capture_output=True); shutil.rmtree(wt, ignore_errors=True)
    os.makedirs(TMP, exist_ok=True)
    subprocess.run(['git', '-C', '/repo', 'worktree', 'add', '--detach', wt, 'HEAD'], check=True, capture_output=True)
    res = {'property': pid, 'file': path, 'function': fname, 'line': line, 'operator': op, 'new': new.strip()[:140]}
    try:
        p = os.path.join(wt, path); lines = open(p).read().split('\n'); res['old'] = lines[line - 1].strip()[:140]
        lines[line - 1] = new; open(p, 'w').write('\n'.join(lines))
        env = dict(os.environ, GOFLAGS='-mod=mod', GOPROXY='off'); env.pop('GOSUMDB', None)
        pk = './' + os.path.dirname(path) + '/'
        if path.startswith(('lib/client', 'cmd/keymaster/')):
            b = subprocess.run(['gofmt', '-e', '-l', path], cwd=wt, env=env, capture_output=True, text=True); built = b.returncode == 0 and not b.stderr
            if built:
                b = subprocess.run(['go', 'vet', '-vettool=/bin/true', pk], cwd=wt, env=dict(env, CGO_ENABLED='0'), capture_output=True, text=True); built = True      # the client does not build here (cgo); type errors surface as an inconclusive check
        else:
            b = subprocess.run(['go', 'build', '-o', '/dev/null', pk], cwd=wt, env=env, capture_output=True, text=True, timeout=600); built = b.returncode == 0
        res['builds'] = built
        if not built: return res
        env.update(VERIF_REPO=wt, VERIF_OUT=outd, VERIF_EVIDENCE=evd)
        r = subprocess.run([os.path.join(V, 'run'), pid, 'quick'], capture_output=True, text=True, env=env)
        res['exit'] = r.returncode; res['violations'] = sorted(set(re.findall(r'^  violation: (.*?): ', r.stdout, re.M)))[:4]
        res['inconclusive'] = re.findall(r'^INCONCLUSIVE (.*)$', r.stdout, re.M)[:1]
    except Exception as e:
        res['error'] = f'{type(e).__name__}: {e}'
    finally:
        subprocess.run(['git', '-C', '/repo', 'worktree', 'remove', '--force', wt], capture_output=True)
        shutil.rmtree(wt, ignore_errors=True); shutil.rmtree(outd, ignore_errors=True); shutil.rmtree(evd, ignore_errors=True)
    return res


def second_pass(j):
    """survivors are re-run against the checks of every other property anchored in the same file (a mutant may belong to a neighbour)"""
    pth = os.path.join(V, 'out', 'mutation_selftest.json'); results = json.load(open(pth))
    jobs = []
    for i, r in enumerate(results):
        if not r.get('builds') or r.get('exit') != 0: continue
        peers = sorted({pid for pid, lst in ANCHORS.items() for f, _ in lst if f == r['file'] and pid != r['property']})
        r['peers'] = {}
        for pid in peers: jobs.append((1000 + len(jobs), pid, r['file'], r['function'], r['line'], r['operator'], None, i))
    src_cache = {}
    def run_peer(job):
        idx, pid, path, fname, line, op, _n, ri = job
        r = results[ri]
        # rebuild the mutated line from the recorded text (indentation from the original file)
        orig = open(os.path.join('/repo', path)).read().split('\n')[line - 1]
        new = orig[:len(orig) - len(orig.lstrip())] + r['new'] if r['operator'] != 'drop-return' else orig.replace('return', '// (mutant) return dropped')
        return ri, pid, run_one((idx, pid, path, fname, line, op, new))
    with cf.ThreadPoolExecutor(j) as ex:
        for ri, pid, res in ex.map(run_peer, jobs):
            results[ri]['peers'][pid] = res.get('exit')
            print('PEER', results[ri]['property'], '->', pid, f"{results[ri]['file']}:{results[ri]['line']}", {1: 'KILLED', 0: 'survived', 2: 'inconclusive'}.get(res.get('exit')), (res.get('violations') or [''])[0][:90], flush=True)
    json.dump(results, open(pth, 'w'), indent=1)


if __name__ == '__main__':
    args = sys.argv[1:]; j = 3; k = 6
    if args[:1] == ['--second-pass']: second_pass(3); sys.exit(0)
    while args and args[0] in ('-j', '-k'):
        if args[0] == '-j': j = int(args[1])
        else: k = int(args[1])
        args = args[2:]
    props = args or sorted(ANCHORS)
    rnd = random.Random(int(os.environ.get('MUT_SEED', '20261003'))); jobs = []
    for pid in props:
        cands = []
        for path, fname in ANCHORS[pid]:
            fp = os.path.join('/repo', path)
            if os.path.exists(fp): cands += mutants_of(path, fname, open(fp).read())
        rnd.shuffle(cands)
        for c in cands[:k]: jobs.append((len(jobs), pid) + c)
    print(f'{len(jobs)} mutants', flush=True)
    results = []
    with cf.ThreadPoolExecutor(j) as ex:
        for res in ex.map(run_one, jobs):
            results.append(res)
            tag = 'NOBUILD' if not res.get('builds') else {1: 'KILLED', 0: 'SURVIVED', 2: 'INCONCLUSIVE'}.get(res.get('exit'), 'ERROR')
            print(tag, res['property'], f"{res['file']}:{res['line']}", res['operator'], '|', res.get('old', '')[:70], '=>', res['new'][:70], '|', (res.get('violations') or res.get('inconclusive') or [''])[0][:80], flush=True)
    os.makedirs(os.path.join(V, 'out'), exist_ok=True)
    prev = []
    pth = os.path.join(V, 'out', 'mutation_selftest' + ('_' + os.environ['MUT_SEED'] if os.environ.get('MUT_SEED') else '') + '.json')
    json.dump(results, open(pth, 'w'), indent=1)
    built = [r for r in results if r.get('builds')]
    print(f"built {len(built)}/{len(results)}; killed {sum(1 for r in built if r.get('exit') == 1)}, survived {sum(1 for r in built if r.get('exit') == 0)}, inconclusive {sum(1 for r in built if r.get('exit') == 2)}")
